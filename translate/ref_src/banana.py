import six
import struct, time

from twisted.internet import protocol, defer, reactor
from twisted.internet.interfaces import ITCPTransport
from twisted.python.failure import Failure
from twisted.python import log

# make sure to import allslicers, so they all get registered. Even if the
# need for RootSlicer/etc goes away, do the import here anyway.
from foolscap.slicers.allslicers import RootSlicer, RootUnslicer
from foolscap.slicers.allslicers import ReplaceVocabSlicer, AddVocabSlicer

from . import stringchain
from . import tokens
from .tokens import SIZE_LIMIT, STRING, LIST, INT, NEG, \
     LONGINT, LONGNEG, VOCAB, FLOAT, OPEN, CLOSE, ABORT, ERROR, \
     PING, PONG, \
     BananaError, BananaFailure, Violation

EPSILON = 0.1

def int2b128(integer, stream):
    if integer == 0:
        stream(b'\0')
        return
    assert integer > 0, "can only encode positive integers"
    while integer:
        stream(six.int2byte(integer & 0x7f))
        integer = integer >> 7

def b1282int(st):
    # NOTE that this is little-endian
    oneHundredAndTwentyEight = 128
    i = 0
    place = 0
    for num in six.iterbytes(st):
        i = i + (num * (oneHundredAndTwentyEight ** place))
        place = place + 1
    return i

# we used to have a clever 32bit-word-at-a-time algorithm, but this is rarely
# used for large numbers so simpler is better

def long_to_bytes(n):
    """long_to_bytes(n:long) : bytes
    Convert a long integer to a big-endian byte string .
    """
    assert n >= 0
    out = []
    while n:
        out.append(six.int2byte(n & 0xff))
        n >>= 8
    return b"".join(reversed(out))

def bytes_to_long(s):
    """bytes_to_long(bytes) : long
    Convert a byte string to a long integer.

    This is (essentially) the inverse of long_to_bytes().
    """
    acc = 0
    for i in six.iterbytes(s):
        acc <<= 8
        acc += i
    return acc

HIGH_BIT_SET = b"\x80"

SIMPLE_TOKENS = (int, float, bytes)

# Banana is a big class. It is split up into three sections: sending,
# receiving, and connection setup. These used to be separate classes, but
# the __init__ functions got too weird.

class Banana(protocol.Protocol):

    def __init__(self, features={}):
        """
        @param features: a dictionary of negotiated connection features
        """
        self.initSend()
        self.initReceive()

    def populateVocabTable(self, vocabStrings):
        """
        I expect a list of strings. I will populate my initial vocab
        table (both inbound and outbound) with this list.

        It is not safe to use this method once anything has been serialized
        onto the wire. This method can only be used to set up the initial
        vocab table based upon a negotiated set of common words. The
        'initial-vocab-table-index' parameter is used to decide upon the
        contents of this table.
        """

        out_vocabDict = dict(list(zip(vocabStrings, list(range(len(vocabStrings))))))
        self.outgoingVocabTableWasReplaced(out_vocabDict)

        in_vocabDict = dict(list(zip(list(range(len(vocabStrings))), vocabStrings)))
        self.replaceIncomingVocabulary(in_vocabDict)

    ### connection setup

    def connectionMade(self):
        if self.debugSend:
            print("Banana.connectionMade")
        if ITCPTransport.providedBy(self.transport):
            self.transport.setTcpNoDelay(True)
        self.initSlicer()
        self.initUnslicer()
        if self.keepaliveTimeout is not None:
            self.dataLastReceivedAt = time.time()
            t = reactor.callLater(self.keepaliveTimeout + EPSILON,
                                  self.keepaliveTimerFired)
            self.keepaliveTimer = t
            self.useKeepalives = True
        if self.disconnectTimeout is not None:
            self.dataLastReceivedAt = time.time()
            t = reactor.callLater(self.disconnectTimeout + EPSILON,
                                  self.disconnectTimerFired)
            self.disconnectTimer = t
            self.useKeepalives = True
        # prime the pump
        self.produce()

    def connectionLost(self, why):
        if self.disconnectTimer:
            self.disconnectTimer.cancel()
            self.disconnectTimer = None
        if self.keepaliveTimer:
            self.keepaliveTimer.cancel()
            self.keepaliveTimer = None
        protocol.Protocol.connectionLost(self, why)

    ### SendBanana
    # called by .send()
    # calls transport.write() and transport.loseConnection()

    slicerClass = RootSlicer # this is used in connectionMade()
    paused = False
    streamable = True # this is checked at connectionMade() time
    debugSend = False

    def initSend(self):
        self.openCount = 0
        self.outgoingVocabulary = {} # bytes->int
        self.nextAvailableOutgoingVocabularyIndex = 0
        self.pendingVocabAdditions = set() # bytes

    def initSlicer(self):
        self.rootSlicer = self.slicerClass(self)
        self.rootSlicer.allowStreaming(self.streamable)
        assert tokens.ISlicer.providedBy(self.rootSlicer)
        assert tokens.IRootSlicer.providedBy(self.rootSlicer)

        slices = iter(self.rootSlicer.slice())
        top = (self.rootSlicer, slices, None)
        self.slicerStack = [top]

    def send(self, obj):
        if self.debugSend: print("Banana.send(%s)" % obj)
        return self.rootSlicer.send(obj)

    def _slice_error(self, f, s):
        log.msg("Error in Deferred returned by slicer %s: %s" % (s, f))
        self.sendFailed(f)

    def produce(self, dummy=None):
        # optimize: cache 'next' because we get many more tokens than stack
        # pushes/pops
        while self.slicerStack and not self.paused:
            if self.debugSend: print("produce.loop")
            try:
                slicer, slices, openID = self.slicerStack[-1]
                obj = next(slices)
                if self.debugSend: print(" produce.obj=%s" % (obj,))
                if isinstance(obj, defer.Deferred):
                    for s,_,_ in self.slicerStack:
                        if not s.streamable:
                            raise Violation("parent not streamable")
                    obj.addCallback(self.produce)
                    obj.addErrback(self._slice_error, s)
                    # this is the primary exit point
                    break
                elif type(obj) in SIMPLE_TOKENS:
                    # sendToken raises a BananaError for weird tokens
                    self.sendToken(obj)
                else:
                    # newSlicerFor raises a Violation for unsendable types
                    # pushSlicer calls .slice, which can raise Violation
                    try:
                        slicer = self.newSlicerFor(obj)
                        self.pushSlicer(slicer, obj)
                    except Violation:
                        # pushSlicer is arranged such that the pushing of
                        # the Slicer and the sending of the OPEN happen
                        # together: either both occur or neither occur. In
                        # addition, there is nothing past the OPEN/push
                        # which can cause an exception.

                        # Therefore, if an exception was raised, we know
                        # that the OPEN has not been sent (so we don't have
                        # to send an ABORT), and that the new Unslicer has
                        # not been pushed (so we don't have to pop one from
                        # the stack)

                        f = BananaFailure()
                        if self.debugSend:
                            print(" violation in newSlicerFor:", f)
                        self.handleSendViolation(f,
                                                 doPop=False, sendAbort=False)

            except StopIteration:
                if self.debugSend: print("StopIteration")
                self.popSlicer()

            except Violation as v:
                # Violations that occur because of Constraints are caught
                # before the Slicer is pushed. A Violation that is caught
                # here was raised inside .next(), or .streamable wasn't
                # obeyed. The Slicer should now be abandoned.
                if self.debugSend: print(" violation in .next:", v)

                f = BananaFailure()
                self.handleSendViolation(f, doPop=True, sendAbort=True)

            except:
                print("exception in produce")
                log.msg("exception in produce")
                self.sendFailed(Failure())
                # there is no point to raising this again. The Deferreds are
                # all errbacked in sendFailed(). This function was called
                # inside a Deferred which errbacks to sendFailed(), and
                # we've already called that once. The connection will be
                # dropped by sendFailed(), and the error is logged, so there
                # is nothing left to do.
                return

        assert self.slicerStack # should never be empty

    def handleSendViolation(self, f, doPop, sendAbort):
        f.value.setLocation(self.describeSend())

        while True:
            top = self.slicerStack[-1][0]

            if self.debugSend:
                print(" handleSendViolation.loop, top=%s" % top)

            # should we send an ABORT? Only if an OPEN has been sent, which
            # happens in pushSlicer (if at all).
            if sendAbort:
                lastOpenID = self.slicerStack[-1][2]
                if lastOpenID is not None:
                    if self.debugSend:
                        print("  sending ABORT(%s)" % lastOpenID)
                    self.sendAbort(lastOpenID)

            # should we pop the Slicer? yes
            if doPop:
                if self.debugSend: print("  popping %s" % top)
                self.popSlicer()
                if not self.slicerStack:
                    if self.debugSend: print("RootSlicer died!")
                    raise BananaError("Hey! You killed the RootSlicer!")
                top = self.slicerStack[-1][0]

            # now inform the parent. If they also give up, we will
            # loop, popping more Slicers off the stack until the
            # RootSlicer ignores the error

            if self.debugSend:
                print("  notifying parent", top)
            f = top.childAborted(f)

            if f:
                doPop = True
                sendAbort = True
                continue
            else:
                break


        # the parent wants to forge ahead

    def newSlicerFor(self, obj):
        if tokens.ISlicer.providedBy(obj):
            return obj
        topSlicer = self.slicerStack[-1][0]
        # slicerForObject could raise a Violation, for unserializeable types
        return topSlicer.slicerForObject(obj)

    def pushSlicer(self, slicer, obj):
        if self.debugSend: print("push", slicer)
        assert len(self.slicerStack) < 10000 # failsafe

        # if this method raises a Violation, it means that .slice failed,
        # and neither the OPEN nor the stack-push has occurred

        topSlicer = self.slicerStack[-1][0]
        slicer.parent = topSlicer

        # we start the Slicer (by getting its iterator) first, so that if it
        # fails we can refrain from sending the OPEN (hence we do not have
        # to send an ABORT and CLOSE, which simplifies the send logic
        # considerably). slicer.slice is the only place where a Violation
        # can be raised: it is caught and passed cleanly to the parent. If
        # it happens anywhere else, or if any other exception is raised, the
        # connection will be dropped.

        # the downside to this approach is that .slice happens before
        # .registerRefID, so any late-validation being done in .slice will
        # not be able to detect the fact that this object has already begun
        # serialization. Validation performed in .next is ok.

        # also note that if .slice is a generator, any exception it raises
        # will not occur until .next is called, which happens *after* the
        # slicer has been pushed. This check is only useful for .slice
        # methods which are *not* generators.

        itr = slicer.slice(topSlicer.streamable, self)
        slices = iter(itr)

        # we are now committed to sending the OPEN token, meaning that
        # failures after this point will cause an ABORT/CLOSE to be sent

        openID = None
        if slicer.sendOpen:
            openID = self.sendOpen()
            if slicer.trackReferences:
                topSlicer.registerRefID(openID, obj)
            # note that the only reason to hold on to the openID here is for
            # the debug/optional copy in the CLOSE token. Consider ripping
            # this code out if we decide to stop sending that copy.

        slicertuple = (slicer, slices, openID)
        self.slicerStack.append(slicertuple)

    def popSlicer(self):
        slicer, slices, openID = self.slicerStack.pop()
        if openID is not None:
            self.sendClose(openID)
        if self.debugSend: print("pop", slicer)

    def describeSend(self):
        where = []
        for i in self.slicerStack:
            try:
                piece = i[0].describe()
            except:
                log.msg("Banana.describeSend")
                log.err()
                piece = "???"
            where.append(piece)
        return ".".join(where)

    def setOutgoingVocabulary(self, vocabStrings):
        """Schedule a replacement of the outbound VOCAB table.

        Higher-level code may call this at any time with a list of strings.
        Immediately after the replacement has occured, the outbound VOCAB
        table will contain all of the strings in vocabStrings and nothing
        else. This table tells the token-sending code which strings to
        abbreviate with short integers in a VOCAB token.

        This function can be called at any time (even while the protocol is
        in the middle of serializing and transmitting some other object)
        because it merely schedules a replacement to occur at some point in
        the future. A special marker (the ReplaceVocabSlicer) is placed in
        the outbound queue, and the table replacement will only happend after
        all the items ahead of that marker have been serialized. At the same
        time the table is replaced, a (set-vocab..) sequence will be
        serialized towards the far end. This insures that we set our outbound
        table at the same 'time' as the far end starts using it.
        """
        # build a VOCAB message, send it, then set our outgoingVocabulary
        # dictionary to start using the new table
        assert isinstance(vocabStrings, (list, tuple))
        vocabStrings = [six.ensure_binary(s) for s in vocabStrings]
        vocabDict = dict(list(zip(vocabStrings, list(range(len(vocabStrings))))))
        s = ReplaceVocabSlicer(vocabDict)
        # the ReplaceVocabSlicer does some magic to insure the VOCAB message
        # does not use vocab tokens itself. This would be legal (sort of a
        # differential compression), but confusing. It accomplishes this by
        # clearing our self.outgoingVocabulary dict when it begins to be
        # serialized.
        self.send(s)

        # likewise, when it finishes, the ReplaceVocabSlicer replaces our
        # self.outgoingVocabulary dict when it has finished sending the
        # strings. It is important that this occur in the serialization code,
        # or somewhen very close to it, because otherwise there could be a
        # race condition that could result in some strings being vocabized
        # with the wrong keys.

    def addToOutgoingVocabulary(self, value):
        """Schedule 'value' for addition to the outbound VOCAB table.

        This may be called at any time. If the string is already scheduled
        for addition, or if it is already in the VOCAB table, it will be
        ignored. (TODO: does this introduce an annoying-but-not-fatal race
        condition?) The string will not actually be added to the table until
        the outbound serialization queue has been serviced.
        """
        value = six.ensure_binary(value)
        if value in self.outgoingVocabulary:
            return
        if value in self.pendingVocabAdditions:
            return
        self.pendingVocabAdditions.add(value)
        s = AddVocabSlicer(value)
        self.send(s)

    def outgoingVocabTableWasReplaced(self, newTable):
        # this is called by the ReplaceVocabSlicer to manipulate our table.
        # It must certainly *not* be called by higher-level user code.
        for k in newTable.keys():
            assert isinstance(k, bytes)
        self.outgoingVocabulary = newTable
        if newTable:
            maxIndex = max(newTable.values()) + 1
            self.nextAvailableOutgoingVocabularyIndex = maxIndex
        else:
            self.nextAvailableOutgoingVocabularyIndex = 0

    def allocateEntryInOutgoingVocabTable(self, value):
        value = six.ensure_binary(value)
        assert value not in self.outgoingVocabulary
        # TODO: a softer failure more for this assert is to re-send the
        # existing key. To make sure that really happens, though, we have to
        # remove it from the vocab table, otherwise we'll tokenize the
        # string. If we can insure that, then this failure mode would waste
        # time and network but would otherwise be harmless.
        #
        # return self.outgoingVocabulary[string]

        self.pendingVocabAdditions.remove(value)
        index = self.nextAvailableOutgoingVocabularyIndex
        self.nextAvailableOutgoingVocabularyIndex = index + 1
        return index

    def outgoingVocabTableWasAmended(self, index, value):
        value = six.ensure_binary(value)
        self.outgoingVocabulary[value] = index

    # these methods define how we emit low-level tokens

    def sendPING(self, number=0):
        if number:
            int2b128(number, self.transport.write)
        self.transport.write(PING)

    def sendPONG(self, number):
        if number:
            int2b128(number, self.transport.write)
        self.transport.write(PONG)

    def sendOpen(self):
        openID = self.openCount
        self.openCount += 1
        int2b128(openID, self.transport.write)
        self.transport.write(OPEN)
        return openID

    def sendToken(self, obj):
        write = self.transport.write
        if isinstance(obj, int):
            if obj >= 2**31:
                s = long_to_bytes(obj)
                int2b128(len(s), write)
                write(LONGINT)
                write(s)
            elif obj >= 0:
                int2b128(obj, write)
                write(INT)
            elif -obj > 2**31: # NEG is [-2**31, 0)
                s = long_to_bytes(-obj)
                int2b128(len(s), write)
                write(LONGNEG)
                write(s)
            else:
                int2b128(-obj, write)
                write(NEG)
        elif isinstance(obj, float):
            write(FLOAT)
            write(struct.pack("!d", obj))
        elif isinstance(obj, bytes):
            if obj in self.outgoingVocabulary:
                symbolID = self.outgoingVocabulary[obj]
                int2b128(symbolID, write)
                write(VOCAB)
            else:
                self.maybeVocabizeString(obj)
                int2b128(len(obj), write)
                write(STRING)
                write(obj)
        else:
            raise BananaError("could not send object: %s" % repr(obj))

    def maybeVocabizeString(self, string):
        # TODO: keep track of the last 30 strings we've send in full. If this
        # string appears more than 3 times on that list, create a vocab item
        # for it. Make sure we don't start using the vocab number until the
        # ADDVOCAB token has been queued.
        if False:
            self.addToOutgoingVocabulary(string)

    def sendClose(self, openID):
        int2b128(openID, self.transport.write)
        self.transport.write(CLOSE)

    def sendAbort(self, count=0):
        int2b128(count, self.transport.write)
        self.transport.write(ABORT)

    def sendError(self, msg):
        if not self.transport:
            return
        msg = six.ensure_binary(msg)
        if len(msg) > SIZE_LIMIT:
            msg = msg[:SIZE_LIMIT-10] + b"..."
        int2b128(len(msg), self.transport.write)
        self.transport.write(ERROR)
        self.transport.write(msg)
        # now you should drop the connection
        self.transport.loseConnection()

    def sendFailed(self, f):
        # call this if an exception is raised in transmission. The Failure
        # will be logged and the connection will be dropped. This is
        # suitable for use as an errback handler.
        print("SendBanana.sendFailed:", f)
        log.msg("Sendfailed.sendfailed")
        log.err(f)
        try:
            if self.transport:
                self.transport.loseConnection()
        except:
            print("exception during transport.loseConnection")
            log.err()
        try:
            self.rootSlicer.connectionLost(f)
        except:
            print("exception during rootSlicer.connectionLost")
            log.err()

    ### ReceiveBanana
    # called with dataReceived()
    # calls self.receivedObject()

    unslicerClass = RootUnslicer
    debugReceive = False
    logViolations = False
    logReceiveErrors = True
    useKeepalives = False
    keepaliveTimeout = None
    keepaliveTimer = None
    disconnectTimeout = None
    disconnectTimer = None

    def initReceive(self):
        self.inOpen = False # set during the Index Phase of an OPEN sequence
        self.opentype = [] # accumulates Index Tokens

        # to pre-negotiate, set the negotiation parameters and set
        # self.negotiated to True. It might instead make sense to fill
        # self.buffer with the inbound negotiation block.
        self.negotiated = False
        self.connectionAbandoned = False
        self.buffer = stringchain.StringChain()

        self.incomingVocabulary = {} # bytes->int
        self.skipBytes = 0 # used to discard a single long token
        self.discardCount = 0 # used to discard non-primitive objects
        self.exploded = None # last-ditch error catcher

    def initUnslicer(self):
        self.rootUnslicer = self.unslicerClass(self)
        self.receiveStack = [self.rootUnslicer]
        self.objectCounter = 0
        self.objects = {}

    def printStack(self, verbose=0):
        print("STACK:")
        for s in self.receiveStack:
            if verbose:
                d = s.__dict__.copy()
                del d['protocol']
                print(" %s: %s" % (s, d))
            else:
                print(" %s" % s)

    def setObject(self, count, obj):
        for i in range(len(self.receiveStack)-1, -1, -1):
            self.receiveStack[i].setObject(count, obj)

    def getObject(self, count):
        for i in range(len(self.receiveStack)-1, -1, -1):
            obj = self.receiveStack[i].getObject(count)
            if obj is not None:
                return obj
        raise ValueError("dangling reference '%d'" % count)


    def replaceIncomingVocabulary(self, vocabDict):
        # maps small integer to string, should be called in response to a
        # OPEN(set-vocab) sequence.
        for k,v in vocabDict.items():
            assert isinstance(k, int)
            assert isinstance(v, bytes)
        self.incomingVocabulary = vocabDict

    def addIncomingVocabulary(self, key, value):
        # called in response to an OPEN(add-vocab) sequence
        assert isinstance(key, int)
        assert isinstance(value, bytes)
        self.incomingVocabulary[key] = value

    def dataReceived(self, chunk):
        if self.connectionAbandoned:
            return
        if self.useKeepalives:
            self.dataLastReceivedAt = time.time()
        try:
            self.handleData(chunk)
        except Exception as e:
            if isinstance(e, BananaError):
                # only reveal the reason if it is a protocol error
                e.where = self.describeReceive()
                msg = str(e) # send them the text of the error
            else:
                msg = ("exception while processing data, more "
                       "information in the logfiles")
                if not self.logReceiveErrors:
                    msg += ", except that self.logReceiveErrors=False"
                    msg += ", sucks to be you"
            self.sendError(msg)
            self.connectionAbandoned = True
            self.reportReceiveError(Failure())

    def keepaliveTimerFired(self):
        self.keepaliveTimer = None
        age = time.time() - self.dataLastReceivedAt
        if age > self.keepaliveTimeout:
            # the connection looks idle, so let's provoke a response
            self.sendPING()
        # we restart the timer in either case
        t = reactor.callLater(self.keepaliveTimeout + EPSILON,
                              self.keepaliveTimerFired)
        self.keepaliveTimer = t

    def disconnectTimerFired(self):
        self.disconnectTimer = None
        age = time.time() - self.dataLastReceivedAt
        if age > self.disconnectTimeout:
            # the connection looks dead, so drop it
            log.msg("disconnectTimeout, no data for %d seconds" % age)
            self.connectionTimedOut()
            # we assume that connectionTimedOut() will actually drop the
            # connection, so we don't restart the timer. TODO: this might not
            # be the right thing to do, perhaps we should restart it
            # unconditionally.
        else:
            # we're still ok, so restart the timer
            t = reactor.callLater(self.disconnectTimeout + EPSILON,
                                  self.disconnectTimerFired)
            self.disconnectTimer = t

    def getDataLastReceivedAt(self):
        """If keepalives are enabled, this returns the seconds-since-epoch
        when the most recent data was received on this connection. If
        keepalives are disabled (which is the detault), it returns None."""

        if self.useKeepalives:
            return self.dataLastReceivedAt
        return None

    def connectionTimedOut(self):
        # this is to be implemented by higher-level code. It ought to log a
        # suitable message and then drop the connection.
        pass

    def reportReceiveError(self, f):
        # tests can override this to stash the failure somewhere else. Tests
        # which intentionally cause an error set self.logReceiveErrors=False
        # so that the log.err doesn't flunk the test.
        log.msg("Banana.reportReceiveError: an error occured during receive")
        if self.logReceiveErrors:
            log.err(f)
        if self.debugReceive:
            # trial watches log.err and treats it as a failure, so log the
            # exception in a way that doesn't make trial flunk the test
            log.msg(f.getBriefTraceback())


    def handleData(self, chunk):
        # buffer, assemble into tokens
        # call self.receiveToken(token) with each
        if self.skipBytes:
            if len(chunk) <= self.skipBytes:
                # skip the whole chunk
                self.skipBytes -= len(chunk)
                return
            # skip part of the chunk, and stop skipping
            chunk = chunk[self.skipBytes:]
            self.skipBytes = 0
        self.buffer.append(chunk)

        # Loop through the available input data, extracting one token per
        # pass.

        while len(self.buffer):
            first65 = self.buffer.popleft(65)
            pos = 0
            for ch in six.iterbytes(first65):
                if ch >= 0x80:
                    break
                pos = pos + 1
                if pos > 64:
                    # drop the connection. We log more of the buffer, but not
                    # all of it, to make it harder for someone to spam our
                    # logs.
                    s = first65 + self.buffer.popleft(200)
                    raise BananaError("token prefix is limited to 64 bytes: "
                                      "but got %r" % s)
            else:
                # we've run out of buffer without seeing the high bit, which
                # means we're still waiting for header to finish
                self.buffer.appendleft(first65)
                return
            assert pos <= 64

            # At this point, the header and type byte have been received.
            # The body may or may not be complete.

            typebyte = first65[pos:pos+1] # byte
            if pos:
                header = b1282int(first65[:pos])
            else:
                header = 0

            # rejected is set as soon as a violation is detected. It
            # indicates that this single token will be rejected.

            rejected = False
            if self.discardCount:
                rejected = True

            wasInOpen = self.inOpen
            if typebyte == OPEN:
                self.inboundObjectCount = self.objectCounter
                self.objectCounter += 1
                if self.inOpen:
                    raise BananaError("OPEN token followed by OPEN")
                self.inOpen = True
                # the inOpen flag is set as soon as the OPEN token is
                # witnessed (even it it gets rejected later), because it
                # means that there is a new sequence starting that must be
                # handled somehow (either discarded or given to a new
                # Unslicer).

                # The inOpen flag is cleared when the Index Phase ends. There
                # are two possibilities: 1) a new Unslicer is pushed, and
                # tokens are delivered to it normally. 2) a Violation was
                # raised, and the tokens must be discarded
                # (self.discardCount++). *any* rejection-caused True->False
                # transition of self.inOpen must be accompanied by exactly
                # one increment of self.discardCount

            # determine if this token will be accepted, and if so, how large
            # it is allowed to be (for STRING and LONGINT/LONGNEG)

            if ((not rejected) and
                (typebyte not in (PING, PONG, ABORT, CLOSE, ERROR))):
                # PING, PONG, ABORT, CLOSE, and ERROR are always legal. All
                # others (including OPEN) can be rejected by the schema: for
                # example, a list of integers would reject STRING, VOCAB, and
                # OPEN because none of those will produce integers. If the
                # unslicer's .checkToken rejects the tokentype, its
                # .receiveChild will immediately get an Failure
                try:
                    # the purpose here is to limit the memory consumed by
                    # the body of a STRING, OPEN, LONGINT, or LONGNEG token
                    # (i.e., the size of a primitive type). If the sender
                    # wants to feed us more data than we want to accept, the
                    # checkToken() method should raise a Violation. This
                    # will never be called with ABORT or CLOSE types.
                    top = self.receiveStack[-1]
                    if wasInOpen:
                        top.openerCheckToken(typebyte, header, self.opentype)
                    else:
                        top.checkToken(typebyte, header)
                except Violation:
                    rejected = True
                    f = BananaFailure()
                    if wasInOpen:
                        methname = "openerCheckToken"
                    else:
                        methname = "checkToken"
                    self.handleViolation(f, methname, inOpen=self.inOpen)
                    self.inOpen = False

            if typebyte == ERROR and header > SIZE_LIMIT:
                # someone is trying to spam us with an ERROR token. Drop
                # them with extreme prejudice.
                raise BananaError("oversized ERROR token")

            self.buffer.appendleft(first65[pos+1:])

            # determine what kind of token it is. Each clause finishes in
            # one of four ways:
            #
            #  raise BananaError: the protocol was violated so badly there is
            #                     nothing to do for it but hang up abruptly
            #
            #  return: if the token is not yet complete (need more data)
            #
            #  continue: if the token is complete but no object (for
            #            handleToken) was produced, e.g. OPEN, CLOSE, ABORT
            #
            #  obj=foo: the token is complete and an object was produced
            #
            # note that if rejected==True, the object is dropped instead of
            # being passed up to the current Unslicer

            if typebyte == OPEN:
                self.inboundOpenCount = header
                if rejected:
                    if self.debugReceive:
                        print("DROP (OPEN)")
                    if self.inOpen:
                        # we are discarding everything at the old level, so
                        # discard everything in the new level too
                        self.discardCount += 1
                        if self.debugReceive:
                            print("++discardCount (OPEN), now %d" \
                                  % self.discardCount)
                        self.inOpen = False
                    else:
                        # the checkToken handleViolation has already started
                        # discarding this new sequence, we don't have to
                        pass
                else:
                    self.inOpen = True
                    self.opentype = []
                continue

            elif typebyte == CLOSE:
                count = header
                if self.inOpen and not self.discardCount:
                    # the index tokens of the OPEN sequence that was just
                    # started have not arrived yet: this CLOSE cannot
                    # belong to it, and closing an enclosing sequence now
                    # would let its index phase continue one level up
                    raise BananaError("CLOSE token in the index phase of an OPEN sequence")
                if self.discardCount:
                    self.discardCount -= 1
                    if self.debugReceive:
                        print("--discardCount (CLOSE), now %d" \
                              % self.discardCount)
                else:
                    self.handleClose(count)
                continue

            elif typebyte == ABORT:
                count = header
                # TODO: this isn't really a Violation, but we need something
                # to describe it. It does behave identically to what happens
                # when receiveChild raises a Violation. The .handleViolation
                # will pop the now-useless Unslicer and start discarding
                # tokens just as if the Unslicer had made the decision.
                if rejected:
                    if self.debugReceive:
                        print("DROP (ABORT)")
                    # I'm ignoring you, LALALALALA.
                    #
                    # In particular, do not deliver a second Violation
                    # because of the ABORT that we're supposed to be
                    # ignoring because of a first Violation that happened
                    # earlier.
                    continue
                try:
                    # slightly silly way to do it, but nice and uniform
                    raise Violation("ABORT received")
                except Violation:
                    f = BananaFailure()
                    # an ABORT that arrives while the index tokens of an
                    # OPEN sequence are still pending abandons that
                    # sequence, like a token the opener rejects
                    self.handleViolation(f, "receive-abort",
                                         inOpen=self.inOpen)
                    self.inOpen = False
                continue

            elif typebyte == ERROR:
                strlen = header
                if len(self.buffer) >= strlen:
                    # the whole string is available
                    obj = self.buffer.popleft(strlen)
                    # handleError must drop the connection
                    self.handleError(obj)
                    # and whatever follows the ERROR token is ignored, no
                    # matter whether it arrived in the same packet or not
                    self.connectionAbandoned = True
                    return
                else:
                    self.buffer.appendleft(first65[:pos+1])
                    return # there is more to come

            elif typebyte == LIST:
                raise BananaError("oldbanana peer detected, " +
                                  "compatibility code not yet written")
                #listStack.append((header, []))

            elif typebyte == STRING:
                strlen = header
                if len(self.buffer) >= strlen:
                    # the whole string is available
                    obj = self.buffer.popleft(strlen)
                    # although it might be rejected
                else:
                    # there is more to come
                    if rejected:
                        # drop all we have and note how much more should be
                        # dropped
                        if self.debugReceive:
                            print("DROPPED some string bits")
                        self.skipBytes = strlen - len(self.buffer)
                        self.buffer.clear()
                    else:
                        self.buffer.appendleft(first65[:pos+1])
                    return

            elif typebyte == INT:
                obj = int(header)
            elif typebyte == NEG:
                # -2**31 is too large for a positive int, so go through
                # LongType first
                obj = int(-int(header))
            elif typebyte == LONGINT or typebyte == LONGNEG:
                strlen = header
                if len(self.buffer) >= strlen:
                    # the whole number is available
                    obj = bytes_to_long(self.buffer.popleft(strlen))
                    if typebyte == LONGNEG:
                        obj = -obj
                    # although it might be rejected
                else:
                    # there is more to come
                    if rejected:
                        # drop all we have and note how much more should be
                        # dropped
                        self.skipBytes = strlen - len(self.buffer)
                        self.buffer.clear()
                    else:
                        self.buffer.appendleft(first65[:pos+1])
                    return

            elif typebyte == VOCAB:
                obj = self.incomingVocabulary[header] # yieds bytes
                # TODO: bail if expanded string is too big
                # this actually means doing self.checkToken(VOCAB, len(obj))
                # but we have to make sure we handle the rejection properly

            elif typebyte == FLOAT:
                if len(self.buffer) >= 8:
                    obj = struct.unpack("!d", self.buffer.popleft(8))[0]
                else:
                    # there is more to come
                    if rejected:
                        # drop what we have and skip the rest of the body,
                        # as for STRING: the token must not be examined (and
                        # its rejection reported) again when more bytes
                        # arrive
                        self.skipBytes = 8 - len(self.buffer)
                        self.buffer.clear()
                    else:
                        self.buffer.appendleft(first65[:pos+1])
                    return

            elif typebyte == PING:
                self.sendPONG(header)
                continue # otherwise ignored

            elif typebyte == PONG:
                continue # otherwise ignored

            else:
                raise BananaError("Invalid Type Byte 0x%x" % six.byte2int(typebyte))

            if not rejected:
                if self.inOpen:
                    self.handleOpen(self.inboundOpenCount,
                                    self.inboundObjectCount,
                                    obj)
                    # handleOpen might push a new unslicer and clear
                    # .inOpen, or leave .inOpen true and append the object
                    # to .indexOpen
                else:
                    self.handleToken(obj)
            else:
                if self.debugReceive:
                    print("DROP", type(obj), obj)
                pass # drop the object

            # while loop ends here

        # note: this is redundant, as there are no 'break' statements in that
        # loop, and the loop exit condition is 'while len(self.buffer)'
        self.buffer.clear()


    def handleOpen(self, openCount, objectCount, indexToken):
        indexToken = six.ensure_str(indexToken)
        self.opentype.append(indexToken)
        opentype = tuple(self.opentype)
        if self.debugReceive:
            print("handleOpen(%d,%d,%s)" % (openCount, objectCount, indexToken))
        top = self.receiveStack[-1]
        try:
            # obtain a new Unslicer to handle the object
            child = top.doOpen(opentype)
            if not child:
                if self.debugReceive:
                    print(" doOpen wants more index tokens")
                return # they want more index tokens, leave .inOpen=True
            if self.debugReceive:
                print(" opened[%d] with %s" % (openCount, child))
        except Violation:
            # must discard the rest of the child object. There is no new
            # unslicer pushed yet, so we don't use abandonUnslicer
            self.inOpen = False
            f = BananaFailure()
            self.handleViolation(f, "doOpen", inOpen=True)
            return

        assert tokens.IUnslicer.providedBy(child), "child is %s" % child
        self.inOpen = False
        child.protocol = self
        child.openCount = openCount
        child.parent = top
        self.receiveStack.append(child)
        try:
            child.start(objectCount)
        except Violation:
            # the child is now on top, so use abandonUnslicer to discard the
            # rest of the child
            f = BananaFailure()
            # notifies the new child
            self.handleViolation(f, "start")

    def handleToken(self, token, ready_deferred=None):
        top = self.receiveStack[-1]
        if self.debugReceive: print("handleToken(%s)" % (token,))
        if ready_deferred:
            assert isinstance(ready_deferred, defer.Deferred)
        try:
            top.receiveChild(token, ready_deferred)
        except Violation:
            # this is how the child says "I've been contaminated". We don't
            # pop them automatically: if they want that, they should return
            # back the failure in their reportViolation method.
            f = BananaFailure()
            self.handleViolation(f, "receiveChild")

    def handleClose(self, closeCount):
        if self.debugReceive:
            print("handleClose(%d)" % closeCount)
        if self.receiveStack[-1].openCount != closeCount:
            raise BananaError("lost sync, got CLOSE(%d) but expecting %s" \
                              % (closeCount, self.receiveStack[-1].openCount))

        child = self.receiveStack[-1] # don't pop yet: describe() needs it

        try:
            obj, ready_deferred = child.receiveClose()
        except Violation:
            # the child is contaminated. However, they're finished, so we
            # don't have to discard anything. Just give an Failure to the
            # parent instead of the object they would have returned.
            f = BananaFailure()
            self.handleViolation(f, "receiveClose", inClose=True)
            return
        if self.debugReceive: print("receiveClose returned", obj)

        try:
            child.finish()
        except Violation:
            # .finish could raise a Violation if an object that references
            # the child is just now deciding that they don't like it
            # (perhaps their TupleConstraint couldn't be asserted until the
            # tuple was complete and referenceable). In this case, the child
            # has produced a valid object, but an earlier (incomplete)
            # object is not valid. So we treat this as if this child itself
            # raised the Violation. The .where attribute will point to this
            # child, which is the node that caused somebody problems, but
            # will be marked <FINISH>, which indicates that it wasn't the
            # child itself which raised the Violation. TODO: not true
            #
            # TODO: it would be more useful if the UF could also point to
            # the completing object (the one which raised Violation).

            f = BananaFailure()
            self.handleViolation(f, "finish", inClose=True)
            return

        self.receiveStack.pop()

        # now deliver the object to the parent
        self.handleToken(obj, ready_deferred)

    def handleViolation(self, f, methname, inOpen=False, inClose=False):
        """An Unslicer has decided to give up, or we have given up on it
        (because we received an ABORT token).
        """

        where = self.describeReceive()
        f.value.setLocation(where)

        if self.debugReceive:
            print(" handleViolation-%s (inOpen=%s, inClose=%s): %s" \
                  % (methname, inOpen, inClose, f))

        assert isinstance(f, BananaFailure)

        if self.logViolations:
            log.msg("Violation in %s at %s" % (methname, where))
            log.err(f)

        if inOpen:
            self.discardCount += 1
            if self.debugReceive:
                print("  ++discardCount (inOpen), now %d" % self.discardCount)

        while True:
            # tell the parent that their child is dead. This is useful for
            # things like PB, which may want to errback the current request.
            if self.debugReceive:
                print(" reportViolation to %s" % self.receiveStack[-1])
            f = self.receiveStack[-1].reportViolation(f)
            if not f:
                # they absorbed the failure
                if self.debugReceive:
                    print("  buck stopped, error absorbed")
                break

            # the old top wants to propagate it upwards
            if self.debugReceive:
                print("  popping %s" % self.receiveStack[-1])
            if not inClose:
                self.discardCount += 1
                if self.debugReceive:
                    print("  ++discardCount (pop, not inClose), now %d" \
                          % self.discardCount)
            inClose = False

            old = self.receiveStack.pop()

            try:
                # TODO: if handleClose encountered a Violation in .finish,
                # we will end up calling it a second time
                old.finish() # ??
            except Violation:
                pass # they've already failed once

            if not self.receiveStack:
                # now there's nobody left to create new Unslicers, so we
                # must drop the connection
                why = "Oh my god, you killed the RootUnslicer! " + \
                      "You bastard!!"
                raise BananaError(why)

            # now we loop until someone absorbs the failure


    def handleError(self, msg):
        log.msg("got banana ERROR from remote side: %s" % msg)
        self.transport.loseConnection()


    def describeReceive(self):
        where = []
        for i in self.receiveStack:
            try:
                piece = i.describe()
            except:
                piece = "???"
                #raise
            where.append(piece)
        return ".".join(where)

    def receivedObject(self, obj):
        """Decoded objects are delivered here, unless you use a RootUnslicer
        variant which does something else in its .childFinished method.
        """
        raise NotImplementedError

    def reportViolation(self, why):
        return why

