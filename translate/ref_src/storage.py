
"""
storage.py: support for using Banana as if it were pickle

This includes functions for serializing to and from strings, instead of a
network socket.

This functionality is isolated here because it is never used for data coming
over network connections.
"""

from io import BytesIO

from foolscap import banana
from twisted.internet.defer import Deferred
from foolscap.slicers.root import ScopedRootSlicer, ScopedRootUnslicer


# the root slicer for storage is exactly like the regular root slicer
class StorageRootSlicer(ScopedRootSlicer):
    pass

# the root unslicer for storage is just like the regular one, but hands
# received objects to the StorageBanana
class StorageRootUnslicer(ScopedRootUnslicer):
    def receiveChild(self, obj, ready_deferred):
        self.protocol.receiveChild(obj, ready_deferred)

class StorageBanana(banana.Banana):
    object = None
    violation = None
    disconnectReason = None
    slicerClass = StorageRootSlicer
    unslicerClass = StorageRootUnslicer

    def prepare(self):
        self.d = Deferred()
        return self.d

    def receiveChild(self, obj, ready_deferred):
        if ready_deferred:
            ready_deferred.addBoth(self.d.callback)
            self.d.addCallback(lambda res: obj)
        else:
            self.d.callback(obj)
        del self.d

    def receivedObject(self, obj):
        self.object = obj

    def sendError(self, msg):
        pass

    def reportViolation(self, why):
        self.violation = why

    def reportReceiveError(self, f):
        self.disconnectReason = f
        f.raiseException()

class SerializerTransport:
    def __init__(self, sio):
        self.sio = sio
    def write(self, data):
        self.sio.write(data)
    def loseConnection(self, why="ignored"):
        pass

def serialize(obj, outstream=None, root_class=StorageRootSlicer, banana=None):
    """Serialize an object graph into a sequence of bytes. Returns a Deferred
    that fires with the sequence of bytes."""
    if banana:
        b = banana
    else:
        b = StorageBanana()
        b.slicerClass = root_class
    if outstream is None:
        sio = BytesIO()
    else:
        sio = outstream
    b.transport = SerializerTransport(sio)
    b.connectionMade()
    d = b.send(obj)
    def _report_error(res):
        if b.disconnectReason:
            return b.disconnectReason
        if b.violation:
            return b.violation
        return res
    d.addCallback(_report_error)
    if outstream is None:
        d.addCallback(lambda res: sio.getvalue())
    else:
        d.addCallback(lambda res: outstream)
    return d

def unserialize(str_or_instream, banana=None, root_class=StorageRootUnslicer):
    """Unserialize a sequence of bytes back into an object graph."""
    if banana:
        b = banana
    else:
        b = StorageBanana()
        b.unslicerClass = root_class
    b.connectionMade()
    d = b.prepare() # this will fire with the unserialized object
    if isinstance(str_or_instream, bytes):
        b.dataReceived(str_or_instream)
    else:
        raise RuntimeError("input streams not implemented yet")
    def _report_error(res):
        if b.disconnectReason:
            return b.disconnectReason
        if b.violation:
            return b.violation
        return res # return the unserialized object
    d.addCallback(_report_error)
    return d

