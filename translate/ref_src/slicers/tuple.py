# -*- test-case-name: foolscap.test.test_banana -*-

from twisted.internet.defer import Deferred
from foolscap.tokens import Violation
from foolscap.slicer import BaseUnslicer
from foolscap.slicers.list import ListSlicer
from foolscap.constraint import OpenerConstraint, Any, IConstraint
from foolscap.util import AsyncAND


class TupleSlicer(ListSlicer):
    opentype = ("tuple",)
    slices = tuple

class TupleUnslicer(BaseUnslicer):
    opentype = ("tuple",)

    debug = False
    constraints = None

    def setConstraint(self, constraint):
        if isinstance(constraint, Any):
            return
        assert isinstance(constraint, TupleConstraint)
        self.constraints = constraint.constraints

    def start(self, count):
        self.list = []
        # indices of .list which are unfilled because of children that could
        # not yet be referenced
        self.num_unreferenceable_children = 0
        self.count = count
        if self.debug:
            print("%s[%d].start with %s" % (self, self.count, self.list))
        self.finished = False
        self.deferred = Deferred()
        self.protocol.setObject(count, self.deferred)
        self._ready_deferreds = []

    def checkToken(self, typebyte, size):
        if self.constraints == None:
            return
        if len(self.list) >= len(self.constraints):
            raise Violation("the tuple is full")
        self.constraints[len(self.list)].checkToken(typebyte, size)

    def doOpen(self, opentype):
        where = len(self.list)
        if self.constraints != None:
            if where >= len(self.constraints):
                raise Violation("the tuple is full")
            self.constraints[where].checkOpentype(opentype)
        unslicer = self.open(opentype)
        if unslicer:
            if self.constraints != None:
                unslicer.setConstraint(self.constraints[where])
        return unslicer

    def update(self, obj, index):
        if self.debug:
            print("%s[%d].update: [%d]=%s" % (self, self.count, index, obj))
        self.list[index] = obj
        self.num_unreferenceable_children -= 1
        if self.finished:
            self.checkComplete()
        return obj

    def receiveChild(self, obj, ready_deferred=None):
        if ready_deferred:
            self._ready_deferreds.append(ready_deferred)
        if isinstance(obj, Deferred):
            obj.addCallback(self.update, len(self.list))
            obj.addErrback(self.explode)
            self.num_unreferenceable_children += 1
            self.list.append("placeholder")
        else:
            self.list.append(obj)

    def checkComplete(self):
        if self.debug:
            print("%s[%d].checkComplete: %d pending" % \
                  (self, self.count, self.num_unreferenceable_children))
        if self.num_unreferenceable_children:
            # not finished yet, we'll fire our Deferred when we are
            if self.debug:
                print(" not finished yet")
            return

        # list is now complete. We can finish.
        return self.complete()

    def complete(self):
        ready_deferred = None
        if self._ready_deferreds:
            ready_deferred = AsyncAND(self._ready_deferreds)

        t = tuple(self.list)
        if self.debug:
            print(" finished! tuple:%s{%s}" % (t, id(t)))
        self.protocol.setObject(self.count, t)
        self.deferred.callback(t)
        return t, ready_deferred

    def receiveClose(self):
        if self.debug:
            print("%s[%d].receiveClose" % (self, self.count))
        self.finished = 1

        if self.num_unreferenceable_children:
            # not finished yet, we'll fire our Deferred when we are
            if self.debug:
                print(" not finished yet")
            ready_deferred = None
            if self._ready_deferreds:
                ready_deferred = AsyncAND(self._ready_deferreds)
            return self.deferred, ready_deferred

        # the list is already complete
        return self.complete()

    def describe(self):
        return "[%d]" % len(self.list)


class TupleConstraint(OpenerConstraint):
    opentypes = [("tuple",)]
    name = "TupleConstraint"

    def __init__(self, *elemConstraints):
        self.constraints = [IConstraint(e) for e in elemConstraints]
    def checkObject(self, obj, inbound):
        if not isinstance(obj, tuple):
            raise Violation("not a tuple")
        if len(obj) != len(self.constraints):
            raise Violation("wrong size tuple")
        for i in range(len(self.constraints)):
            self.constraints[i].checkObject(obj[i], inbound)
