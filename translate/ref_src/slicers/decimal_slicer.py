# -*- test-case-name: foolscap.test.test_banana -*-

import decimal
import six
from twisted.internet.defer import Deferred
from foolscap.tokens import BananaError, STRING, VOCAB
from foolscap.slicer import BaseSlicer, LeafUnslicer
from foolscap.constraint import Any

class DecimalSlicer(BaseSlicer):
    opentype = ("decimal",)
    slices = decimal.Decimal
    def sliceBody(self, streamable, banana):
        yield six.ensure_binary(str(self.obj))

class DecimalUnslicer(LeafUnslicer):
    opentype = ("decimal",)
    value = None
    constraint = None

    def setConstraint(self, constraint):
        if isinstance(constraint, Any):
            return
        assert False, "DecimalUnslicer does not currently accept a constraint"

    def checkToken(self, typebyte, size):
        if typebyte not in (STRING, VOCAB):
            raise BananaError("DecimalUnslicer only accepts strings")
        #if self.constraint:
        #    self.constraint.checkToken(typebyte, size)

    def receiveChild(self, obj, ready_deferred=None):
        assert not isinstance(obj, Deferred)
        assert ready_deferred is None
        if self.value != None:
            raise BananaError("already received a string")
        self.value = decimal.Decimal(six.ensure_str(obj))

    def receiveClose(self):
        return self.value, None
    def describe(self):
        return "<unicode>"
