# -*- test-case-name: foolscap.test.test_banana -*-

from twisted.python.components import registerAdapter
from twisted.internet.defer import Deferred
from foolscap import tokens
from foolscap.tokens import Violation, BananaError
from foolscap.slicer import BaseSlicer, LeafUnslicer
from foolscap.constraint import OpenerConstraint, IntegerConstraint, Any

class BooleanSlicer(BaseSlicer):
    opentype = ('boolean',)
    trackReferences = False
    def sliceBody(self, streamable, banana):
        if self.obj:
            yield 1
        else:
            yield 0
registerAdapter(BooleanSlicer, bool, tokens.ISlicer)

class BooleanUnslicer(LeafUnslicer):
    opentype = ('boolean',)

    value = None
    constraint = None

    def setConstraint(self, constraint):
        if isinstance(constraint, Any):
            return
        assert isinstance(constraint, BooleanConstraint)
        self.constraint = constraint

    def checkToken(self, typebyte, size):
        if typebyte != tokens.INT:
            raise BananaError("BooleanUnslicer only accepts an INT token")
        if self.value != None:
            raise BananaError("BooleanUnslicer only accepts one token")

    def receiveChild(self, obj, ready_deferred=None):
        assert not isinstance(obj, Deferred)
        assert ready_deferred is None
        assert type(obj) == int
        if self.constraint:
            if self.constraint.value != None:
                if bool(obj) != self.constraint.value:
                    raise Violation("This boolean can only be %s" % \
                                    self.constraint.value)
        self.value = bool(obj)

    def receiveClose(self):
        return self.value, None

    def describe(self):
        return "<bool>"

class BooleanConstraint(OpenerConstraint):
    strictTaster = True
    opentypes = [("boolean",)]
    _myint = IntegerConstraint()
    name = "BooleanConstraint"

    def __init__(self, value=None):
        # self.value is a joke. This allows you to use a schema of
        # BooleanConstraint(True) which only accepts 'True'. I cannot
        # imagine a possible use for this, but it made me laugh.
        self.value = value

    def checkObject(self, obj, inbound):
        if type(obj) != bool:
            raise Violation("not a bool")
        if self.value != None:
            if obj != self.value:
                raise Violation("not %s" % self.value)
