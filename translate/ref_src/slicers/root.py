# -*- test-case-name: foolscap.test.test_banana -*-

import six
from zope.interface import implementer
from twisted.internet.defer import Deferred
from foolscap import tokens
from foolscap.tokens import Violation, BananaError
from foolscap.slicer import BaseUnslicer, ReferenceSlicer
from foolscap.slicer import UnslicerRegistry, BananaUnslicerRegistry
from foolscap.slicers.vocab import ReplaceVocabularyTable, AddToVocabularyTable
from foolscap.util import ensure_tuple_str
from foolscap import copyable # does this create a cycle?
from twisted.python import log
from functools import reduce

@implementer(tokens.ISlicer, tokens.IRootSlicer)
class RootSlicer:
    streamableInGeneral = True
    producingDeferred = None
    objectSentDeferred = None
    slicerTable = {}
    debug = False

    def __init__(self, protocol):
        self.protocol = protocol
        self.sendQueue = []

    def allowStreaming(self, streamable):
        self.streamableInGeneral = streamable

    def registerRefID(self, refid, obj):
        pass

    def slicerForObject(self, obj):
        # could use a table here if you think it'd be faster than an
        # adapter lookup
        if self.debug: log.msg("slicerForObject(%s)" % type(obj))

        # do the adapter lookup first, so that registered adapters override
        # UnsafeSlicerTable's InstanceSlicer
        slicer = tokens.ISlicer(obj, None)
        if slicer:
            if self.debug: log.msg("got ISlicer %s" % slicer)
            return slicer

        # zope.interface doesn't do transitive adaptation, which is a shame
        # because we want to let people register ICopyable adapters for
        # third-party code, and there is an ICopyable->ISlicer adapter
        # defined in copyable.py, but z.i won't do the transitive
        #  ThirdPartyClass -> ICopyable -> ISlicer
        # so instead we manually do it here

        copier = copyable.ICopyable(obj, None)
        if copier:
            s = tokens.ISlicer(copier)
            return s

        slicerFactory = self.slicerTable.get(type(obj))
        if slicerFactory:
            if self.debug: log.msg(" got slicerFactory %s" % slicerFactory)
            return slicerFactory(obj)
        name = str(type(obj))
        if self.debug: log.msg("cannot serialize %s (%s)" % (obj, name))
        raise Violation("cannot serialize %s (%s)" % (obj, name))

    sliceAlreadyCalled = False
    def slice(self):
        # this may only be called once
        assert not self.sliceAlreadyCalled
        self.sliceAlreadyCalled = True
        return iter(self)

    def __iter__(self):
        return self

    def __next__(self):
        if self.objectSentDeferred:
            self.objectSentDeferred.callback(None)
            self.objectSentDeferred = None
        if self.sendQueue:
            (obj, self.objectSentDeferred) = self.sendQueue.pop(0)
            self.streamable = self.streamableInGeneral
            return obj
        if self.protocol.debugSend:
            print("LAST BAG")
        self.producingDeferred = Deferred()
        self.streamable = True
        return self.producingDeferred
    next = __next__

    def childAborted(self, f):
        assert self.objectSentDeferred
        self.objectSentDeferred.errback(f)
        self.objectSentDeferred = None
        return None

    def send(self, obj):
        # obj can also be a Slicer, say, a CallSlicer. We return a Deferred
        # which fires when the object has been fully serialized.
        idle = (len(self.protocol.slicerStack) == 1) and not self.sendQueue
        objectSentDeferred = Deferred()
        self.sendQueue.append((obj, objectSentDeferred))
        if idle:
            # wake up
            if self.protocol.debugSend:
                print(" waking up to send")
            if self.producingDeferred:
                d = self.producingDeferred
                self.producingDeferred = None
                # TODO: consider reactor.callLater(0, d.callback, None)
                # I'm not sure it's actually necessary, though
                d.callback(None)
        return objectSentDeferred

    def describe(self):
        return "<RootSlicer>"

    def connectionLost(self, why):
        # abandon everything we wanted to send
        if self.objectSentDeferred:
            self.objectSentDeferred.errback(why)
            self.objectSentDeferred = None
        for obj, d in self.sendQueue:
            d.errback(why)
        self.sendQueue = []

class ScopedRootSlicer(RootSlicer):
    # this combines RootSlicer with foolscap.slicer.ScopedSlicer . The funny
    # self-delegation of slicerForObject() means we can't just inherit from
    # both. It would be nice to refactor everything to make this cleaner.

    def __init__(self, obj):
        RootSlicer.__init__(self, obj)
        self.references = {} # maps id(obj) -> (obj,refid)

    def registerRefID(self, refid, obj):
        self.references[id(obj)] = (obj,refid)

    def slicerForObject(self, obj):
        # check for an object which was sent previously or has at least
        # started sending
        obj_refid = self.references.get(id(obj), None)
        if obj_refid is not None:
            # we've started to send this object already, so just include a
            # reference to it
            return ReferenceSlicer(obj_refid[1])
        # otherwise go upstream so we can serialize the object completely
        return RootSlicer.slicerForObject(self, obj)



class RootUnslicer(BaseUnslicer):
    # topRegistries is used for top-level objects
    topRegistries = [UnslicerRegistry, BananaUnslicerRegistry]
    # openRegistries is used for everything at lower levels
    openRegistries = [UnslicerRegistry]
    constraint = None
    openCount = None

    def __init__(self, protocol):
        self.protocol = protocol
        self.objects = {}
        keys = []
        for r in self.topRegistries + self.openRegistries:
            for k in list(r.keys()):
                keys.append(len(k[0]))
        self.maxIndexLength = reduce(max, keys)

    def start(self, count):
        pass

    def setConstraint(self, constraint):
        # this constraints top-level objects. E.g., if this is an
        # IntegerConstraint, then only integers will be accepted.
        self.constraint = constraint

    def checkToken(self, typebyte, size):
        if self.constraint:
            self.constraint.checkToken(typebyte, size)

    def openerCheckToken(self, typebyte, size, opentype):
        if typebyte == tokens.STRING:
            limit = self.maxIndexLength
            if tuple(opentype) == ("copyable",):
                # the second index token of an OPEN copyable is the class
                # name: bounded by the longest registered name, not by the
                # longest opentype
                for cname in list(copyable.CopyableRegistry.keys()):
                    limit = max(limit, len(cname))
            if size > limit:
                why = "STRING token is too long, %d>%d" % (size, limit)
                raise Violation(why)
        elif typebyte == tokens.VOCAB:
            return
        else:
            # TODO: hack for testing
            raise Violation("index token 0x%02x not STRING or VOCAB" % \
                              six.byte2int(typebyte))
            raise BananaError("index token 0x%02x not STRING or VOCAB" % \
                              six.byte2int(typebyte))

    def open(self, opentype):
        # called (by delegation) by the top Unslicer on the stack, regardless
        # of what kind of unslicer it is. This is only used for "internal"
        # objects: non-top-level nodes
        assert len(self.protocol.receiveStack) > 1
        opentype = ensure_tuple_str(opentype)

        if opentype[0] == 'copyable':
            if len(opentype) > 1:
                copyablename = opentype[1]
                try:
                    factory = copyable.CopyableRegistry[copyablename]
                except KeyError:
                    raise Violation("unknown RemoteCopy name '%s'" \
                                    % copyablename)
                child = factory()
                return child
            return None # still waiting for copyablename

        for reg in self.openRegistries:
            opener = reg.get(opentype)
            if opener is not None:
                child = opener()
                return child

        raise Violation("unknown OPEN type %s" % (opentype,))

    def doOpen(self, opentype):
        # this is only called for top-level objects
        assert len(self.protocol.receiveStack) == 1
        opentype = ensure_tuple_str(opentype)
        if self.constraint:
            self.constraint.checkOpentype(opentype)
        for reg in self.topRegistries:
            opener = reg.get(opentype)
            if opener is not None:
                child = opener()
                break
        else:
            raise Violation("unknown top-level OPEN type %s" % (opentype,))

        if self.constraint:
            child.setConstraint(self.constraint)
        return child

    def receiveChild(self, obj, ready_deferred=None):
        assert not isinstance(obj, Deferred)
        assert ready_deferred is None
        if self.protocol.debugReceive:
            print("RootUnslicer.receiveChild(%s)" % (obj,))
        self.objects = {}
        if obj in (ReplaceVocabularyTable, AddToVocabularyTable):
            # the unslicer has already changed the vocab table
            return
        if self.protocol.exploded:
            print("protocol exploded, can't deliver object")
            print(self.protocol.exploded)
            self.protocol.receivedObject(self.protocol.exploded)
            return
        self.protocol.receivedObject(obj) # give finished object to Banana

    def receiveClose(self):
        raise BananaError("top-level should never receive CLOSE tokens")

    def reportViolation(self, why):
        return self.protocol.reportViolation(why)

    def describe(self):
        return "<RootUnslicer>"

    def setObject(self, counter, obj):
        pass

    def getObject(self, counter):
        return None

class ScopedRootUnslicer(RootUnslicer):
    # combines RootUnslicer and ScopedUnslicer

    def __init__(self, protocol):
        RootUnslicer.__init__(self, protocol)
        self.references = {}

    def setObject(self, counter, obj):
        self.references[counter] = obj

    def getObject(self, counter):
        obj = self.references.get(counter)
        return obj
