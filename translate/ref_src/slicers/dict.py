# -*- test-case-name: foolscap.test.test_banana -*-

from twisted.python import log
from twisted.internet.defer import Deferred
from foolscap.tokens import Violation, BananaError
from foolscap.slicer import BaseSlicer, BaseUnslicer
from foolscap.constraint import OpenerConstraint, Any, IConstraint
from foolscap.util import AsyncAND

class DictSlicer(BaseSlicer):
    opentype = ('dict',)
    trackReferences = True
    slices = None
    def sliceBody(self, streamable, banana):
        for key,value in list(self.obj.items()):
            yield key
            yield value

class DictUnslicer(BaseUnslicer):
    opentype = ('dict',)

    gettingKey = True
    keyConstraint = None
    valueConstraint = None
    maxKeys = None

    def setConstraint(self, constraint):
        if isinstance(constraint, Any):
            return
        assert isinstance(constraint, DictConstraint)
        self.keyConstraint = constraint.keyConstraint
        self.valueConstraint = constraint.valueConstraint
        self.maxKeys = constraint.maxKeys

    def start(self, count):
        self.d = {}
        self.protocol.setObject(count, self.d)
        self.key = None
        self._ready_deferreds = []

    def checkToken(self, typebyte, size):
        if self.maxKeys != None:
            if len(self.d) >= self.maxKeys:
                raise Violation("the dict is full")
        if self.gettingKey:
            if self.keyConstraint:
                self.keyConstraint.checkToken(typebyte, size)
        else:
            if self.valueConstraint:
                self.valueConstraint.checkToken(typebyte, size)

    def doOpen(self, opentype):
        if self.maxKeys != None:
            if len(self.d) >= self.maxKeys:
                raise Violation("the dict is full")
        if self.gettingKey:
            if self.keyConstraint:
                self.keyConstraint.checkOpentype(opentype)
        else:
            if self.valueConstraint:
                self.valueConstraint.checkOpentype(opentype)
        unslicer = self.open(opentype)
        if unslicer:
            if self.gettingKey:
                if self.keyConstraint:
                    unslicer.setConstraint(self.keyConstraint)
            else:
                if self.valueConstraint:
                    unslicer.setConstraint(self.valueConstraint)
        return unslicer

    def update(self, value, key):
        # this is run as a Deferred callback, hence the backwards arguments
        self.d[key] = value
        # pass the object on to the callbacks of later references to it
        return value

    def receiveChild(self, obj, ready_deferred=None):
        if ready_deferred:
            self._ready_deferreds.append(ready_deferred)
        if self.gettingKey:
            self.receiveKey(obj)
        else:
            self.receiveValue(obj)
        self.gettingKey = not self.gettingKey

    def receiveKey(self, key):
        # I don't think it is legal (in python) to use an incomplete object
        # as a dictionary key, because you must have all the contents to
        # hash it. Someone could fake up a token stream to hit this case,
        # however: OPEN(dict), OPEN(tuple), OPEN(reference), 0, CLOSE, CLOSE,
        # "value", CLOSE
        if isinstance(key, Deferred):
            raise BananaError("incomplete object as dictionary key")
        try:
            if key in self.d:
                raise BananaError("duplicate key '%s'" % key)
        except TypeError:
            raise BananaError("unhashable key '%s'" % key)
        self.key = key

    def receiveValue(self, value):
        if isinstance(value, Deferred):
            value.addCallback(self.update, self.key)
            value.addErrback(log.err)
        self.d[self.key] = value # placeholder

    def receiveClose(self):
        ready_deferred = None
        if self._ready_deferreds:
            ready_deferred = AsyncAND(self._ready_deferreds)
        return self.d, ready_deferred

    def describe(self):
        if self.gettingKey:
            return "{}"
        else:
            return "{}[%s]" % self.key


class OrderedDictSlicer(DictSlicer):
    slices = dict
    def sliceBody(self, streamable, banana):
        keys = list(self.obj.keys())
        try:
            keys.sort()
        except (TypeError, ArithmeticError):
            # keys of mixed types (e.g. int and str) cannot be ordered on
            # python3, and neither can e.g. Decimal('NaN') (comparison
            # raises decimal.InvalidOperation): send them in the dict's own
            # order
            pass
        for key in keys:
            value = self.obj[key]
            yield key
            yield value


class DictConstraint(OpenerConstraint):
    opentypes = [("dict",)]
    name = "DictConstraint"

    def __init__(self, keyConstraint, valueConstraint, maxKeys=None):
        self.keyConstraint = IConstraint(keyConstraint)
        self.valueConstraint = IConstraint(valueConstraint)
        self.maxKeys = maxKeys
    def checkObject(self, obj, inbound):
        if not isinstance(obj, dict):
            raise Violation("'%s' (%s) is not a Dictionary" % (obj, type(obj)))
        if self.maxKeys != None and len(obj) > self.maxKeys:
            raise Violation("Dict keys=%d > maxKeys=%d" % (len(obj), self.maxKeys))
        for key, value in obj.items():
            self.keyConstraint.checkObject(key, inbound)
            self.valueConstraint.checkObject(value, inbound)
