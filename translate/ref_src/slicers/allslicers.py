
######################## Slicers+Unslicers

# note that Slicing is always easier than Unslicing, because Unslicing
# is the side where you are dealing with the danger

from foolscap.slicers.none import NoneSlicer, NoneUnslicer
from foolscap.slicers.bool import BooleanSlicer, BooleanUnslicer
from foolscap.slicers.unicode import UnicodeSlicer, UnicodeUnslicer
from foolscap.slicers.decimal_slicer import DecimalSlicer, DecimalUnslicer
from foolscap.slicers.list import ListSlicer, ListUnslicer
from foolscap.slicers.tuple import TupleSlicer, TupleUnslicer
from foolscap.slicers.set import SetSlicer, SetUnslicer
from foolscap.slicers.set import FrozenSetSlicer, FrozenSetUnslicer
#from foolscap.slicers.set import BuiltinSetSlicer
from foolscap.slicers.dict import DictSlicer, DictUnslicer, OrderedDictSlicer
from foolscap.slicers.vocab import ReplaceVocabSlicer, ReplaceVocabUnslicer
from foolscap.slicers.vocab import ReplaceVocabularyTable, AddToVocabularyTable
from foolscap.slicers.vocab import AddVocabSlicer, AddVocabUnslicer
from foolscap.slicers.root import RootSlicer, RootUnslicer

# appease pyflakes
unused = [
    NoneSlicer, NoneUnslicer,
    BooleanSlicer, BooleanUnslicer,
    UnicodeSlicer, UnicodeUnslicer,
    DecimalSlicer, DecimalUnslicer,
    ListSlicer, ListUnslicer,
    TupleSlicer, TupleUnslicer,
    SetSlicer, SetUnslicer,
    FrozenSetSlicer, FrozenSetUnslicer,
    #from foolscap.slicers.set import BuiltinSetSlicer
    DictSlicer, DictUnslicer, OrderedDictSlicer,
    ReplaceVocabSlicer, ReplaceVocabUnslicer,
    ReplaceVocabularyTable, AddToVocabularyTable,
    AddVocabSlicer, AddVocabUnslicer,
    RootSlicer, RootUnslicer,
    ]
