# -*- test-case-name: foolscap.test.test_banana -*-

from foolscap.tokens import Violation, BananaError
from foolscap.slicer import BaseSlicer, LeafUnslicer
from foolscap.constraint import OpenerConstraint


class NoneSlicer(BaseSlicer):
    opentype = ('none',)
    trackReferences = False
    slices = type(None)
    def sliceBody(self, streamable, banana):
        # hmm, we need an empty generator. I think a sequence is the only way
        # to accomplish this, other than 'if 0: yield' or something silly
        return []

class NoneUnslicer(LeafUnslicer):
    opentype = ('none',)

    def checkToken(self, typebyte, size):
        raise BananaError("NoneUnslicer does not accept any tokens")
    def receiveClose(self):
        return None, None


class Nothing(OpenerConstraint):
    """Accept only 'None'."""
    strictTaster = True
    opentypes = [("none",)]
    name = "Nothing"

    def checkObject(self, obj, inbound):
        if obj is not None:
            raise Violation("'%s' is not None" % (obj,))
