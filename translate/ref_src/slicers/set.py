# -*- test-case-name: foolscap.test.test_banana -*-

from twisted.internet import defer
from twisted.python import log
from foolscap.slicers.list import ListSlicer
from foolscap.slicers.tuple import TupleUnslicer
from foolscap.slicer import BaseUnslicer
from foolscap.tokens import Violation
from foolscap.constraint import OpenerConstraint, Any, IConstraint
from foolscap.util import AsyncAND

class SetSlicer(ListSlicer):
    opentype = ("set",)
    trackReferences = True
    slices = set

    def sliceBody(self, streamable, banana):
        for i in self.obj:
            yield i

class FrozenSetSlicer(SetSlicer):
    opentype = ("immutable-set",)
    trackReferences = False
    slices = frozenset


class _Placeholder:
    pass

class SetUnslicer(BaseUnslicer):
    # this is a lot like a list, but sufficiently different to make it not
    # worth subclassing
    opentype = ("set",)

    debug = False
    maxLength = None
    itemConstraint = None

    def setConstraint(self, constraint):
        if isinstance(constraint, Any):
            return
        assert isinstance(constraint, SetConstraint)
        self.maxLength = constraint.maxLength
        self.itemConstraint = constraint.constraint

    def start(self, count):
        #self.opener = foo # could replace it if we wanted to
        self.set = set()
        self.count = count
        if self.debug:
            log.msg("%s[%d].start with %s" % (self, self.count, self.set))
        self.protocol.setObject(count, self.set)
        self._ready_deferreds = []

    def checkToken(self, typebyte, size):
        if self.maxLength != None and len(self.set) >= self.maxLength:
            # list is full, no more tokens accepted
            # this is hit if the max+1 item is a primitive type
            raise Violation("the set is full")
        if self.itemConstraint:
            self.itemConstraint.checkToken(typebyte, size)

    def doOpen(self, opentype):
        # decide whether the given object type is acceptable here. Raise a
        # Violation exception if not, otherwise give it to our opener (which
        # will normally be the RootUnslicer). Apply a constraint to the new
        # unslicer.
        if self.maxLength != None and len(self.set) >= self.maxLength:
            # this is hit if the max+1 item is a non-primitive type
            raise Violation("the set is full")
        if self.itemConstraint:
            self.itemConstraint.checkOpentype(opentype)
        unslicer = self.open(opentype)
        if unslicer:
            if self.itemConstraint:
                unslicer.setConstraint(self.itemConstraint)
        return unslicer

    def update(self, obj, placeholder):
        # obj has already passed typechecking
        if self.debug:
            log.msg("%s[%d].update: [%s]=%s" % (self, self.count,
                                                placeholder, obj))
        self.set.remove(placeholder)
        self.set.add(obj)
        return obj

    def receiveChild(self, obj, ready_deferred=None):
        if ready_deferred:
            self._ready_deferreds.append(ready_deferred)
        if self.debug:
            log.msg("%s[%d].receiveChild(%s)" % (self, self.count, obj))
        # obj could be a primitive type, a Deferred, or a complex type like
        # those returned from an InstanceUnslicer. However, the individual
        # object has already been through the schema validation process. The
        # only remaining question is whether the larger schema will accept
        # it.
        if self.maxLength != None and len(self.set) >= self.maxLength:
            # this is redundant
            # (if it were a non-primitive one, it would be caught in doOpen)
            # (if it were a primitive one, it would be caught in checkToken)
            raise Violation("the set is full")
        if isinstance(obj, defer.Deferred):
            if self.debug:
                log.msg(" adding my update[%d] to %s" % (len(self.set), obj))
            # note: the placeholder isn't strictly necessary, but it will
            # help debugging to see a _Placeholder sitting in the set when it
            # shouldn't rather than seeing a set that is smaller than it
            # ought to be. If a remote method ever sees a _Placeholder, then
            # something inside Foolscap has broken.
            placeholder = _Placeholder()
            obj.addCallback(self.update, placeholder)
            obj.addErrback(self.printErr)
            self.set.add(placeholder)
        else:
            self.set.add(obj)

    def printErr(self, why):
        print("ERR!")
        print(why.getBriefTraceback())
        log.err(why)

    def receiveClose(self):
        ready_deferred = None
        if self._ready_deferreds:
            ready_deferred = AsyncAND(self._ready_deferreds)
        return self.set, ready_deferred

class FrozenSetUnslicer(TupleUnslicer):
    opentype = ("immutable-set",)

    # frozensets are governed by a SetConstraint (not the TupleConstraint
    # that TupleUnslicer expects)
    maxLength = None
    itemConstraint = None

    def setConstraint(self, constraint):
        if isinstance(constraint, Any):
            return
        assert isinstance(constraint, SetConstraint)
        self.maxLength = constraint.maxLength
        self.itemConstraint = constraint.constraint

    def checkToken(self, typebyte, size):
        if self.maxLength != None and len(self.list) >= self.maxLength:
            raise Violation("the set is full")
        if self.itemConstraint:
            self.itemConstraint.checkToken(typebyte, size)

    def doOpen(self, opentype):
        if self.maxLength != None and len(self.list) >= self.maxLength:
            raise Violation("the set is full")
        if self.itemConstraint:
            self.itemConstraint.checkOpentype(opentype)
        unslicer = self.open(opentype)
        if unslicer:
            if self.itemConstraint:
                unslicer.setConstraint(self.itemConstraint)
        return unslicer

    def receiveClose(self):
        obj_or_deferred, ready_deferred = TupleUnslicer.receiveClose(self)
        if isinstance(obj_or_deferred, defer.Deferred):
            def _convert(the_tuple):
                return frozenset(the_tuple)
            obj_or_deferred.addCallback(_convert)
        else:
            obj_or_deferred = frozenset(obj_or_deferred)
        return obj_or_deferred, ready_deferred


class SetConstraint(OpenerConstraint):
    """The object must be a Set of some sort, with a given maximum size. To
    accept sets of any size, use maxLength=None. All member objects must obey
    the given constraint. By default this will accept both mutable and
    immutable sets, if you want to require a particular type, set mutable= to
    either True or False.
    """

    # TODO: if mutable!=None, we won't throw out the wrong set type soon
    # enough. We need to override checkOpenType to accomplish this.
    opentypes = [("set",), ("immutable-set",)]
    name = "SetConstraint"

    def __init__(self, constraint, maxLength=None, mutable=None):
        self.constraint = IConstraint(constraint)
        self.maxLength = maxLength
        self.mutable = mutable

    def checkObject(self, obj, inbound):
        if not isinstance(obj, (set, frozenset)):
            raise Violation("not a set")
        if (self.mutable == True and
            not isinstance(obj, set)):
            raise Violation("obj is a set, but not a mutable one")
        if (self.mutable == False and
            not isinstance(obj, frozenset)):
            raise Violation("obj is a set, but not an immutable one")
        if self.maxLength is not None and len(obj) > self.maxLength:
            raise Violation("set is too large")
        if self.constraint:
            for o in obj:
                self.constraint.checkObject(o, inbound)
