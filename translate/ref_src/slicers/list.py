# -*- test-case-name: foolscap.test.test_banana -*-

from twisted.python import log
from twisted.internet.defer import Deferred
from foolscap.tokens import Violation
from foolscap.slicer import BaseSlicer, BaseUnslicer
from foolscap.constraint import OpenerConstraint, Any, IConstraint
from foolscap.util import AsyncAND


class ListSlicer(BaseSlicer):
    opentype = ("list",)
    trackReferences = True
    slices = list

    def sliceBody(self, streamable, banana):
        for i in self.obj:
            yield i

class ListUnslicer(BaseUnslicer):
    opentype = ("list",)

    maxLength = None
    itemConstraint = None
    debug = False

    def setConstraint(self, constraint):
        if isinstance(constraint, Any):
            return
        assert isinstance(constraint, ListConstraint)
        self.maxLength = constraint.maxLength
        self.itemConstraint = constraint.constraint

    def start(self, count):
        #self.opener = foo # could replace it if we wanted to
        self.list = []
        self.count = count
        if self.debug:
            log.msg("%s[%d].start with %s" % (self, self.count, self.list))
        self.protocol.setObject(count, self.list)
        self._ready_deferreds = []

    def checkToken(self, typebyte, size):
        if self.maxLength != None and len(self.list) >= self.maxLength:
            # list is full, no more tokens accepted
            # this is hit if the max+1 item is a primitive type
            raise Violation("the list is full")
        if self.itemConstraint:
            self.itemConstraint.checkToken(typebyte, size)

    def doOpen(self, opentype):
        # decide whether the given object type is acceptable here. Raise a
        # Violation exception if not, otherwise give it to our opener (which
        # will normally be the RootUnslicer). Apply a constraint to the new
        # unslicer.
        if self.maxLength != None and len(self.list) >= self.maxLength:
            # this is hit if the max+1 item is a non-primitive type
            raise Violation("the list is full")
        if self.itemConstraint:
            self.itemConstraint.checkOpentype(opentype)
        unslicer = self.open(opentype)
        if unslicer:
            if self.itemConstraint:
                unslicer.setConstraint(self.itemConstraint)
        return unslicer

    def update(self, obj, index):
        # obj has already passed typechecking
        if self.debug:
            log.msg("%s[%d].update: [%d]=%s" % (self, self.count, index, obj))
        assert isinstance(index, int)
        self.list[index] = obj
        return obj

    def receiveChild(self, obj, ready_deferred=None):
        if ready_deferred:
            self._ready_deferreds.append(ready_deferred)
        if self.debug:
            log.msg("%s[%d].receiveChild(%s)" % (self, self.count, obj))
        # obj could be a primitive type, a Deferred, or a complex type like
        # those returned from an InstanceUnslicer. However, the individual
        # object has already been through the schema validation process. The
        # only remaining question is whether the larger schema will accept
        # it.
        if self.maxLength != None and len(self.list) >= self.maxLength:
            # this is redundant
            # (if it were a non-primitive one, it would be caught in doOpen)
            # (if it were a primitive one, it would be caught in checkToken)
            raise Violation("the list is full")
        if isinstance(obj, Deferred):
            if self.debug:
                log.msg(" adding my update[%d] to %s" % (len(self.list), obj))
            obj.addCallback(self.update, len(self.list))
            obj.addErrback(self.printErr)
            placeholder = "list placeholder for arg[%d], rd=%s" % \
                          (len(self.list), ready_deferred)
            self.list.append(placeholder)
        else:
            self.list.append(obj)

    def printErr(self, why):
        print("ERR!")
        print(why.getBriefTraceback())
        log.err(why)

    def receiveClose(self):
        ready_deferred = None
        if self._ready_deferreds:
            ready_deferred = AsyncAND(self._ready_deferreds)
        return self.list, ready_deferred

    def describe(self):
        return "[%d]" % len(self.list)


class ListConstraint(OpenerConstraint):
    """The object must be a list of objects, with a given maximum length. To
    accept lists of any length, use maxLength=None. All member objects must
    obey the given constraint."""

    opentypes = [("list",)]
    name = "ListConstraint"

    def __init__(self, constraint, maxLength=None, minLength=0):
        self.constraint = IConstraint(constraint)
        self.maxLength = maxLength
        self.minLength = minLength

    def checkObject(self, obj, inbound):
        if not isinstance(obj, list):
            raise Violation("not a list")
        if self.maxLength is not None and len(obj) > self.maxLength:
            raise Violation("list too long")
        if len(obj) < self.minLength:
            raise Violation("list too short")
        for o in obj:
            self.constraint.checkObject(o, inbound)
