# -*- test-case-name: foolscap.test.test_banana -*-

import re
from twisted.internet.defer import Deferred
from foolscap.tokens import BananaError, STRING, VOCAB, Violation
from foolscap.slicer import BaseSlicer, LeafUnslicer
from foolscap.constraint import OpenerConstraint, Any

class UnicodeSlicer(BaseSlicer):
    opentype = ("unicode",)
    slices = str
    def sliceBody(self, streamable, banana):
        try:
            encoded = self.obj.encode("UTF-8")
        except UnicodeEncodeError:
            # e.g. a lone surrogate: this text has no UTF-8 form. Fail just
            # this object (ABORT) instead of dropping the whole connection.
            raise Violation("cannot serialize text which is not valid "
                            "unicode: %r" % (self.obj,))
        yield encoded

class UnicodeUnslicer(LeafUnslicer):
    # accept a UTF-8 encoded string
    opentype = ("unicode",)
    string = None
    constraint = None

    def setConstraint(self, constraint):
        if isinstance(constraint, Any):
            return
        assert isinstance(constraint, UnicodeConstraint)
        self.constraint = constraint

    def checkToken(self, typebyte, size):
        if typebyte not in (STRING, VOCAB):
            raise BananaError("UnicodeUnslicer only accepts strings")
        if (typebyte == STRING and self.constraint is not None
            and self.constraint.maxLength is not None
            and size > 6*self.constraint.maxLength):
            # a character takes at most 6 bytes (see UnicodeConstraint), so
            # this body cannot satisfy the constraint: refuse it now rather
            # than buffering all of it first
            raise Violation("unicode body too long (%d > 6*%d)" %
                            (size, self.constraint.maxLength))

    def receiveChild(self, obj, ready_deferred=None):
        assert not isinstance(obj, Deferred)
        assert ready_deferred is None
        if self.string != None:
            raise BananaError("already received a string")
        try:
            self.string = obj.decode("UTF-8")
        except UnicodeDecodeError:
            raise Violation("the body of a unicode sequence is not UTF-8")

    def receiveClose(self):
        return self.string, None
    def describe(self):
        return "<unicode>"

class UnicodeConstraint(OpenerConstraint):
    """The object must be a unicode object. The maxLength and minLength
    parameters restrict the number of characters (code points, *not* bytes)
    that may be present in the object, which means that the on-wire (UTF-8)
    representation may take up to 6 times as many bytes as characters.
    """

    strictTaster = True
    opentypes = [("unicode",)]
    name = "UnicodeConstraint"

    def __init__(self, maxLength=None, minLength=0, regexp=None):
        self.maxLength = maxLength
        self.minLength = minLength
        # allow VOCAB in case the Banana-level tokenizer decides to tokenize
        # the UTF-8 encoded body of a unicode object, since this is just as
        # likely as tokenizing regular bytestrings. TODO: this is disabled
        # because it doesn't currently work.. once I remember how Constraints
        # work, I'll fix this. The current version is too permissive of
        # tokens.
        #self.taster = {STRING: 6*self.maxLength,
        #               VOCAB: None}
        # regexp can either be a string or a compiled SRE_Match object..
        # re.compile appears to notice SRE_Match objects and pass them
        # through unchanged.
        self.regexp = None
        if regexp:
            self.regexp = re.compile(regexp)

    def checkObject(self, obj, inbound):
        if not isinstance(obj, str):
            raise Violation("not a unicode object")
        if self.maxLength != None and len(obj) > self.maxLength:
            raise Violation("string too long (%d > %d)" %
                            (len(obj), self.maxLength))
        if len(obj) < self.minLength:
            raise Violation("string too short (%d < %d)" %
                            (len(obj), self.minLength))
        if self.regexp:
            if not self.regexp.search(obj):
                raise Violation("regexp failed to match")
