# -*- test-case-name: foolscap.test.test_banana -*-

import six
from twisted.internet.defer import Deferred
from foolscap.constraint import Any, ByteStringConstraint
from foolscap.tokens import Violation, BananaError, INT, STRING
from foolscap.slicer import BaseSlicer, BaseUnslicer, LeafUnslicer
from foolscap.slicer import BananaUnslicerRegistry

class ReplaceVocabularyTable:
    pass

class AddToVocabularyTable:
    pass

class ReplaceVocabSlicer(BaseSlicer):
    # this works somewhat like a dictionary
    opentype = ('set-vocab',)
    trackReferences = False

    def slice(self, streamable, banana):
        # we need to implement slice() (instead of merely sliceBody) so we
        # can get control at the beginning and end of serialization. It also
        # gives us access to the Banana protocol object, so we can manipulate
        # their outgoingVocabulary table.
        self.streamable = streamable
        self.start(banana)
        for o in self.opentype:
            yield six.ensure_binary(o)
        # the vocabDict maps strings to index numbers. The far end needs the
        # opposite mapping, from index numbers to strings. We perform the
        # flip here at the sending end.
        stringToIndex = self.obj
        for s in stringToIndex.keys():
            assert isinstance(s, bytes), "%r %s" % (s, type(s))
        indexToString = dict([(stringToIndex[s],s) for s in stringToIndex])
        assert len(stringToIndex) == len(indexToString) # catch duplicates
        indices = list(indexToString.keys())
        indices.sort()
        for index in indices:
            string = indexToString[index]
            yield index
            yield six.ensure_binary(string)
        self.finish(banana)

    def start(self, banana):
        # this marks the transition point between the old vocabulary dict and
        # the new one, so now is the time we should empty the dict.
        banana.outgoingVocabTableWasReplaced({})

    def finish(self, banana):
        # now we replace the vocab dict
        banana.outgoingVocabTableWasReplaced(self.obj)

class ReplaceVocabUnslicer(LeafUnslicer):
    """Much like DictUnslicer, but keys must be numbers, and values must be
    strings. This is used to set the entire vocab table at once. To add
    individual tokens, use AddVocabUnslicer by sending an (add-vocab num
    string) sequence."""
    opentype = ('set-vocab',)
    unslicerRegistry = BananaUnslicerRegistry
    maxKeys = None
    valueConstraint = ByteStringConstraint(100)

    def setConstraint(self, constraint):
        if isinstance(constraint, Any):
            return
        assert isinstance(constraint, ByteStringConstraint)
        self.valueConstraint = constraint

    def start(self, count):
        self.d = {}
        self.key = None

    def checkToken(self, typebyte, size):
        if self.maxKeys is not None and len(self.d) >= self.maxKeys:
            raise Violation("the table is full")
        if self.key is None:
            if typebyte != INT:
                raise BananaError("VocabUnslicer only accepts INT keys")
        else:
            if typebyte != STRING:
                raise BananaError("VocabUnslicer only accepts STRING values")
            if self.valueConstraint:
                self.valueConstraint.checkToken(typebyte, size)

    def receiveChild(self, token, ready_deferred=None):
        assert not isinstance(token, Deferred)
        assert ready_deferred is None
        if self.key is None:
            if token in self.d:
                raise BananaError("duplicate key '%s'" % token)
            self.key = token
        else:
            self.d[self.key] = token
            self.key = None

    def receiveClose(self):
        if self.key is not None:
            raise BananaError("sequence ended early: got key but not value")
        # now is the time we replace our protocol's vocab table
        self.protocol.replaceIncomingVocabulary(self.d)
        return ReplaceVocabularyTable, None

    def describe(self):
        if self.key is not None:
            return "<vocabdict>[%s]" % self.key
        else:
            return "<vocabdict>"


class AddVocabSlicer(BaseSlicer):
    opentype = ('add-vocab',)
    trackReferences = False

    def __init__(self, value):
        assert isinstance(value, str)
        self.value = value

    def slice(self, streamable, banana):
        # we need to implement slice() (instead of merely sliceBody) so we
        # can get control at the beginning and end of serialization. It also
        # gives us access to the Banana protocol object, so we can manipulate
        # their outgoingVocabulary table.
        self.streamable = streamable
        self.start(banana)
        for o in self.opentype:
            yield six.ensure_binary(o)
        yield self.index
        yield self.value
        self.finish(banana)

    def start(self, banana):
        # this marks the transition point between the old vocabulary dict and
        # the new one, so now is the time we should decide upon the key. It
        # is important that we *do not* add it to the dict yet, otherwise
        # we'll send (add-vocab NN [VOCAB#NN]), which is kind of pointless.
        index = banana.allocateEntryInOutgoingVocabTable(self.value)
        self.index = index

    def finish(self, banana):
        banana.outgoingVocabTableWasAmended(self.index, self.value)

class AddVocabUnslicer(BaseUnslicer):
    # (add-vocab num string): self.vocab[num] = string
    opentype = ('add-vocab',)
    unslicerRegistry = BananaUnslicerRegistry
    index = None
    value = None
    valueConstraint = ByteStringConstraint(100)

    def setConstraint(self, constraint):
        if isinstance(constraint, Any):
            return
        assert isinstance(constraint, ByteStringConstraint)
        self.valueConstraint = constraint

    def checkToken(self, typebyte, size):
        if self.index is None:
            if typebyte != INT:
                raise BananaError("Vocab key must be an INT")
        elif self.value is None:
            if typebyte != STRING:
                raise BananaError("Vocab value must be a STRING")
            if self.valueConstraint:
                self.valueConstraint.checkToken(typebyte, size)
        else:
            raise Violation("add-vocab only accepts two values")

    def receiveChild(self, obj, ready_deferred=None):
        assert not isinstance(obj, Deferred)
        assert ready_deferred is None
        if self.index is None:
            self.index = obj
        else:
            self.value = obj

    def receiveClose(self):
        if self.index is None or self.value is None:
            raise BananaError("sequence ended too early")
        self.protocol.addIncomingVocabulary(self.index, self.value)
        return AddToVocabularyTable, None

    def describe(self):
        if self.index is not None:
            return "<add-vocab>[%d]" % self.index
        return "<add-vocab>"
