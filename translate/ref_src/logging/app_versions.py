
import twisted
import foolscap

# You might want to modify this to include the version of your application.
# Just do:
#
#  from foolscap.logging import app_versions
#  app_versions.add_version("myapp", myversion)

versions = {"twisted": twisted.__version__,
            "foolscap": foolscap.__version__,
            }

def add_version(name, version):
    versions[name] = str(version)

