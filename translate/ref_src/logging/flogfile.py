import six
import json
from contextlib import closing
from twisted.python import failure

class ExtendedEncoder(json.JSONEncoder):
    def default(self, o):
        if isinstance(o, failure.Failure):
            # this includes CopyableFailure
            #
            # pickled Failures get the following modified attributes: frames,
            # tb=None, stack=, pickled=1
            return {"@": "Failure",
                    "str": str(o),
                    "repr": repr(o),
                    "traceback": o.getTraceback(),
                    # o.frames? .stack? .type?
                    }
        try:
            return {"@": "UnJSONable",
                    "message": "log.msg() was given an object that could not be encoded into JSON. I've replaced it with this UnJSONable object. The object's repr is in .repr",
                    "repr": repr(o),
                    }
        except Exception as e:
            try:
                return {"@": "Unreprable",
                        "message": "log.msg() was given an object that could not be encoded into JSON, and when I tried to repr() it I got an error too. I've put the repr of the exception in .exception_repr",
                        "exception_repr": repr(e),
                        }
            except Exception:
                return {"@": "ReallyUnreprable",
                        "message": "log.msg() was given an object that could not be encoded into JSON, and when I tried to repr() it I got an error too. That exception wasn't repr()able either. I give up. Good luck.",
                        }

def _make_jsonable(o, _seen=()):
    # json.dumps() does not consult default= for dict keys it cannot
    # represent (tuples, bytes, ..), nor for containers that contain
    # themselves: replace those, leave everything else to ExtendedEncoder
    if isinstance(o, (dict, list, tuple)):
        if id(o) in _seen:
            return {"@": "UnJSONable",
                    "message": "log.msg() was given a container that contains itself",
                    }
        _seen = _seen + (id(o),)
        if isinstance(o, dict):
            out = {}
            for k,v in list(o.items()):
                if not isinstance(k, (str, int, float, bool, type(None))):
                    try:
                        k = repr(k)
                    except Exception:
                        k = "<unreprable key>"
                out[k] = _make_jsonable(v, _seen)
            return out
        return [_make_jsonable(v, _seen) for v in o]
    return o

def _last_resort(o, depth=4):
    # keep the plain scalar fields (num, level, time, message, ..) of the
    # outer levels of a wrapper or header, replace everything else
    if isinstance(o, (str, bool, float, type(None))):
        return o
    if isinstance(o, int) and abs(o) < 2**64:
        return o
    if isinstance(o, dict) and depth:
        return dict([(k if isinstance(k, str) else "<key>",
                      _last_resort(v, depth-1))
                     for k,v in list(o.items())])
    return "<value that could not be encoded into JSON>"

def serialize_to_json_utf8(f, obj):
    # py2 json.dumps(ensure_ascii=True) always returns bytes (of ascii)
    # py3 json.dumps always returns str
    try:
        s = json.dumps(obj, cls=ExtendedEncoder)
    except Exception:
        # one unrepresentable event must not prevent the rest of the file
        # (e.g. an incident report) from being written
        try:
            s = json.dumps(_make_jsonable(obj), cls=ExtendedEncoder)
        except Exception:
            # e.g. an integer too large to print, or nesting too deep
            s = json.dumps(_last_resort(obj))
    f.write(six.ensure_binary(s))

def serialize_raw_header(f, header):
    serialize_to_json_utf8(f, {"header": header})
    f.write(b"\n")

def serialize_header(f, type, **kwargs):
    header = {"header": {"type": type} }
    for k,v in list(kwargs.items()):
        header["header"][k] = v
    serialize_to_json_utf8(f, header)
    f.write(b"\n")

def serialize_raw_wrapper(f, wrapper):
    serialize_to_json_utf8(f, wrapper)
    f.write(b"\n")

def serialize_wrapper(f, ev, from_, rx_time):
    wrapper = {"from": from_,
               "rx_time": rx_time,
               "d": ev}
    serialize_to_json_utf8(f, wrapper)
    f.write(b"\n")

MAGIC = b"# foolscap flogfile v1\n"
class BadMagic(Exception):
    """The file is not a flogfile: wrong magic number."""
class EvilPickleFlogFile(BadMagic):
    """This is an old (pickle-based) flogfile, and cannot be loaded safely."""
class ThisIsActuallyAFurlFileError(BadMagic):
    pass

def get_events(fn):
    if fn.endswith(".bz2"):
        import bz2
        f = bz2.BZ2File(fn, "r")
        # note: BZ2File in py2.6 is not a context manager
    else:
        f = open(fn, "rb")

    with closing(f):
        maybe_magic = f.read(len(MAGIC))
        if maybe_magic != MAGIC:
            if maybe_magic.startswith(b"(dp0"):
                raise EvilPickleFlogFile()
            if maybe_magic.startswith(b"pb:"):
                # this happens when you point "flogtool dump" at a furlfile
                # (e.g. logport.furl) by mistake. Emit a useful error
                # message.
                raise ThisIsActuallyAFurlFileError
            raise BadMagic(repr(maybe_magic))
        for line in f.readlines():
            yield json.loads(line.decode("utf-8"))
