
import logging
NOISY = logging.DEBUG # 10
OPERATIONAL = logging.INFO # 20
UNUSUAL = logging.INFO+3
INFREQUENT = logging.INFO+5
CURIOUS = logging.INFO+8
WEIRD = logging.WARNING # 30
SCARY = logging.WARNING+5
BAD = logging.ERROR # 40
