import os
from collections import deque
import six
from zope.interface import implementer
from twisted.python import filepath
from foolscap.referenceable import Referenceable
from foolscap.logging.interfaces import RISubscription, RILogPublisher
from foolscap.logging import app_versions, flogfile
from foolscap.eventual import eventually
from foolscap.util import ensure_dict_binary

@implementer(RISubscription)
class Subscription(Referenceable):
    # used as a marker, and as an unsubscribe() method. We use this to manage
    # the outbound size-limited queue.
    MAX_QUEUE_SIZE = 2000
    MAX_IN_FLIGHT = 10

    def __init__(self, observer, logger):
        self.observer = observer
        self.logger = logger
        self.subscribed = False
        self.queue = deque()
        self.in_flight = 0
        self.marked_for_sending = False
        #self.messages_dropped = 0

    def subscribe(self, catch_up):
        self.subscribed = True
        # If we have to discard messages, discard them as early as possible,
        # and provide backpressure. So we add our method as an "immediate
        # observer" instead of a regular one.
        self.logger.addImmediateObserver(self.send)
        self._nod_marker = self.observer.notifyOnDisconnect(self.unsubscribe)
        if catch_up:
            # send any catch-up events in a single batch, before we allow any
            # other events to be generated (and sent). This lets the
            # subscriber see events in sorted order. We bypass the bounded
            # queue for this.
            events = list(self.logger.get_buffered_events())
            events.sort(key=lambda a: a['num'] if isinstance(a['num'], int) else -1)
            for e in events:
                self.observer.callRemoteOnly("msg", e)

    def unsubscribe(self):
        if self.subscribed:
            self.logger.removeImmediateObserver(self.send)
            self.observer.dontNotifyOnDisconnect(self._nod_marker)
            self.subscribed = False
    def remote_unsubscribe(self):
        return self.unsubscribe()

    def send(self, event):
        if len(self.queue) < self.MAX_QUEUE_SIZE:
            self.queue.append(event)
        else:
            # preserve old messages, discard new ones.
            #self.messages_dropped += 1
            pass
        if not self.marked_for_sending:
            self.marked_for_sending = True
            eventually(self.start_sending)

    def start_sending(self):
        self.marked_for_sending = False
        while self.queue and (self.MAX_IN_FLIGHT - self.in_flight > 0):
            event = self.queue.popleft()
            self.in_flight += 1
            d = self.observer.callRemote("msg", event)
            d.addCallback(self._event_received)
            d.addErrback(self._error)

    def _event_received(self, res):
        self.in_flight -= 1
        # the following would be nice to have, but requires very careful
        # analysis to avoid recursion, reentrancy, or even more overload
        #if self.messages_dropped and not self.queue:
        #    count = self.messages_dropped
        #    self.messages_dropped = 0
        #    log.msg(format="log-publisher: %(dropped)d messages dropped",
        #            dropped=count,
        #            facility="foolscap.log.publisher",
        #            level=log.UNUSUAL)
        if not self.marked_for_sending:
            self.marked_for_sending = True
            eventually(self.start_sending)

    def _error(self, f):
        #print "PUBLISH FAILED: %s" % f
        self.unsubscribe()

@implementer(RISubscription)
class IncidentSubscription(Referenceable):
    def __init__(self, observer, logger, publisher):
        self.observer = observer
        self.logger = logger
        self.publisher = publisher
        self.subscribed = False

    def subscribe(self, catch_up=False, since=None):
        self.subscribed = True
        self.logger.addImmediateIncidentObserver(self.send)
        self._nod_marker = self.observer.notifyOnDisconnect(self.unsubscribe)
        if catch_up:
            self.catch_up(since)

    def catch_up(self, since):
        new = dict(self.publisher.list_incident_names(since))
        for name in sorted(new.keys()):
            fn = new[name]
            trigger = self.publisher.get_incident_trigger(fn)
            if trigger:
                self.observer.callRemoteOnly("new_incident", six.ensure_binary(name), trigger)
        self.observer.callRemoteOnly("done_with_incident_catchup")

    def unsubscribe(self):
        if self.subscribed:
            self.logger.removeImmediateIncidentObserver(self.send)
            self.observer.dontNotifyOnDisconnect(self._nod_marker)
            self.subscribed = False
    def remote_unsubscribe(self):
        return self.unsubscribe()

    def send(self, name, trigger):
        d = self.observer.callRemote("new_incident", six.ensure_binary(name), trigger)
        d.addErrback(self._error)

    def _error(self, f):
        print("INCIDENT PUBLISH FAILED: %s" % f)
        self.unsubscribe()


@implementer(RILogPublisher)
class LogPublisher(Referenceable):
    """Publish log events to anyone subscribed to our 'logport'.

    This class manages the subscriptions.

    Enable this by asking the Tub for a reference to me, or by telling the
    Tub to offer me to a log gatherer::

     lp = tub.getLogPort()
     rref.callRemote('have_a_logport', lp)
     print 'logport at:', tub.getLogPortFURL()

     tub.setOption('log-gatherer-furl', gatherer_furl)

    Running 'flogtool tail LOGPORT_FURL' will connect to the logport and
    print all events that subsequently get logged.

    To make the logport use the same furl from one run to the next, give the
    Tub a filename where it can store the furl. Make sure you do this before
    touching the logport::

     logport_furlfile = 'logport.furl'
     tub.setOption('logport-furlfile', logport_furlfile)

    If you're using one or more LogGatherers, pass their FURLs into the Tub
    with tub.setOption('log-gatherer-furl'), or pass the name of a file
    where it is stored with tub.setOption('log-gatherer-furlfile'). This
    will cause the Tub to connect to the gatherer and grant it access to the
    logport.
    """

    # the 'versions' dict used to live here in LogPublisher, but now it lives
    # in foolscap.logging.app_versions and should be accessed from there.
    # This copy remains for backwards-compatibility.
    versions = app_versions.versions

    def __init__(self, logger):
        self._logger = logger
        logger.setLogPort(self)

    def remote_get_versions(self):
        return ensure_dict_binary(app_versions.versions)
    def remote_get_pid(self):
        return os.getpid()


    def remote_subscribe_to_all(self, observer, catch_up=False):
        s = Subscription(observer, self._logger)
        eventually(s.subscribe, catch_up)
        # allow the call to return before we send them any events
        return s

    def remote_unsubscribe(self, s):
        return s.unsubscribe()


    def trim(self, s, *suffixes):
        for suffix in suffixes:
            if s.endswith(suffix):
                s = s[:-len(suffix)]
        return s

    def list_incident_names(self, since=""):
        # yields (name, absfilename) pairs
        since = six.ensure_str(since)
        basedir = self._logger.logdir
        for fn in os.listdir(basedir):
            if fn.startswith("incident") and not fn.endswith(".tmp"):
                basename = six.ensure_str(self.trim(fn, ".bz2", ".flog"))
                if basename > since:
                    fullname = six.ensure_str(os.path.join(basedir, fn))
                    if os.path.islink(fullname):
                        # only files that really are in the log directory
                        continue
                    yield (basename, fullname)

    def get_incident_trigger(self, abs_fn):
        events = flogfile.get_events(abs_fn)
        try:
            header = next(iter(events))
        except (EOFError, ValueError):
            return None
        assert header["header"]["type"] == "incident"
        trigger = header["header"]["trigger"]
        return trigger

    def remote_list_incidents(self, since=""):
        incidents = {}
        for (name,fn) in self.list_incident_names(since):
            trigger = self.get_incident_trigger(fn)
            if trigger:
                incidents[six.ensure_str(name)] = trigger
        return incidents

    def remote_get_incident(self, name):
        name = six.ensure_str(name)
        if not name.startswith("incident"):
            raise KeyError("bad incident name %s" % name)
        incident_dir = filepath.FilePath(self._logger.logdir)
        fp = incident_dir.child(name)
        if fp.parent() != incident_dir:
            # e.g. "incident/..", which denotes the directory itself
            raise KeyError("bad incident name %s" % name)
        abs_fn = fp.path + ".flog"
        try:
            fn = abs_fn + ".bz2"
            if not os.path.exists(fn):
                fn = abs_fn
            if os.path.islink(fn):
                # only files that really are in the log directory
                raise KeyError("no incident named %s" % name)
            events = flogfile.get_events(fn)
            # note the generator isn't actually cycled yet, not until next()
            header = next(events)["header"]
        except EnvironmentError:
            raise KeyError("no incident named %s" % name)
        wrapped_events = [event["d"] for event in events]
        return (header, wrapped_events)

    def remote_subscribe_to_incidents(self, observer, catch_up=False, since=""):
        since = six.ensure_str(since)
        s = IncidentSubscription(observer, self._logger, self)
        eventually(s.subscribe, catch_up, since)
        # allow the call to return before we send them any events
        return s
