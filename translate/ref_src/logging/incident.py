import six
import sys, os.path, time, bz2
import json
from zope.interface import implementer
from twisted.python import usage
from twisted.internet import reactor
from foolscap.logging.interfaces import IIncidentReporter
from foolscap.logging import levels, app_versions, flogfile
from foolscap.eventual import eventually
from foolscap.util import move_into_place
from foolscap import base32

TIME_FORMAT = "%Y-%m-%d--%H-%M-%S"

class IncidentQualifier:
    """I am responsible for deciding what qualifies as an Incident. I look at
    the event stream and watch for a 'triggering event', then signal my
    handler when the events that I've seen are severe enought to warrant
    recording the recent history in an 'incident log file'.

    My event() method should be called with each event. When I declare an
    incident, I will call my handler's declare_incident(ev) method, with the
    triggering event. Since event() will be fired from an eventual-send
    queue, the incident will be declared slightly later than the triggering
    event.
    """

    def set_handler(self, handler):
        self.handler = handler

    def check_event(self, ev):
        if ev['level'] >= levels.WEIRD:
            return True
        return False

    def event(self, ev):
        if self.check_event(ev) and self.handler:
            self.handler.declare_incident(ev)

@implementer(IIncidentReporter)
class IncidentReporter:
    """Once an Incident has been declared, I am responsible for making a
    durable record all relevant log events. I do this by creating a logfile
    (a series of JSON lines, one per log event dictionary) and copying
    everything from the history buffer into it. I can copy a small number of
    future events into it as well, to record what happens as the application
    copes with the situtation.

    I am responsible for just a single incident.

    I am created with a reference to a FoolscapLogger instance, from which I
    will grab the contents of the history buffer.

    When I have closed the incident logfile, I will notify the logger by
    calling their incident_recorded() method, passing it the local filename
    of the logfile I created and the triggering event. This can be used to
    notify remote subscribers about the incident that just occurred.
    """

    TRAILING_DELAY = 5.0 # gather 5 seconds of post-trigger events
    TRAILING_EVENT_LIMIT = 100 # or 100 events, whichever comes first

    def __init__(self, basedir, logger, tubid_s):
        self.basedir = basedir
        self.logger = logger
        self.tubid_s = tubid_s
        self.active = True
        self.timer = None

    def is_active(self):
        return self.active

    def format_time(self, when):
        return time.strftime(TIME_FORMAT, time.gmtime(when)) + "Z"

    def incident_declared(self, triggering_event):
        self.trigger = triggering_event
        # choose a name for the logfile
        now = time.time()
        unique = os.urandom(4)
        unique_s = base32.encode(unique)
        self.name = "incident-%s-%s" % (self.format_time(now), unique_s)
        filename = self.name + ".flog"
        self.abs_filename = os.path.join(self.basedir, filename)
        self.abs_filename_bz2 = self.abs_filename + ".bz2"
        self.abs_filename_bz2_tmp = self.abs_filename + ".bz2.tmp"
        # open logfile. We use both an uncompressed one and a compressed one.
        self.f1 = open(self.abs_filename, "wb")
        self.f2 = bz2.BZ2File(self.abs_filename_bz2_tmp, "wb")

        # write header with triggering_event
        self.f1.write(flogfile.MAGIC)
        self.f2.write(flogfile.MAGIC)
        flogfile.serialize_header(self.f1, "incident",
                                  trigger=triggering_event,
                                  versions=app_versions.versions,
                                  pid=os.getpid())
        flogfile.serialize_header(self.f2, "incident",
                                  trigger=triggering_event,
                                  versions=app_versions.versions,
                                  pid=os.getpid())

        if self.TRAILING_DELAY is not None:
            # subscribe to events that occur after this one
            self.still_recording = True
            self.remaining_events = self.TRAILING_EVENT_LIMIT
            self.logger.addObserver(self.trailing_event)

        # use self.logger.buffers, copy events into logfile
        events = list(self.logger.get_buffered_events())
        # an application may have passed anything as num= to log.msg():
        # never let one such event keep the incident from being recorded
        events.sort(key=lambda a: a['num'] if isinstance(a['num'], int) else -1)
        for e in events:
            flogfile.serialize_wrapper(self.f1, e,
                                       from_=self.tubid_s, rx_time=now)
            flogfile.serialize_wrapper(self.f2, e,
                                       from_=self.tubid_s, rx_time=now)

        self.f1.flush()
        # the BZ2File has no flush method

        if self.TRAILING_DELAY is None:
            self.active = False
            eventually(self.finished_recording)
        else:
            # now we wait for the trailing events to arrive
            self.timer = reactor.callLater(self.TRAILING_DELAY,
                                           self.stop_recording)

    def trailing_event(self, ev):
        if not self.still_recording:
            return

        self.remaining_events -= 1
        if self.remaining_events >= 0:
            now = time.time()
            flogfile.serialize_wrapper(self.f1, ev,
                                       from_=self.tubid_s, rx_time=now)
            flogfile.serialize_wrapper(self.f2, ev,
                                       from_=self.tubid_s, rx_time=now)
            return

        self.stop_recording()

    def new_trigger(self, ev):
        # it is too late to add this to the header. We could add it to a
        # trailer, though.
        pass

    def stop_recording(self):
        self.still_recording = False
        self.active = False
        if self.timer and self.timer.active():
            self.timer.cancel()

        self.logger.removeObserver(self.trailing_event)
        # Observers are notified through an eventually() call, so we might
        # get a few more after the observer is removed. We use
        # self.still_recording to hush them.
        eventually(self.finished_recording)

    def finished_recording(self):
        self.f2.close()
        move_into_place(self.abs_filename_bz2_tmp, self.abs_filename_bz2)
        # the compressed logfile has closed successfully. We no longer care
        # about the uncompressed one.
        self.f1.close()
        os.unlink(self.abs_filename)

        # now we can tell the world about our new incident report
        eventually(self.logger.incident_recorded,
                   self.abs_filename_bz2, self.name, self.trigger)

class NonTrailingIncidentReporter(IncidentReporter):
    TRAILING_DELAY = None


class ClassifyOptions(usage.Options):
    stdout = sys.stdout
    stderr = sys.stderr
    synopsis = "Usage: flogtool classify-incident [options] INCIDENTFILE.."

    optFlags = [
        ("verbose", "v", "show trigger details for unclassifiable incidents"),
        ]
    optParameters = [
        ("classifier-directory", "c", ".",
         "directory with classify_*.py functions to import"),
        ]

    def parseArgs(self, *files):
        self.files = files


class IncidentClassifierBase:

    def __init__(self):
        self.classifiers = []

    def add_classifier(self, f):
        # there are old .tac files that call this explicitly
        self.classifiers.append(f)

    def add_classify_files(self, plugindir):
        plugindir = os.path.expanduser(plugindir)
        for fn in os.listdir(plugindir):
            if not (fn.startswith("classify_") and fn.endswith(".py")):
                continue
            f = open(os.path.join(plugindir, fn), "r").read()
            localdict = {}
            six.exec_(f, localdict)
            self.add_classifier(localdict["classify_incident"])

    def load_incident(self, abs_fn):
        assert abs_fn.endswith(".bz2")
        events = flogfile.get_events(abs_fn)
        header = next(events)["header"]
        wrapped_events = [event["d"] for event in events]
        return (header, wrapped_events)

    def classify_incident(self, incident):
        categories = set()
        for f in self.classifiers:
            (header, events) = incident
            trigger = header["trigger"]
            c = f(trigger)
            if c: # allow the classifier to return None, or [], or ["foo"]
                if isinstance(c, str):
                    c = [c] # or just "foo"
                categories.update(c)
        if not categories:
            categories.add("unknown")
        return categories

class IncidentClassifier(IncidentClassifierBase):
    def run(self, options):
        self.add_classify_files(options["classifier-directory"])
        out = options.stdout
        for f in options.files:
            abs_fn = os.path.expanduser(f)
            incident = self.load_incident(abs_fn)
            categories = self.classify_incident(incident)
            print(u"%s: %s" % (f, ",".join(sorted(categories))), file=out)
            if list(categories) == ["unknown"] and options["verbose"]:
                (header, events) = incident
                trigger = header["trigger"]
                from foolscap.logging.log import format_message
                print(format_message(trigger), file=out)
                #pprint(trigger, stream=out)
                print(six.ensure_text(json.dumps(trigger)), file=out)
                if 'failure' in trigger:
                    print(u" FAILURE:", file=out)
                    lines = str(trigger['failure']).split("\n")
                    for line in lines:
                        print(u" %s" % (line,), file=out)
                print(u"", file=out)

