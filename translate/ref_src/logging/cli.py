import sys
from io import StringIO
from twisted.python import usage

import foolscap
from foolscap.logging.tail import TailOptions, LogTail
from foolscap.logging.gatherer import \
     CreateGatherOptions, create_log_gatherer, \
     CreateIncidentGatherOptions, create_incident_gatherer
from foolscap.logging.dumper import DumpOptions, LogDumper
from foolscap.logging.web import WebViewerOptions, WebViewer
from foolscap.logging.filter import FilterOptions, Filter
from foolscap.logging.incident import ClassifyOptions, IncidentClassifier

class Options(usage.Options):
    synopsis = "Usage: flogtool (tail|create-gatherer|dump|filter|web-viewer)"

    subCommands = [
        ("tail", None, TailOptions, "follow logs of the target node"),
        ("create-gatherer", None, CreateGatherOptions,
         "Make a .tac which will record all logs to a given directory"),
        ("create-incident-gatherer", None, CreateIncidentGatherOptions,
         "Make a .tac which will record all incidents to a given directory"),
        ("dump", None, DumpOptions,
         "dump the logs recorded by 'logtool gather'"),
        ("filter", None, FilterOptions,
         "produce a new file with a subset of the events from another file"),
        ("web-viewer", None, WebViewerOptions,
         "view the logs through a web page"),
        ("classify-incident", None, ClassifyOptions,
         "classify a stored Incident file"),
        ]

    def postOptions(self):
        if not hasattr(self, 'subOptions'):
            raise usage.UsageError("must specify a command")

    def opt_help(self):
        print(self.synopsis)
        sys.exit(0)

    def opt_version(self):
        from twisted import copyright
        print("Foolscap version:", foolscap.__version__)
        print("Twisted version:", copyright.version)
        sys.exit(0)


def dispatch(command, options):
    if command == "tail":
        lt = LogTail(options)
        return lt.run(options.target_furl)

    elif command == "create-gatherer":
        return create_log_gatherer(options)

    elif command == "create-incident-gatherer":
        return create_incident_gatherer(options)

    elif command == "dump":
        ld = LogDumper()
        return ld.run(options)

    elif command == "filter":
        f = Filter()
        return f.run(options)

    elif command == "web-viewer":
        wv = WebViewer()
        return wv.run(options)

    elif command == "classify-incident":
        ic = IncidentClassifier()
        return ic.run(options)

    else:
        print("unknown command '%s'" % command)
        raise NotImplementedError

def run_flogtool(argv=None, run_by_human=True):
    if argv:
        command_name = argv[0]
    else:
        command_name = sys.argv[0]
    config = Options()
    try:
        config.parseOptions(argv)
    except usage.error as e:
        if not run_by_human:
            raise
        print("%s:  %s" % (command_name, e))
        print()
        c = getattr(config, 'subOptions', config)
        print(str(c))
        sys.exit(1)

    command = config.subCommand
    so = config.subOptions
    if not run_by_human:
        so.stdout = StringIO()
        so.stderr = StringIO()
    rc = dispatch(command, so)
    if rc is None:
        rc = 0
    if run_by_human:
        sys.exit(rc)
    else:
        return (so.stdout.getvalue(), so.stderr.getvalue())
