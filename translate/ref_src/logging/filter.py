from twisted.python import usage
import sys, os, bz2, time
from foolscap.logging import log, flogfile
from foolscap.util import move_into_place

class FilterOptions(usage.Options):
    stdout = sys.stdout
    stderr = sys.stderr
    synopsis = "Usage: flogtool filter [options] OLDFILE NEWFILE"

    optParameters = [
        ["after", None, None, "include events after timestamp (seconds since epoch)"],
        ["before", None, None, "include events before timestamp"],
        ["strip-facility", None, None, "remove events with the given facility prefix"],
        ["above", None, None, "include events at the given severity level or above"],
        ["from", None, None, "include events from the given tubid prefix"],
        ]

    optFlags = [
        ["verbose", "v", "emit event numbers during processing (useful to isolate an unloadable event pickle"],
        ]

    def parseArgs(self, oldfile, newfile=None):
        self.oldfile = oldfile
        self.newfile = newfile
        if newfile is None:
            self.newfile = oldfile

    def opt_after(self, arg):
        self['after'] = int(arg)

    def opt_before(self, arg):
        self['before'] = int(arg)

    def opt_above(self, arg):
        try:
            self['above'] = int(arg)
        except ValueError:
            levelmap = {"NOISY": log.NOISY,
                        "OPERATIONAL": log.OPERATIONAL,
                        "UNUSUAL": log.UNUSUAL,
                        "INFREQUENT": log.INFREQUENT,
                        "CURIOUS": log.CURIOUS,
                        "WEIRD": log.WEIRD,
                        "SCARY": log.SCARY,
                        "BAD": log.BAD,
                        }
            self['above'] = levelmap[arg]


class Filter:

    def run(self, options):
        stdout = options.stdout
        newfilename = options.newfile
        if options.newfile == options.oldfile:
            print(u"modifying event file in place", file=stdout)
            newfilename = newfilename + ".tmp"
        if options.newfile.endswith(".bz2"):
            newfile = bz2.BZ2File(newfilename, "w")
        else:
            newfile = open(newfilename, "wb")
        newfile.write(flogfile.MAGIC)
        after = options['after']
        if after is not None:
            print(u" --after: removing events before %s" % time.ctime(after), file=stdout)
        before = options['before']
        if before is not None:
            print(u" --before: removing events after %s" % time.ctime(before), file=stdout)
        above = options['above']
        if above:
            print(u" --above: removing events below level %d" % above, file=stdout)
        from_tubid = options['from']
        if from_tubid:
            print(u" --from: retaining events only from tubid prefix %s" % from_tubid, file=stdout)
        strip_facility = options['strip-facility']
        if strip_facility is not None:
            print(u"--strip-facility: removing events for %s and children" % strip_facility, file=stdout)
        total = 0
        copied = 0
        for e in flogfile.get_events(options.oldfile):
            if options['verbose']:
                if "d" in e:
                    print(str(e['d']['num']), file=stdout)
                else:
                    print(u"HEADER", file=stdout)
            total += 1
            if "d" in e:
                if before is not None and e['d']['time'] >= before:
                    continue
                if after is not None and e['d']['time'] <= after:
                    continue
                if above is not None and e['d']['level'] < above:
                    continue
                if from_tubid is not None and not e['from'].startswith(from_tubid):
                    continue
                if strip_facility is not None:
                    # an event may carry facility=None or a non-text facility
                    facility = e['d'].get('facility', "")
                    if (isinstance(facility, str)
                        and facility.startswith(strip_facility)):
                        continue
            copied += 1
            flogfile.serialize_raw_wrapper(newfile, e)
        newfile.close()
        if options.newfile == options.oldfile:
            if sys.platform == "win32":
                # Win32 can't do an atomic rename to an existing file.
                try:
                    os.unlink(options.newfile)
                except OSError:
                    pass
            move_into_place(newfilename, options.newfile)
        print(u"copied %d of %d events into new file" % (copied, total), file=stdout)
