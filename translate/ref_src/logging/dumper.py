import sys, errno, textwrap
from twisted.python import usage
from foolscap.logging import flogfile
from foolscap.logging.log import format_message
from foolscap.util import format_time, FORMAT_TIME_MODES

class DumpOptions(usage.Options):
    stdout = sys.stdout
    stderr = sys.stderr
    synopsis = "Usage: flogtool dump DUMPFILE.flog[.bz2]"
    optParameters = [
        ("timestamps", "t", "short-local",
         "Format for timestamps: " + " ".join(FORMAT_TIME_MODES)),
        ]
    optFlags = [
        ("verbose", "v", "Show all event arguments"),
        ("just-numbers", "n", "Show only event numbers"),
        ("rx-time", "r", "Show event receipt time (in addition to emit time)"),
        ]

    def opt_timestamps(self, arg):
        if arg not in FORMAT_TIME_MODES:
            raise usage.UsageError("--timestamps= must be one of (%s)" %
                                   ", ".join(FORMAT_TIME_MODES))
        self["timestamps"] = arg

    def parseArgs(self, dumpfile):
        self.dumpfile = dumpfile

class LogDumper:
    def __init__(self):
        self.trigger = None

    def run(self, options):
        try:
            for e in flogfile.get_events(options.dumpfile):
                if "header" in e:
                    self.print_header(e, options)
                if "d" in e:
                    self.print_event(e, options)
        except EnvironmentError as e:
            # "flogtool dump FLOGFILE |less" is very common, and if you quit
            # it early with "q", the stdout pipe is broken and python dies
            # with a messy stacktrace. Catch and ignore that.
            if e.errno == errno.EPIPE:
                return 1
            raise
        except flogfile.ThisIsActuallyAFurlFileError:
            print(textwrap.dedent(u"""\
                Error: %s appears to be a FURL file.
                Perhaps you meant to run 'flogtool tail' instead of 'flogtool dump'?"""
                % (options.dumpfile,)), file=options.stderr)
            return 1
        except flogfile.EvilPickleFlogFile:
            print(textwrap.dedent("""\
            Error: %s appears to be an old-style
            (pickle-based) flogfile, which cannot be loaded safely. If you
            wish to allow the author of the flogfile to take over your
            computer (and incidentally allow you to view the content), please
            use the flogtool from a copy of foolscap-0.12.7 or earlier."""
                                                    % (options.dumpfile,)), file=options.stderr)
            return 1
        except flogfile.BadMagic:
            print(textwrap.dedent("""\
            Error: %s does not appear to be a flogfile.
            """ % (options.dumpfile,)), file=options.stderr)
            return 1
        except ValueError as ex:
            print(u"truncated pickle file? (%s): %s" % (options.dumpfile, ex), file=options.stderr)
            return 1

    def print_header(self, e, options):
        stdout = options.stdout
        h = e["header"]
        if h["type"] == "incident":
            t = h["trigger"]
            self.trigger = (t["incarnation"], t["num"])
        if options['verbose']:
            print(str(e), file=stdout)
        if not options["just-numbers"] and not options["verbose"]:
            if "versions" in h:
                print(u"Application versions (embedded in logfile):", file=stdout)
                versions = h["versions"]
                longest = max([len(name) for name in versions] + [0])
                fmt = "%" + str(longest) + "s: %s"
                for name in sorted(versions.keys()):
                    print(fmt % (name, versions[name]), file=stdout)
            if "pid" in h:
                print(u"PID: %s" % (h["pid"],), file=stdout)
            print(u"", file=stdout)

    def print_event(self, e, options):
        stdout = options.stdout
        short = e['from'][:8]
        d = e['d']
        when = format_time(d['time'], options["timestamps"])
        if options['just-numbers']:
            print(str(when), str(d.get('num')), file=stdout)
            return

        eid = (d["incarnation"], d["num"])
        # let's mark the trigger event from incident reports with
        # [INCIDENT-TRIGGER] at the end of the line
        is_trigger = bool(self.trigger and (eid == self.trigger))
        try:
            text = format_message(d)
        except:
            print(u"unformattable event", d)
            raise

        t = "%s#%d " % (short, d['num'])
        if options['rx-time']:
            rx_when = format_time(e['rx_time'], options["timestamps"])
            t += "rx(%s) " % rx_when
            t += "emit(%s)" % when
        else:
            t += "%s" % when
        t += ": %s" % text
        if options['verbose']:
            t += ": %r" % d
        if is_trigger:
            t += " [INCIDENT-TRIGGER]"
        print(t, file=stdout)
        if 'failure' in d:
            print(u" FAILURE:", file=stdout)
            lines = str(d['failure'].get('str', d['failure'])).split("\n")
            for line in lines:
                print(u" %s" % (line,), file=stdout)
