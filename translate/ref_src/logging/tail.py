import os, sys, time
from zope.interface import implementer
from twisted.internet import reactor
from twisted.python import usage
from foolscap import base32
from foolscap.api import Tub, Referenceable, fireEventually
from foolscap.logging import log, flogfile
from foolscap.referenceable import SturdyRef
from foolscap.util import format_time, FORMAT_TIME_MODES, ensure_dict_str, ensure_dict_str_keys
from .interfaces import RILogObserver

def short_tubid_b2a(tubid):
    return base32.encode(tubid)[:8]

@implementer(RILogObserver)
class LogSaver(Referenceable):
    def __init__(self, nodeid_s, savefile):
        self.nodeid_s = nodeid_s
        self.f = savefile # we own this, and may close it
        self.f.write(flogfile.MAGIC)

    def emit_header(self, versions, pid):
        flogfile.serialize_header(self.f, "tail", versions=versions, pid=pid)

    def remote_msg(self, d):
        try:
            flogfile.serialize_wrapper(self.f, d,
                                       from_=self.nodeid_s,
                                       rx_time=time.time())
        except Exception as ex:
            print("GATHERER: unable to serialize %s: %s" % (d, ex))

    def disconnected(self):
        self.f.close()
        del self.f

class TailOptions(usage.Options):
    synopsis = "Usage: flogtool tail (LOGPORT.furl/furlfile/nodedir)"

    optFlags = [
        ("verbose", "v", "Show all event arguments"),
        ("catch-up", "c", "Catch up with recent events"),
        ]
    optParameters = [
        ("save-to", "s", None,
         "Save events to the given file. The file will be overwritten."),
        ("timestamps", "t", "short-local",
         "Format for timestamps: " + " ".join(FORMAT_TIME_MODES)),
        ]

    def opt_timestamps(self, arg):
        if arg not in FORMAT_TIME_MODES:
            raise usage.UsageError("--timestamps= must be one of (%s)" %
                                   ", ".join(FORMAT_TIME_MODES))
        self["timestamps"] = arg

    def parseArgs(self, target):
        if target.startswith("pb:"):
            self.target_furl = target
        elif os.path.isfile(target):
            self.target_furl = open(target, "r").read().strip()
        elif os.path.isdir(target):
            fn = os.path.join(target, "logport.furl")
            self.target_furl = open(fn, "r").read().strip()
        else:
            raise RuntimeError("Can't use tail target: %s" % target)

@implementer(RILogObserver)
class LogPrinter(Referenceable):
    def __init__(self, options, target_tubid_s, output=sys.stdout):
        self.options = options
        self.saver = None
        if options["save-to"]:
            self.saver = LogSaver(target_tubid_s[:8],
                                  open(options["save-to"], "wb"))
        self.output = output

    def got_versions(self, versions, pid=None):
        versions = ensure_dict_str(versions)
        print("Remote Versions:", file=self.output)
        for k in sorted(versions.keys()):
            print(" %s: %s" % (k, versions[k]), file=self.output)
        if self.saver:
            self.saver.emit_header(versions, pid)

    def remote_msg(self, d):
        d = ensure_dict_str_keys(d)
        if self.options['verbose']:
            self.simple_print(d)
        else:
            self.formatted_print(d)
        if self.saver:
            self.saver.remote_msg(d)

    def simple_print(self, d):
        print(str(d), file=self.output)

    def formatted_print(self, d):
        time_s = format_time(d['time'], self.options["timestamps"])

        msg = log.format_message(d)
        level = d.get('level', log.OPERATIONAL)

        tubid = "" # TODO
        print("%s L%d [%s]#%d %s" % (time_s, level, tubid,
                                     d["num"], msg), file=self.output)
        if 'failure' in d:
            print(" FAILURE:", file=self.output)
            lines = str(d['failure']).split("\n")
            for line in lines:
                print(" %s" % (line,), file=self.output)


class LogTail:
    def __init__(self, options):
        self.options = options

    def run(self, target_furl):
        target_tubid = SturdyRef(target_furl).getTubRef().getTubID()
        d = fireEventually(target_furl)
        d.addCallback(self.start, target_tubid)
        d.addErrback(self._error)
        print("starting..")
        reactor.run()

    def _error(self, f):
        print("ERROR", f)
        reactor.stop()

    def start(self, target_furl, target_tubid):
        print("Connecting..")
        self._tub = Tub()
        self._tub.startService()
        self._tub.connectTo(target_furl, self._got_logpublisher, target_tubid)

    def _got_logpublisher(self, publisher, target_tubid):
        d = publisher.callRemote("get_pid")
        def _announce(pid_or_failure):
            if isinstance(pid_or_failure, int):
                print("Connected (to pid %d)" % pid_or_failure)
                return pid_or_failure
            else:
                # the logport is probably foolscap-0.2.8 or earlier and
                # doesn't offer get_pid()
                print("Connected (unable to get pid)")
                return None
        d.addBoth(_announce)
        publisher.notifyOnDisconnect(self._lost_logpublisher)
        lp = LogPrinter(self.options, target_tubid)
        def _ask_for_versions(pid):
            d = publisher.callRemote("get_versions")
            d.addCallback(lp.got_versions, pid)
            return d
        d.addCallback(_ask_for_versions)
        catch_up = bool(self.options["catch-up"])
        if catch_up:
            d.addCallback(lambda res:
                          publisher.callRemote("subscribe_to_all", lp, True))
        else:
            # provide compatibility with foolscap-0.2.4 and earlier, which
            # didn't accept a catchup= argument
            d.addCallback(lambda res:
                          publisher.callRemote("subscribe_to_all", lp))
        d.addErrback(self._error)
        return d

    def _lost_logpublisher(publisher):
        print("Disconnected")


