import os, sys, time, weakref, binascii
import traceback
import collections
import six
from twisted.python import log as twisted_log
from twisted.python import failure
from foolscap import eventual
from foolscap.logging.interfaces import IIncidentReporter
from foolscap.logging.incident import IncidentQualifier, IncidentReporter
from foolscap.logging import app_versions, flogfile
from foolscap.util import ensure_dict_str_keys

from foolscap.logging.levels import NOISY, OPERATIONAL, UNUSUAL, \
     INFREQUENT, CURIOUS, WEIRD, SCARY, BAD

llmap = {}
try:
    import logging as py_logging
    from twisted.logger import LogLevel # added in Twisted-15.2.0
    # twisted.logger._stdlib.toStdlibLogLevelMapping is private, alas
    llmap = {
        LogLevel.debug: py_logging.DEBUG, # == NOISY
        LogLevel.info: py_logging.INFO, # == OPERATIONAL
        LogLevel.warn: py_logging.WARNING, # == WEIRD
        LogLevel.error: py_logging.ERROR, # == BAD,
        LogLevel.critical: py_logging.CRITICAL, # == BAD+10
        }
except ImportError:
    pass # Twisted < 15.2.0

# hush pyflakes, these are imported to be available to other callers
_unused = [NOISY, OPERATIONAL, UNUSUAL, INFREQUENT, CURIOUS, WEIRD, SCARY, BAD]

def format_message(e):
    # the dict might have come from json.loads (so unicode everywhere), or
    # over the wire from a py2 program (so bytes), or from a py3 program (so
    # unicode). Do our best to produce text.
    try:
        e = ensure_dict_str_keys(e)
        if "format" in e:
            fmt = six.ensure_str(e['format'])
            args = e
        elif "args" in e:
            assert "message" in e
            fmt = six.ensure_str(e['message'])
            args = e['args']
            if isinstance(args, list):
                # the positional args were a tuple when the event was
                # logged; a flogfile (JSON) hands them back as a list
                args = tuple(args)
        elif "message" in e:
            fmt = "%(message)s"
            assert isinstance(e['message'], (bytes, str))
            args = {"message": six.ensure_str(e['message'])}
            # i.e. just return e['message']
        else:
            fmt = ""
            args = {}
        assert isinstance(fmt, (bytes, str))
        return six.ensure_text(fmt % args)
    except Exception:
        # rendering an event must never raise: a format string that names a
        # missing key (KeyError), a non-string message, or an argument whose
        # __str__/__repr__ fails all end up here
        msg = e.get('message', "[no message]")
        try:
            if not isinstance(msg, (bytes, str)):
                msg = repr(msg)
            msg = six.ensure_text(msg, errors="replace")
        except Exception:
            msg = "[unprintable message]"
        return msg + " [formatting failed]"


class Count:
    """A fixed version of itertools.count .

    This class counts up from zero, just like the Python 2.5.2 docs claim
    that itertools.count() does, but this class does not overflow with an
    error like itertools.count() does:

      File 'foolscap/logging/log.py', line 137, in msg
          num = self.seqnum.next()
      exceptions.OverflowError: cannot count beyond PY_SSIZE_T_MAX
    """

    def __init__(self, firstval=0):
        self.n = firstval - 1

    def next(self):
        self.n += 1
        return self.n

class FoolscapLogger:
    DEFAULT_SIZELIMIT = 100
    DEFAULT_THRESHOLD = NOISY
    MAX_RECORDED_INCIDENTS = 20 # records filenames of incident logfiles

    def __init__(self):
        self.incarnation = self.get_incarnation()
        self.seqnum = Count()
        self.facility_explanations = {}
        self.buffer_sizes = {} # k: facility or None, v: dict(level->sizelimit)
        self.buffer_sizes[None] = {}
        self.buffers = {} # k: facility or None, v: dict(level->deque)
        self.thresholds = {}
        self._observers = []
        self._immediate_observers = []
        self._immediate_incident_observers = []
        self.logdir = None # nowhere to put our incidents
        self.inactive_incident_qualifier = IncidentQualifier()
        self.active_incident_qualifier = None
        self.incident_reporter_factory = IncidentReporter
        self.active_incident_reporter_weakref = None
        self.incidents_declared = 0
        self.incidents_recorded = 0
        self.recent_recorded_incidents = []

    def get_incarnation(self):
        unique = binascii.b2a_hex(os.urandom(8))
        # b2a_hex yields bytes on both py2/py3
        if sys.version_info.major != 2:
            unique = unique.decode("ascii")
        # 'unique' is native string
        sequential = None
        return (unique, sequential)

    def addObserver(self, observer):
        self._observers.append(observer)
    def removeObserver(self, observer):
        self._observers.remove(observer)

    def addImmediateObserver(self, observer):
        # by using this, you solemly swear that your observer will not raise
        # an exception, nor will it recurse or cause more log messages to be
        # emitted. Immediate Observers are notified without an eventual-send.
        self._immediate_observers.append(observer)
    def removeImmediateObserver(self, observer):
        self._immediate_observers.remove(observer)


    def setLogDir(self, directory):
        # TODO: change self.incarnation to reflect next seqnum
        self.logdir = os.path.abspath(os.path.expanduser(directory))
        if not os.path.isdir(self.logdir):
            os.makedirs(self.logdir)
        self.activate_incident_qualifier()

    def setIncidentQualifier(self, iq):
        assert iq.event
        self.deactivate_incident_qualifier()
        self.inactive_incident_qualifier = iq
        if self.logdir:
            self.activate_incident_qualifier()

    def deactivate_incident_qualifier(self):
        if self.active_incident_qualifier:
            self.active_incident_qualifier.set_handler(None)
            self.active_incident_qualifier = None

    def activate_incident_qualifier(self):
        self.active_incident_qualifier = self.inactive_incident_qualifier
        self.active_incident_qualifier.set_handler(self)

    def setIncidentReporterFactory(self, ir):
        assert IIncidentReporter.implementedBy(ir)
        self.incident_reporter_factory = ir

    def addImmediateIncidentObserver(self, observer):
        self._immediate_incident_observers.append(observer)
    def removeImmediateIncidentObserver(self, observer):
        self._immediate_incident_observers.remove(observer)

    def explain_facility(self, facility, description):
        self.facility_explanations[facility] = description

    def set_buffer_size(self, level, sizelimit, facility=None):
        if facility not in self.buffer_sizes:
            self.buffer_sizes[facility] = {}
        self.buffer_sizes[facility][level] = sizelimit

    def set_generation_threshold(self, level, facility=None):
        self.thresholds[facility] = level
    def get_generation_threshold(self, facility=None):
        return self.thresholds.get(facility, self.DEFAULT_THRESHOLD)

    def msg(self, *args, **kwargs):
        """
        @param parent: the event number of the most direct parent of this
                       event
        @param facility: the slash-joined facility name, or None
        @param level: the numeric severity level, like NOISY or SCARY
        @param stacktrace: a string stacktrace, or True to generate one
        @returns: the event number for this logevent, intended to be passed
                  to parent= in a subsequent call to msg()
        """

        if "num" not in kwargs:
            num = self.seqnum.next()
            kwargs['num'] = num
        else:
            num = kwargs['num']

        try:
            self._msg(*args, **kwargs)
        except Exception as e:
            try:
                errormsg = ("internal error in log._msg,"
                            " args=%r, kwargs=%r, exception=%r"
                            % (args, kwargs, e))
                self._msg(errormsg, num=num, level=WEIRD,
                          facility="foolscap/internal-error")
            except:
                pass # bummer
        return num

    def _msg(self, *args, **kwargs):
        facility = kwargs.get('facility')
        if "level" not in kwargs:
            kwargs['level'] = OPERATIONAL
        level = kwargs["level"]
        threshold = self.get_generation_threshold(facility)
        if level < threshold:
            return # not worth logging

        event = kwargs
        # kwargs always has 'num'

        if "format" in event:
            pass
        elif "message" in event:
            event['message'] = str(event['message'])
        elif args:
            event['message'], posargs = str(args[0]), args[1:]
            if posargs:
                event['args'] = posargs
        else:
            event['message'] = ""

        if "time" not in event:
            event['time'] = time.time()

        if event.get('stacktrace', False) is True:
            event['stacktrace'] = traceback.format_stack()
        event['incarnation'] = self.incarnation
        self.add_event(facility, level, event)

    def err(self, _stuff=None, _why=None, **kw):
        """
        Write a failure to the log.
        """
        if _stuff is None:
            _stuff = failure.Failure()
        if isinstance(_stuff, failure.Failure):
            return self.msg(failure=_stuff, why=_why, isError=1, **kw)
        elif isinstance(_stuff, Exception):
            return self.msg(failure=failure.Failure(_stuff), why=_why,
                            isError=1, **kw)
        else:
            return self.msg(repr(_stuff), why=_why, isError=1, **kw)

    def add_event(self, facility, level, event):
        # send to observers
        for o in self._immediate_observers:
            o(event)
        for o in self._observers:
            eventual.eventually(o, event)

        # buffer locally
        d1 = self.buffers.get(facility)
        if not d1:
            d1 = self.buffers[facility] = {}
        buffer = d1.get(level)
        if not buffer:
            buffer = d1[level] = collections.deque()
        buffer.append(event)

        # enforce size limits on local buffers
        d2 = self.buffer_sizes.get(facility)
        if d2:
            sizelimit = d2.get(level, self.DEFAULT_SIZELIMIT)
        else:
            sizelimit = self.DEFAULT_SIZELIMIT
        while len(buffer) > sizelimit:
            buffer.popleft()

        # check with incident reporter. This is done synchronously rather
        # than via the usual eventual-send to allow the application to do:
        #  log.msg("abandon ship", level=log.BAD)
        #  sys.exit(1)
        #
        # This means the IncidentReporter will do most of its work right
        # here. The reporter is not allowed to make any foolscap calls, and
        # the call to incident_recorded() is required to pass through an
        # eventual-send.

        if self.active_incident_qualifier:
            # this might call declare_incident
            self.active_incident_qualifier.event(event)

    def declare_incident(self, triggering_event):
        self.incidents_declared += 1
        ir = self.get_active_incident_reporter()
        if ir:
            ir.new_trigger(triggering_event)
            return
        if self.logdir: # just in case
            ir = self.incident_reporter_factory(self.logdir, self, "local")
            self.active_incident_reporter_weakref = weakref.ref(ir)
            ir.incident_declared(triggering_event) # this takes a few seconds

    def incident_recorded(self, filename, name, trigger):
        # 'name' is incident-TIMESTAMP-UNIQUE, whereas filename is an
        # absolute pathname to the NAME.flog.bz2 file.
        self.incidents_recorded += 1
        self.recent_recorded_incidents.append(filename)
        while len(self.recent_recorded_incidents) > self.MAX_RECORDED_INCIDENTS:
            self.recent_recorded_incidents.pop(0)
        # publish these to interested parties
        for o in self._immediate_incident_observers:
            o(name, trigger)

    def get_active_incident_reporter(self):
        if self.active_incident_reporter_weakref:
            ir = self.active_incident_reporter_weakref()
            if ir and ir.is_active():
                return ir
        return None

    def setLogPort(self, logport):
        self._logport = logport
    def getLogPort(self):
        return self._logport

    def get_buffered_events(self):
        # iterates over all current log events in no particular order. The
        # caller should sort them by event number. If this isn't iterated
        # quickly enough, more events may arrive.
        for facility,b1 in self.buffers.items():
            for level,q in b1.items():
                for event in q:
                    yield event


theLogger = FoolscapLogger()

# def msg(stuff):
msg = theLogger.msg
err = theLogger.err
setLogDir = theLogger.setLogDir
explain_facility = theLogger.explain_facility
set_buffer_size = theLogger.set_buffer_size
set_generation_threshold = theLogger.set_generation_threshold
get_generation_threshold = theLogger.get_generation_threshold

# code to bridge twisted.python.log.msg() to foolscap

class TwistedLogBridge:
    def __init__(self, tubID=None, foolscap_logger=theLogger):
        self.tubID = tubID
        self.logger = foolscap_logger

    # we currently depend on Twisted >= 10.1.0, so we can use
    # t.p.log.textFromEventDict . However we cannot add ourselves as a
    # new-style observer (t.l.globalLogPublisher.addObserver()) because that
    # wasn't added until 15.2.0. So even on newer Twisteds, we'll be wrapped
    # by t.l._legacy.LegacyLogObserverWrapper

    def observer(self, d):
        # Twisted will remove this for us if it fails.
        if "from-foolscap" in d:
            return

        # Twisted-8.2.0's ILogObserver tends to give these keys:
        #  log.msg(): message=*args, system, time, isError=False
        #  log.err() adds: isError=True, failure, why
        # plus any kwargs provided to msg()/err(), like format=

        # With Twisted-15.2.0 we are wrapped by
        # t.l._legacy.LegacyLogObserverWrapper , so we still get those keys,
        # but we'll also see some log_* keys that the new logging system
        # adds. Some of the new keys are non-serializable.

        # So we stringify the Twisted event right now, and produce a new
        # event with a small set of known keys.

        message = twisted_log.textFromEventDict(d)
        kwargs = {'tubID': self.tubID, 'from-twisted': True}

        # log_level was added in 15.2.0
        if "log_level" in d:
            # d["log_level"] might be a non-serializable ConstantString.
            # Transform it into the corresponding (integer) Foolscap log
            # level.
            log_level = d.pop("log_level")
            new_log_level = llmap.get(log_level, log_level)
            if not isinstance(new_log_level, (int, bytes, str, bool)):
                # it was something weird: just stringify it in-place
                new_log_level = str(new_log_level)
            kwargs["level"] = new_log_level # foolscap level, not twisted

        # d["isError"]=1 for pre-15.2.0 calls to t.p.log.err(), and is
        # synthesized by the LegacyLogObserverWrapper for post-15.2.0 calls
        # when the event includes a Failure or a log_level of "error" or
        # "critical". In post-15.2.0 calls, "time" and "system" are copied
        # from log_time and log_system, and "log_namespace" seems pretty
        # useful.
        for k in ["isError", "why", "time", "system", "log_namespace"]:
            if k in d:
                kwargs[k] = d[k]
        # we don't copy d["failure"] or d["why"], because its text should
        # already be copied into "message".

        self.logger.msg(message, **kwargs)

_bridges = {} # maps (twisted_logger,foolscap_logger) to TwistedLogBridge

def bridgeLogsFromTwisted(tubID=None,
                          twisted_logger=twisted_log.theLogPublisher,
                          foolscap_logger=theLogger):
    """Called without arguments, this arranges for all twisted log messages
    to be bridged into the default foolscap logger.

    I can also be called with a specific twisted and/or foolscap logger,
    mostly for unit tests that don't want to modify the default instances.
    For their benefit, I return the bridge.

    I only add one bridge per (twisted_logger,foolscap_logger) pair, even if
    called multiple times with different TubIDs, so multiple Tubs in a single
    process that all call tub.setOption(bridge-twisted-logs) will only see
    one foolscap copy of each twisted event, with the first Tub's tubID.
    """
    key = (twisted_logger, foolscap_logger)
    if key not in _bridges:
        tlb = TwistedLogBridge(tubID, foolscap_logger)
        _bridges[key] = tlb
        twisted_logger.addObserver(tlb.observer)
    return _bridges[key]

def unbridgeLogsFromTwisted(twisted_logger, tlb):
    # for tests
    foolscap_logger = tlb.logger
    key = (twisted_logger, foolscap_logger)
    del _bridges[key]
    twisted_logger.removeObserver(tlb.observer)

def bridgeLogsToTwisted(filter=None,
                        foolscap_logger=theLogger,
                        twisted_logger=twisted_log):
    # foolscap_logger and twisted_logger are for testing purposes
    def non_foolscap_operational_or_better(e):
        if e.get("facility","").startswith("foolscap"):
            return False
        if e['level'] < OPERATIONAL:
            return False
        return True
    if not filter:
        filter = non_foolscap_operational_or_better
    def _to_twisted(event):
        if "from-twisted" in event:
            return
        if not filter(event):
            return
        args = {"from-foolscap": True,
                "num": event["num"],
                "level": event["level"],
                }
        twisted_logger.msg(format_message(event), **args)
    foolscap_logger.addObserver(_to_twisted)

class LogFileObserver:
    def __init__(self, filename, level=OPERATIONAL):
        if filename.endswith(".bz2"):
            # py3: bz2file ignores "b", only accepts bytes, not str
            import bz2
            f = bz2.BZ2File(filename, "w")
        else:
            f = open(filename, "wb")
        self._logFile = f # todo: line_buffering=True ?
        self._level = level
        self._logFile.write(flogfile.MAGIC)
        flogfile.serialize_header(self._logFile,
                                  "log-file-observer",
                                  versions=app_versions.versions,
                                  pid=os.getpid(),
                                  threshold=level)

    def stop_on_shutdown(self):
        from twisted.internet import reactor
        reactor.addSystemEventTrigger("after", "shutdown", self._stop)

    def msg(self, event):
        threshold = self._level
        #if event.get('facility', '').startswith('foolscap'):
        #    threshold = UNUSUAL
        if event['level'] >= threshold:
            flogfile.serialize_wrapper(self._logFile, event,
                                       from_="local", rx_time=time.time())

    def _stop(self):
        self._logFile.close()
        del self._logFile


# remove the key, so any child processes won't try to log to (and thus
# clobber) the same file. This doesn't always seem to work reliably
# (allmydata.test.test_runner.RunNode.test_client uses os.system and the
# child process still has $FLOGFILE set).

_flogfile = os.environ.pop("FLOGFILE", None)
if _flogfile:
    try:
        _floglevel = int(os.environ.get("FLOGLEVEL", str(OPERATIONAL)))
        lfo = LogFileObserver(_flogfile, _floglevel)
        lfo.stop_on_shutdown()
        theLogger.addObserver(lfo.msg)
        #theLogger.set_generation_threshold(UNUSUAL, "foolscap.negotiation")
    except IOError:
        print("FLOGFILE: unable to write to %s, ignoring" % \
              (_flogfile,), file=sys.stderr)

if "FLOGTWISTED" in os.environ:
    bridgeLogsFromTwisted()

if "FLOGTOTWISTED" in os.environ:
    _floglevel = int(os.environ.get("FLOGLEVEL", str(OPERATIONAL)))
    def non_foolscap_FLOGLEVEL_or_better(e):
        if e.get("facility","").startswith("foolscap"):
            return False
        if e['level'] < _floglevel:
            return False
        return True
    bridgeLogsToTwisted(filter=non_foolscap_FLOGLEVEL_or_better)
