import six, os, sys, time, bz2
signal = None
try:
    import signal
except ImportError:
    pass
from zope.interface import implementer
from twisted.internet import reactor, utils, defer
from twisted.python import usage, procutils, filepath, log as tw_log
from twisted.application import service, internet
from foolscap.api import Tub, Referenceable
from foolscap.logging.interfaces import RILogGatherer, RILogObserver
from foolscap.logging.incident import IncidentClassifierBase, TIME_FORMAT
from foolscap.logging import flogfile
from foolscap.util import move_into_place

class BadTubID(Exception):
    pass

class ObsoleteGatherer(Exception):
    pass

class GatheringBase(service.MultiService, Referenceable):
    # requires self.furlFile and self.tacFile to be set on the class, both of
    # which should be relative to the basedir.
    use_local_addresses = True

    def __init__(self, basedir):
        service.MultiService.__init__(self)
        if basedir is None:
            # This instance was created by a gatherer.tac file. Confirm that
            # we're running from the right directory (the one with the .tac
            # file), otherwise we'll put the logfiles in the wrong place.
            basedir = os.getcwd()
            tac = os.path.join(basedir, self.tacFile)
            if not os.path.exists(tac):
                raise RuntimeError("running in the wrong directory")
        self.basedir = basedir
        certFile = os.path.join(self.basedir, "gatherer.pem")
        portfile = os.path.join(self.basedir, "port")
        locationfile = os.path.join(self.basedir, "location")
        furlFile = os.path.join(self.basedir, self.furlFile)

        # Foolscap-0.11.0 was the last release that used
        # automatically-determined listening addresses and ports. New ones
        # (created with "flogtool create-gatherer" or
        # "create-incident-gathererer" now require --location and --port
        # arguments to provide these values. If you really don't want to
        # create a new one, you can write "tcp:3117" (or some other port
        # number of your choosing) to BASEDIR/port, and "tcp:$HOSTNAME:3117"
        # (with your hostname or IP address) to BASEDIR/location

        if (not os.path.exists(portfile) or
            not os.path.exists(locationfile)):
            raise ObsoleteGatherer("Please create a new gatherer, with both "
                                   "--port and --location")
        try:
            with open(portfile, "r") as f:
                port = f.read().strip()
        except EnvironmentError:
            raise ObsoleteGatherer("Please create a new gatherer, with both "
                                   "--port and --location")
        try:
            with open(locationfile, "r") as f:
                location = f.read().strip()
        except EnvironmentError:
            raise ObsoleteGatherer("Please create a new gatherer, with both "
                                   "--port and --location")

        self._tub = Tub(certFile=certFile)
        self._tub.setServiceParent(self)
        self._tub.listenOn(port)
        self._tub.setLocation(location)

        self.my_furl = self._tub.registerReference(self, furlFile=furlFile)
        if self.verbose:
            print("Gatherer waiting at:", self.my_furl)

class CreateGatherOptions(usage.Options):
    """flogtool create-gatherer GATHERER_DIRECTORY"""
    stdout = sys.stdout
    stderr = sys.stderr

    optFlags = [
        ("bzip", "b", "Compress each output file with bzip2"),
        ("quiet", "q", "Don't print instructions to stdout"),
        ]
    optParameters = [
        ("port", "p", "tcp:3117", "TCP port to listen on (strports string)"),
        ("location", "l", None, "(required) Tub location hints to use in generated FURLs. e.g. 'tcp:example.org:3117'"),
        ("rotate", "r", None,
         "Rotate the output file every N seconds."),
        ]

    def opt_port(self, port):
        assert not port.startswith("ssl:")
        assert port != "tcp:0"
        self["port"] = port
    def parseArgs(self, gatherer_dir):
        self["basedir"] = gatherer_dir
    def postOptions(self):
        if not self["location"]:
            raise usage.UsageError("--location= is mandatory")


@implementer(RILogObserver)
class Observer(Referenceable):
    def __init__(self, nodeid_s, gatherer):
        self.nodeid_s = nodeid_s # printable string
        self.gatherer = gatherer

    def remote_msg(self, d):
        self.gatherer.msg(self.nodeid_s, d)

@implementer(RILogGatherer)
class GathererService(GatheringBase):
    # create this with 'flogtool create-gatherer BASEDIR'
    # run this as 'cd BASEDIR && twistd -y gatherer.tac'

    """Run a service that gathers logs from multiple applications.

    The LogGatherer sits in a corner and receives log events from many
    applications at once. At startup, it runs a Tub and emits the gatherer's
    long-term FURL. You can then configure your applications to connect to
    this FURL when they start and pass it a reference to their LogPublisher.
    The gatherer will subscribe to the publisher and save all the resulting
    messages in a serialized flogfile.

    Applications can use code like the following to create a LogPublisher and
    pass it to the gatherer::

     def tub_ready(self):
         # called when the Tub is available for registerReference
         lp = LogPublisher('logport.furl')
         lp.setServiceParent(self.tub)
         log_gatherer_furl = self.get_config('log_gatherer.furl')
         if log_gatherer_furl:
             self.tub.connectTo(log_gatherer_furl,
                                self._log_gatherer_connected, lp)

     def _log_gatherer_connected(self, rref, lp):
         rref.callRemote('logport', self.nodeid, lp)

    This LogGatherer class is meant to be run by twistd from a .tac file, but
    applications that want to provide the same functionality can just
    instantiate it with a distinct basedir= and call startService.

    """

    verbose = True
    furlFile = "log_gatherer.furl"
    tacFile = "gatherer.tac"

    def __init__(self, rotate, use_bzip, basedir=None):
        GatheringBase.__init__(self, basedir)
        if rotate: # int or None
            rotator = internet.TimerService(rotate, self.do_rotate)
            rotator.setServiceParent(self)
        bzip = None
        if use_bzip:
            bzips = procutils.which("bzip2")
            if bzips:
                bzip = bzips[0]
        self.bzip = bzip
        if signal and hasattr(signal, "SIGHUP"):
            signal.signal(signal.SIGHUP, self._handle_SIGHUP)
        self._savefile = None

    def _handle_SIGHUP(self, *args):
        reactor.callFromThread(self.do_rotate)

    def startService(self):
        # note: the rotator (if any) will fire as soon as startService is
        # called, since TimerService uses now=True. To deal with this,
        # do_rotate() tests self._savefile before doing anything else, and
        # we're careful to upcall to startService before we do the first
        # call to _open_savefile().
        GatheringBase.startService(self)
        now = time.time()
        self._open_savefile(now)

    def format_time(self, when):
        return time.strftime(TIME_FORMAT, time.gmtime(when)) + "Z"

    def _open_savefile(self, now):
        new_filename = "from-%s---to-present.flog" % self.format_time(now)
        self._savefile_name = os.path.join(self.basedir, new_filename)
        self._savefile = open(self._savefile_name, "ab", 0)
        self._savefile.write(flogfile.MAGIC)
        self._starting_timestamp = now
        flogfile.serialize_header(self._savefile, "gatherer",
                                  start=self._starting_timestamp)

    def do_rotate(self):
        if not self._savefile:
            return
        self._savefile.close()
        now = time.time()
        from_time = self.format_time(self._starting_timestamp)
        to_time = self.format_time(now)
        new_name = "from-%s---to-%s.flog" % (from_time, to_time)
        new_name = os.path.join(self.basedir, new_name)
        move_into_place(self._savefile_name, new_name)
        self._open_savefile(now)
        if self.bzip:
            # we spawn an external bzip process because it's easier than
            # using the stdlib bz2 module and spreading the work out over
            # several ticks. We're trying to resume accepting log events
            # quickly here. We don't save the events using BZ2File because
            # the gatherer might be killed at any moment, and BZ2File doesn't
            # flush its output until the file is closed.
            d = utils.getProcessOutput(self.bzip, [new_name], env=os.environ)
            new_name = new_name + ".bz2"
            def _compression_error(f):
                print(f)
            d.addErrback(_compression_error)
            # note that by returning this Deferred, the rotation timer won't
            # start again until the bzip process finishes
        else:
            d = defer.succeed(None)
        d.addCallback(lambda res: new_name)
        return d # for tests

    def remote_logport(self, nodeid, publisher):
        # nodeid is actually a printable string
        nodeid_s = six.ensure_text(nodeid)
        o = Observer(nodeid_s, self)
        d = publisher.callRemote("subscribe_to_all", o)
        d.addCallback(lambda res: None)
        return d # mostly for testing

    def msg(self, nodeid_s, d):
        try:
            flogfile.serialize_wrapper(self._savefile, d,
                                       from_=nodeid_s,
                                       rx_time=time.time())
        except Exception as ex:
            print("GATHERER: unable to serialize %s: %s" % (d, ex))


LOG_GATHERER_TACFILE = """\
# -*- python -*-

# we record the path when 'flogtool create-gatherer' is run, in case flogtool
# was run out of a source tree. This is somewhat fragile, of course.

stashed_path = [
%(path)s]

import sys
needed = [p for p in stashed_path if p not in sys.path]
sys.path = needed + sys.path

from foolscap.logging import gatherer
from twisted.application import service

rotate = %(rotate)s
use_bzip = %(use_bzip)s
gs = gatherer.GathererService(rotate, use_bzip)
application = service.Application('log_gatherer')
gs.setServiceParent(application)
"""

def create_log_gatherer(config):
    basedir = config["basedir"]
    stdout = config.stdout

    assert config["port"]
    assert config["location"]

    if not os.path.exists(basedir):
        os.makedirs(basedir)

    f = open(os.path.join(basedir, "port"), "w")
    f.write("%s\n" % config["port"])
    f.close()

    f = open(os.path.join(basedir, "location"), "w")
    f.write("%s\n" % config["location"])
    f.close()

    f = open(os.path.join(basedir, "gatherer.tac"), "w")
    stashed_path = ""
    for p in sys.path:
        stashed_path += "  %r,\n" % p
    if config["rotate"]:
        rotate = config["rotate"]
    else:
        rotate = "None"
    f.write(LOG_GATHERER_TACFILE % { 'path': stashed_path,
                                     'rotate': rotate,
                                     'use_bzip': bool(config["bzip"]),
                                     })
    f.close()
    if not config["quiet"]:
        print("Gatherer created in directory %s" % basedir, file=stdout)
        print("Now run '(cd %s && twistd -y gatherer.tac)' to launch the daemon" % basedir, file=stdout)


###################
# Incident Gatherer


class CreateIncidentGatherOptions(usage.Options):
    """flogtool create-incident-gatherer BASEDIR"""
    stdout = sys.stdout
    stderr = sys.stderr

    optFlags = [
        ("quiet", "q", "Don't print instructions to stdout"),
        ]
    optParameters = [
        ("port", "p", "tcp:3118", "TCP port to listen on (strports string)"),
        ("location", "l", None, "(required) Tub location hints to use in generated FURLs. e.g. 'tcp:example.org:3118'"),
        ]

    def opt_port(self, port):
        assert not port.startswith("ssl:")
        assert port != "tcp:0"
        self["port"] = port
    def parseArgs(self, basedir):
        self["basedir"] = basedir
    def postOptions(self):
        if not self["location"]:
            raise usage.UsageError("--location= is mandatory")


@implementer(RILogObserver)
class IncidentObserver(Referenceable):
    def __init__(self, basedir, tubid_s, gatherer, publisher, stdout):
        if not os.path.isdir(basedir):
            os.makedirs(basedir)
        self.basedir = filepath.FilePath(basedir)
        self.tubid_s = tubid_s # printable string
        self.gatherer = gatherer
        self.publisher = publisher
        self.stdout = stdout
        self.caught_up_d = defer.Deferred()
        self.incidents_wanted = []
        self.incident_fetch_outstanding = False

    def connect(self):
        # look for a local state file, to see what incidents we've already
        # got
        statefile = self.basedir.child("latest").path
        latest = ""
        try:
            if not os.path.islink(statefile):
                latest = open(statefile, "r").read().strip()
        except EnvironmentError:
            pass
        print("connected to %s, last known incident is %s" \
              % (self.tubid_s, latest), file=self.stdout)
        # now subscribe to everything since then
        d = self.publisher.callRemote("subscribe_to_incidents", self,
                                      catch_up=True,
                                      since=six.ensure_binary(latest))
        # for testing, we arrange for this Deferred (which governs the return
        # from remote_logport) to not fire until we've finished catching up
        # on all incidents.
        d.addCallback(lambda res: self.caught_up_d)
        return d

    def remote_new_incident(self, name, trigger):
        # name= should look like "incident-2008-07-29-204211-aspkxoi". We
        # prevent name= from containing path metacharacters like / or : by
        # using FilePath later on.
        name = six.ensure_str(name)
        self.incidents_wanted.append( (name, trigger) )
        self.maybe_fetch_incident()

    def maybe_fetch_incident(self):
        # only fetch one incident at a time, to keep the sender's outbound
        # memory usage to a reasonable level
        if self.incident_fetch_outstanding:
            return
        if not self.incidents_wanted:
            return
        self.incident_fetch_outstanding = True
        (name, trigger) = self.incidents_wanted.pop(0)
        print("fetching incident", str(name), file=self.stdout)
        d = self.publisher.callRemote("get_incident", six.ensure_binary(name))
        def _clear_outstanding(res):
            self.incident_fetch_outstanding = False
            return res
        d.addBoth(_clear_outstanding)
        d.addCallback(self._got_incident, name, trigger)
        d.addErrback(tw_log.err,
                     "IncidentObserver.get_incident or _got_incident")
        d.addBoth(lambda ign: self.maybe_fetch_incident())

    def _got_incident(self, incident, name, trigger):
        # We always save the incident to a .bz2 file.
        fp = self.basedir.child(name) # this prevents evil
        if fp.parent() != self.basedir:
            # "", "." and "a/.." denote the directory itself: the savefile
            # would be created next to it instead of inside it
            raise ValueError("bad incident name %r" % (name,))
        abs_fn = fp.path + ".flog.bz2"
        # we need to record the relative pathname of the savefile, for use by
        # the classifiers (they write it into their output files)
        rel_fn = os.path.join("incidents", self.tubid_s, name) + ".flog.bz2"
        self.save_incident(abs_fn, incident)
        self.update_latest(name)
        self.gatherer.new_incident(abs_fn, rel_fn, self.tubid_s, incident)

    def save_incident(self, filename, incident):
        now = time.time()
        (header, events) = incident
        if os.path.islink(filename):
            # never write through a symlink that is already there
            os.unlink(filename)
        f = bz2.BZ2File(filename, "w")
        f.write(flogfile.MAGIC)
        flogfile.serialize_raw_header(f, header)
        for e in events:
            flogfile.serialize_wrapper(f, e, from_=self.tubid_s, rx_time=now)
        f.close()

    def update_latest(self, name):
        latest_fn = self.basedir.child("latest").path
        if os.path.islink(latest_fn):
            os.unlink(latest_fn)
        f = open(latest_fn, "w")
        f.write(name + "\n")
        f.close()

    def remote_done_with_incident_catchup(self):
        self.caught_up_d.callback(None)
        return None

@implementer(RILogGatherer)
class IncidentGathererService(GatheringBase, IncidentClassifierBase):
    # create this with 'flogtool create-incident-gatherer BASEDIR'
    # run this as 'cd BASEDIR && twistd -y gatherer.tac'

    """Run a service that gathers Incidents from multiple applications.

    The IncidentGatherer sits in a corner and receives incidents from many
    applications at once. At startup, it runs a Tub and emits the gatherer's
    long-term FURL. You can then configure your applications to connect to
    this FURL when they start and pass it a reference to their LogPublisher.
    The gatherer will subscribe to the publisher and save all the resulting
    incidents in the incidents/ directory, organized by the publisher's
    tubid. The gatherer will also run a set of user-supplied classifier
    functions on the incidents and put the filenames (one line per incident)
    into files in the categories/ directory.

    This IncidentGatherer class is meant to be run as a standalone service
    from bin/flogtool, but by careful subclassing and setup it could be run
    as part of some other application.

    """

    verbose = True
    furlFile = "log_gatherer.furl"
    tacFile = "gatherer.tac"

    def __init__(self, classifiers=[], basedir=None, stdout=None):
        GatheringBase.__init__(self, basedir)
        IncidentClassifierBase.__init__(self)
        self.classifiers.extend(classifiers)
        self.stdout = stdout
        self.incidents_received = 0 # for tests


    def startService(self):
        indir = os.path.join(self.basedir, "incidents")
        if not os.path.isdir(indir):
            os.makedirs(indir)
        outputdir = os.path.join(self.basedir, "classified")
        if not os.path.isdir(outputdir):
            os.makedirs(outputdir)
        self.add_classify_files(self.basedir)
        self.classify_stored_incidents(indir)
        GatheringBase.startService(self)

    def classify_stored_incidents(self, indir):
        stdout = self.stdout or sys.stdout
        print("classifying stored incidents", file=stdout)
        # now classify all stored incidents that aren't already classified
        already = set()
        outputdir = os.path.join(self.basedir, "classified")
        for category in os.listdir(outputdir):
            for line in open(os.path.join(outputdir, category), "r"):
                fn = line.strip()
                abs_fn = os.path.join(self.basedir, fn)
                already.add(abs_fn)
        print("%d incidents already classified" % len(already), file=stdout)
        count = 0
        for tubid_s in os.listdir(indir):
            nodedir = os.path.join(indir, tubid_s)
            for fn in os.listdir(nodedir):
                if fn.startswith("incident-"):
                    abs_fn = os.path.join(nodedir, fn)
                    if abs_fn in already:
                        continue
                    incident = self.load_incident(abs_fn)
                    rel_fn = os.path.join("incidents", tubid_s, fn)
                    self.move_incident(rel_fn, tubid_s, incident)
                    count += 1
        print("done classifying %d stored incidents" % count, file=stdout)

    def remote_logport(self, nodeid, publisher):
        # we ignore nodeid (which is a printable string), and get the tubid
        # from the publisher remoteReference. getRemoteTubID() protects us
        # from .. and / and other nasties.
        tubid_s = publisher.getRemoteTubID()
        basedir = os.path.join(self.basedir, "incidents", tubid_s)
        stdout = self.stdout or sys.stdout
        o = IncidentObserver(basedir, tubid_s, self, publisher, stdout)
        d = o.connect()
        d.addCallback(lambda res: None)
        return d # mostly for testing

    def new_incident(self, abs_fn, rel_fn, tubid_s, incident):
        self.move_incident(rel_fn, tubid_s, incident)
        self.incidents_received += 1

    def move_incident(self, rel_fn, tubid_s, incident):
        stdout = self.stdout or sys.stdout
        categories = self.classify_incident(incident)
        for c in categories:
            fn = os.path.join(self.basedir, "classified", c)
            f = open(fn, "a")
            f.write(rel_fn + "\n")
            f.close()
        print("classified %s as [%s]" % (rel_fn, ",".join(categories)), file=stdout)
        return categories


INCIDENT_GATHERER_TACFILE = r"""# -*- python -*-

# we record the path when 'flogtool create-incident-gatherer' is run, in case
# flogtool was run out of a source tree. This is somewhat fragile, of course.

stashed_path = [
%(path)s]

import sys
needed = [p for p in stashed_path if p not in sys.path]
sys.path = needed + sys.path

from foolscap.logging import gatherer
from twisted.application import service

gs = gatherer.IncidentGathererService()

# To add a classifier function, store it in a neighboring file named
# classify_*.py, in a function named classify_incident(). All such files will
# be loaded at startup:
#
# %% cat classify_foolscap.py
# import re
# TUBCON_RE = re.compile(r'^Tub.connectorFinished: WEIRD, <foolscap.connection.TubConnector instance at \w+> is not in \[')
# def classify_incident(trigger):
#     # match some foolscap messages
#     m = trigger.get('message', '')
#     if TUBCON_RE.search(m):
#         return 'foolscap-tubconnector'
# %%

application = service.Application('incident_gatherer')
gs.setServiceParent(application)
"""

def create_incident_gatherer(config):
    basedir = config["basedir"]
    stdout = config.stdout

    assert config["port"]
    assert config["location"]

    if not os.path.exists(basedir):
        os.makedirs(basedir)

    f = open(os.path.join(basedir, "port"), "w")
    f.write("%s\n" % config["port"])
    f.close()

    f = open(os.path.join(basedir, "location"), "w")
    f.write("%s\n" % config["location"])
    f.close()

    f = open(os.path.join(basedir, "gatherer.tac"), "w")
    stashed_path = ""
    for p in sys.path:
        stashed_path += "  %r,\n" % p
    f.write(INCIDENT_GATHERER_TACFILE % { 'path': stashed_path,
                                          })
    f.close()
    if not config["quiet"]:
        print("Incident Gatherer created in directory %s" % basedir, file=stdout)
        print("Now run '(cd %s && twistd -y gatherer.tac)' to launch the daemon" % basedir, file=stdout)
