
from zope.interface import Interface
from foolscap.remoteinterface import RemoteInterface
from foolscap.schema import DictOf, ListOf, Any, Optional, ChoiceOf

TubID = Any() # printable, base32 encoded
Incarnation = (Any(), ChoiceOf(Any(), None))
Header = DictOf(Any(), Any())
Event = DictOf(Any(), Any()) # this has message:, level:, facility:, etc
EventWrapper = DictOf(Any(), Any()) # this has from:, rx_time:, and d:

class RILogObserver(RemoteInterface):
    __remote_name__ = "RILogObserver.foolscap.lothar.com"
    def msg(logmsg=Event):
        return None
    def done():
        return None

    def new_incident(name=Any(), trigger=Event):
        # should this give (tubid, incarnation, trigger) like list_incidents?
        return None
    def done_with_incident_catchup():
        return None

class RILogFile(RemoteInterface):
    __remote_name__ = "RILogFile.foolscap.lothar.com"
    def get_header():
        # (tubid, incarnation,
        #  (first_event: number, time), (last_event: number, time),
        #  num_events,
        #  level_map, # maps string severity to count of messages
        # )
        return (TubID, int, (int, int), (int, int), int, DictOf(Any(), int))
    def get_events(receiver=RILogObserver):
        """The designated receiver will be sent every event in the logfile,
        followed by a done() call."""
        return None

class RISubscription(RemoteInterface):
    __remote_name__ = "RISubscription.foolscap.lothar.com"
    def unsubscribe():
        """Cancel a subscription. Once this method has been completed (and
        its Deferred has fired), no further messages will be received by the
        observer (i.e. the response to unsubscribe() will wait until all
        pending messages have been queued).

        This method is idempotent: calling it multiple times has the same
        effect as calling it just once."""
        return None

class RILogPublisher(RemoteInterface):
    __remote_name__ = "RILogPublisher.foolscap.lothar.com"
    def get_versions():
        return DictOf(Any(), Any())
    def get_pid():
        return int

    def subscribe_to_all(observer=RILogObserver,
                         catch_up=Optional(bool, False)):
        """
        Call unsubscribe() on the returned RISubscription object to stop
        receiving messages.
        """
        return RISubscription
    def unsubscribe(subscription=Any()):
        # NOTE: this is deprecated. Use subscription.unsubscribe() instead.
        # I don't know how to get the constraint right: unsubscribe() should
        # accept return value of subscribe_to_all()
        return None

    def enumerate_logfiles():
        return ListOf(RILogFile)

    # Incident support

    def list_incidents(since=Optional(Any(), "")):
        """Return a dict that maps an 'incident name' (a string of the form
        'incident-TIMESTAMP-UNIQUE') to the triggering event (a single event
        dictionary). The incident name can be passed to get_incident() to
        obtain the list of events (including header) contained inside the
        incident report. Incident names will sort in chronological order.

        If the optional since= argument is provided, then this will only
        return incident names that are alphabetically greater (and thus
        chronologically later) than the given string. This can be used to
        poll an application for incidents that have occurred since a previous
        query. For real-time reporting, use subscribe_to_incidents() instead.
        """
        return DictOf(Any(), Event)

    def subscribe_to_incidents(observer=RILogObserver,
                               catch_up=Optional(bool, False),
                               since=Optional(Any(), "")):
        """Subscribe to hear about new Incidents, optionally catching up on
        old ones.

        Each new Incident will be reported by name+trigger to the observer by
        a new_incident() message. This message will be sent after the
        incident reporter has finished working (usually a few seconds after
        the triggering event).

        If catch_up=True, then old Incidents will be sent to the observer
        before any new ones are reported. When the publisher has finished
        sending the names of all old events, it will send a
        done_with_incident_catchup() message to the observer. Only old
        Incidents with a name that is alphabetically greater (and thus later)
        than the since= argument will be sent. Use since='' to catch up on
        all old Incidents.

        Call unsubscribe() on the returned RISubscription object to stop
        receiving messages.
        """
        return RISubscription

    def get_incident(incident_name=Any()):
        """Given an incident name, return the header dict and list of event
        dicts for that incident."""
        # note that this puts all the events in memory at the same time, but
        # we expect the logfiles to be of a reasonable size: not much larger
        # than the circular buffers that we keep around anyways.
        return (Header, ListOf(Event))

class RILogGatherer(RemoteInterface):
    __remote_name__ = "RILogGatherer.foolscap.lothar.com"
    def logport(nodeid=TubID, logport=RILogPublisher):
        return None

class IIncidentReporter(Interface):
    def incident_declared(triggering_event):
        """This is called when an Incident needs to be recorded."""
    def new_trigger(triggering_event):
        """This is called when a triggering event occurs while an incident is
        already being reported. If the event happened later, it would trigger
        a new incident. Since it overlapped with the existing incident, it
        will just be added to that incident.

        The triggering event will also be reported through the usual
        event-publish-subscribe mechanism. This method is provided to give
        the reporter the opportunity to mark the event somehow, for the
        benefit of incident-file analysis tools.
        """
    def is_active():
        """Returns True if the reporter is still running. While in this
        state, new Incident triggers will be passed to the existing reporter
        instead of causing a new Incident to be declared. This will tend to
        coalesce back-to-back problems into a single Incident."""

