import time
import six
from six.moves.urllib.parse import quote
from twisted.internet import reactor, endpoints
from twisted.internet.defer import inlineCallbacks
from twisted.python import usage
from foolscap import base32
from foolscap.eventual import fireEventually
from foolscap.logging import log, flogfile
from foolscap.util import format_time, FORMAT_TIME_MODES, allocate_tcp_port
from twisted.web import server, static, html, resource

class WebViewerOptions(usage.Options):
    synopsis = "Usage: flogtool web-viewer DUMPFILE.flog[.bz2]"

    optFlags = [
        ("quiet", "q", "Don't print instructions to stdout"),
        ("open", "o", "Open the page in your webbrowser automatically"),
        ]

    optParameters = [
        ("port", "p", None,
         "endpoint specification of where the web server should listen."),
        ("timestamps", "t", "short-local",
         "Format for timestamps: " + " ".join(FORMAT_TIME_MODES)),
        ]

    def parseArgs(self, dumpfile):
        self.dumpfile = dumpfile

    def opt_timestamps(self, arg):
        if arg not in FORMAT_TIME_MODES:
            raise usage.UsageError("--timestamps= must be one of (%s)" %
                                   ", ".join(FORMAT_TIME_MODES))
        self["timestamps"] = arg

FLOG_CSS = """
span.MODELINE {
 font-size: 60%;
}
span.NOISY {
 color: #000080;
}
span.OPERATIONAL {
 color: #000000;
}
span.UNUSUAL {
 color: #000000;
 background-color: #ff8080;
}
span.INFREQUENT {
 color: #000000;
 background-color: #ff8080;
}
span.CURIOUS {
 color: #000000;
 background-color: #ff8080;
}
span.WEIRD {
 color: #000000;
 background-color: #ff4040;
}
span.SCARY {
 color: #000000;
 background-color: #ff4040;
}
span.BAD {
 color: #000000;
 background-color: #ff0000;
}

"""

def web_format_time(t, mode="short-local"):
    time_s = format_time(t, mode)
    time_utc = format_time(t, "utc")
    time_local = format_time(t, "long-local")
    time_ctime = time.ctime(t).replace(" ", "&nbsp;")
    extended = "Local=%s  Local=%s  UTC=%s" % (time_ctime, time_local, time_utc)
    return time_s, extended

def web_escape(u):
    return html.escape(six.ensure_str(u))

class Welcome(resource.Resource):
    def __init__(self, viewer, timestamps):
        self.viewer = viewer
        self.default_timestamps = timestamps
        resource.Resource.__init__(self)

    def fromto_time(self, t, timestamps):
        if t is None:
            return "?"
        ign, extended = web_format_time(float(t), timestamps)
        tz = time.strftime("%z", time.localtime(t))
        return '<span title="%s">%s (%s)</span>' % (extended, time.ctime(t), tz)

    def render(self, req):
        timestamps = self.default_timestamps
        data = "<html>"
        data += "<head><title>Foolscap Log Viewer</title></head>\n"
        data += "<body>\n"
        data += "<h1>Foolscap Log Viewer</h1>\n"

        data += "<h2>Logfiles:</h2>\n"
        if self.viewer.logfiles:
            data += "<ul>\n"
            for lfnum,lf in enumerate(self.viewer.logfiles):
                data += " <li>%s:\n" % html.escape(lf)
                data += " <ul>\n"
                ((first_number, first_time),
                 (last_number, last_time),
                 num_events, levels, pid, versions) = self.viewer.summaries[lf]
                # remember: the logfile uses JSON, so all strings will be
                # unicode, and twisted.web requires bytes
                data += "  <li>PID %s</li>\n" % html.escape(str(pid))
                if versions:
                    data += "  <li>Application Versions:\n"
                    data += "   <ul>\n"
                    for name in sorted(versions.keys()):
                        ver = versions[name]
                        data += "    <li>%s: %s</li>\n" % (web_escape(name),
                                                           web_escape(ver))
                    data += "   </ul>\n"
                    data += "  </li>\n"
                if first_time and last_time:
                    duration = int(last_time - first_time)
                else:
                    duration = "?"

                data += ("  <li>%s events covering %s seconds</li>\n" %
                         (num_events, duration))

                from_time_s = self.fromto_time(float(first_time), timestamps)
                to_time_s = self.fromto_time(float(last_time), timestamps)
                data += '  <li>from %s to %s</li>\n' % (from_time_s, to_time_s)
                for level in sorted(levels.keys()):
                    data += ('  <li><a href="summary/%d-%d">%d events</a> '
                             'at level %s</li>\n' %
                             (lfnum, level, len(levels[level]),
                              level))
                if self.viewer.triggers:
                    data += " <li>Incident Triggers:\n"
                    data += "  <ul>\n"
                    for t in self.viewer.triggers:
                        le = self.viewer.number_map[t]
                        data += "   <li>"
                        href_base = "/all-events?timestamps=%s" % timestamps
                        data += le.to_html(href_base, timestamps)
                        data += "   </li>\n"
                    data += "  </ul>\n"
                    data += " </li>\n"
                data += " </ul>\n"
            data += "</ul>\n"
        else:
            data += "none!"

        data += '<h2><a href="all-events?timestamps=%s">' % timestamps
        data += 'View All Events</a></h2>\n'
        data += '<form action="reload" method="post">\n'
        data += ' <input type="submit" value="Reload Logfile" />\n'
        data += '</form>\n'

        data += "</body></html>"
        req.setHeader("content-type", "text/html")
        return six.ensure_binary(data)

class Summary(resource.Resource):
    def __init__(self, viewer):
        self._viewer = viewer
        resource.Resource.__init__(self)

    def getChild(self, path, req):
        if b"-" in path:
            lfnum,levelnum = list(map(int, path.split(b"-")))
            lf = self._viewer.logfiles[lfnum]
            (first, last, num_events, levels,
             pid, versions) = self._viewer.summaries[lf]
            events = levels[levelnum]
            return SummaryView(events, levelnum)
        return resource.Resource.getChild(self, path, req)

class SummaryView(resource.Resource):
    def __init__(self, events, levelnum):
        self._events = events
        self._levelnum = levelnum
        resource.Resource.__init__(self)

    def render(self, req):
        data = "<html>"
        data += "<head><title>Foolscap Log Viewer</title>\n"
        data += '<link href="flog.css" rel="stylesheet" type="text/css" />'
        data += "</head>\n"
        data += "<body>\n"
        data += "<h1>Events at level %d</h1>\n" % self._levelnum

        data += "<ul>\n"
        for e in self._events:
            data += "<li>" + e.to_html("/all-events") + "</li>\n"
        data += "</ul>\n"
        data += "</body>\n"
        data += "</html>\n"
        return six.ensure_binary(data)



class EventView(resource.Resource):
    def __init__(self, viewer):
        self.viewer = viewer
        resource.Resource.__init__(self)

    def render(self, req):
        sortby = req.args.get("sort", ["nested"])[0]
        timestamps = req.args.get("timestamps", ["short-local"])[0]

        data = "<html>"
        data += "<head><title>Foolscap Log Viewer</title>\n"
        data += '<link href="flog.css" rel="stylesheet" type="text/css" />'
        data += "</head>\n"
        data += "<body>\n"
        data += "<h1>Event Log</h1>\n"

        data += "%d root events " % len(self.viewer.root_events)

        url = "/all-events?sort=%s" % sortby
        other_timestamps = ['<a href="%s&timestamps=short-local">local</a>' % url,
                            '<a href="%s&timestamps=utc">utc</a>' % url]
        url = "/all-events?timestamps=%s" % timestamps
        other_sortby = ['<a href="%s&sort=nested">nested</a>' % url,
                        '<a href="%s&sort=number">number</a>' % url,
                        '<a href="%s&sort=time">time</a>' % url]
        modeline = ''.join(['<span class="MODELINE">',
                            'timestamps=%s ' % timestamps,
                            '(switch to %s) ' % ", ".join(other_timestamps),
                            'sort=%s ' % sortby,
                            '(switch to %s)' % ", ".join(other_sortby),
                            '</span>\n'])
        data += modeline

        data += "<ul>\n"
        if sortby == "nested":
            for e in self.viewer.root_events:
                data += self._emit_events(0, e, timestamps)
        elif sortby == "number":
            numbers = sorted(self.viewer.number_map.keys())
            for n in numbers:
                e = self.viewer.number_map[n]
                data += '<li><span class="%s">' % e.level_class()
                data += e.to_html(timestamps=timestamps)
                data += '</span></li>\n'
        elif sortby == "time":
            events = list(self.viewer.number_map.values())
            events.sort(key=lambda a: a.e['d']['time'])
            for e in events:
                data += '<li><span class="%s">' % e.level_class()
                data += e.to_html(timestamps=timestamps)
                data += '</span></li>\n'
        else:
            data += "<b>unknown sort argument '%s'</b>\n" % sortby

        data += "</ul>\n"
        req.setHeader("content-type", "text/html")
        return six.ensure_binary(data)

    def _emit_events(self, indent, event, timestamps):
        indent_s = " " * indent
        data = (indent_s
                + '<li><span class="%s">' % event.level_class()
                + event.to_html(timestamps=timestamps)
                + "</span></li>\n"
                )
        if event.children:
            data += indent_s + "<ul>\n"
            for child in event.children:
                data += self._emit_events(indent+1, child, timestamps)
            data += indent_s + "</ul>\n"
        return data


class LogEvent:
    def __init__(self, e):
        self.e = e
        self.parent = None
        self.children = []
        self.index = None
        self.anchor_index = "no-number"
        self.incarnation = base32.encode(e['d']['incarnation'][0].encode("utf-8"))
        if 'num' in e['d']:
            self.index = (e['from'], e['d']['num'])
            self.anchor_index = "%s_%s_%d" % (quote(e['from'].encode("utf-8")),
                                              self.incarnation.encode("utf-8"),
                                              e['d']['num'])
        self.parent_index = None
        if 'parent' in e['d']:
            self.parent_index = (e['from'], e['d']['parent'])
        self.is_trigger = False

    LEVELMAP = {
        log.NOISY: "NOISY",
        log.OPERATIONAL: "OPERATIONAL",
        log.UNUSUAL: "UNUSUAL",
        log.INFREQUENT: "INFREQUENT",
        log.CURIOUS: "CURIOUS",
        log.WEIRD: "WEIRD",
        log.SCARY: "SCARY",
        log.BAD: "BAD",
        }

    def level_class(self):
        level = self.e['d'].get('level', log.OPERATIONAL)
        return self.LEVELMAP.get(level, "UNKNOWN")

    def to_html(self, href_base="", timestamps="short-local"):
        # this must return bytes to satisfy twisted.web, but the logfile is
        # JSON so we get unicode here
        d = self.e['d']
        time_short, time_extended = web_format_time(d['time'], timestamps)
        msg = web_escape(log.format_message(d))
        if 'failure' in d:
            lines = str(d['failure']).split("\n")
            html_lines = [web_escape(line) for line in lines]
            f_html = "\n".join(html_lines)
            msg += " FAILURE:<pre>%s</pre>" % f_html
        level = d.get('level', log.OPERATIONAL)
        level_s = ""
        if level >= log.UNUSUAL:
            level_s = self.LEVELMAP.get(level, "") + " "
        details = "  ".join(["Event #%d" % d['num'],
                             "TubID=%s" % web_escape(self.e['from']),
                             "Incarnation=%s" % web_escape(self.incarnation),
                             time_extended])
        label = '<span title="%s">%s</span>' % (details, time_short)
        data = '%s [<span id="E%s"><a href="%s#E%s">%d</a></span>]: %s%s' \
               % (label,
                  self.anchor_index, href_base, self.anchor_index, d['num'],
                  level_s, msg)
        if self.is_trigger:
            data += " [INCIDENT-TRIGGER]"
        return data

class Reload(resource.Resource):

    def __init__(self, viewer):
        self.viewer = viewer
        resource.Resource.__init__(self)

    def render_POST(self, req):
        self.viewer.load_logfiles()
        req.redirect("/")
        return b''

class WebViewer:

    def run(self, options):
        d = fireEventually(options)
        d.addCallback(self.start)
        d.addErrback(self._error)
        print("starting..")
        reactor.run()

    def _error(self, f):
        print("ERROR", f)
        reactor.stop()

    @inlineCallbacks
    def start(self, options):
        root = static.Data("placeholder", "text/plain")
        welcome = Welcome(self, options["timestamps"])
        root.putChild(b"", welcome)
        root.putChild(b"welcome", welcome) # we used to only do this
        root.putChild(b"reload", Reload(self))
        root.putChild(b"all-events", EventView(self))
        root.putChild(b"summary", Summary(self))
        root.putChild(b"flog.css", static.Data(six.ensure_binary(FLOG_CSS), "text/css"))
        s = server.Site(root)

        port = options["port"]
        if not port:
            port = "tcp:%d:interface=127.0.0.1" % allocate_tcp_port()
        ep = endpoints.serverFromString(reactor, port)
        self.lp = yield ep.listen(s)
        portnum = self.lp.getHost().port
        # TODO: this makes all sort of assumptions: HTTP-vs-HTTPS, localhost.
        url = "http://localhost:%d/" % portnum

        if not options["quiet"]:
            print("scanning..")
        self.logfiles = [options.dumpfile]
        self.load_logfiles()

        if not options["quiet"]:
            print("please point your browser at:")
            print(url)
        if options["open"]:
            import webbrowser
            webbrowser.open(url)

        return url # for tests

    def stop(self):
        return self.lp.stopListening()

    def load_logfiles(self):
        #self.summary = {} # keyed by logfile name
        (self.summaries,
         self.root_events,
         self.number_map,
         self.triggers) = self.process_logfiles(self.logfiles)

    def process_logfiles(self, logfiles):
        summaries = {}
        # build up a tree of events based upon parent/child relationships
        number_map = {}
        roots = []
        trigger_numbers = []
        first_event_from = None

        for lf in logfiles:
            (first_event_number, first_event_time) = (None, None)
            (last_event_number, last_event_time) = (None, None)
            num_events = 0
            levels = {}
            pid = None

            for e in flogfile.get_events(lf):
                if "header" in e:
                    h = e["header"]
                    if h["type"] == "incident":
                        t = h["trigger"]
                        trigger_numbers.append(t["num"])
                    pid = h.get("pid")
                    versions = h.get("versions", {})
                if "d" not in e:
                    continue # skip headers
                if not first_event_from:
                    first_event_from = e['from']
                le = LogEvent(e)
                if le.index:
                    number_map[le.index] = le
                if le.parent_index in number_map:
                    le.parent = number_map[le.parent_index]
                    le.parent.children.append(le)
                else:
                    roots.append(le)
                d = e['d']
                level = d.get("level", "NORMAL")
                number = d.get("num", None)
                when = d.get("time")
                if number in trigger_numbers:
                    le.is_trigger = True

                if False:
                    # this is only meaningful if the logfile contains events
                    # from just a single tub and incarnation, but our current
                    # LogGatherer combines multiple processes' logs into a
                    # single file.
                    if first_event_number is None:
                        first_event_number = number
                    elif number is not None:
                        first_event_number = min(first_event_number, number)

                    if last_event_number is None:
                        last_event_number = number
                    elif number is not None:
                        last_event_number = max(last_event_number, number)

                if first_event_time is None:
                    first_event_time = when
                elif when is not None:
                    first_event_time = min(first_event_time, when)
                if last_event_time is None:
                    last_event_time = when
                elif when is not None:
                    last_event_time = max(last_event_time, when)

                num_events += 1
                if level not in levels:
                    levels[level] = []
                levels[level].append(le)

            summary = ( (first_event_number, first_event_time),
                        (last_event_number, last_event_time),
                        num_events, levels, pid, versions )
            summaries[lf] = summary

        triggers = [(first_event_from, num) for num in trigger_numbers]

        return summaries, roots, number_map, triggers
