
# This module contains all user-visible Constraint subclasses, for
# convenience by user code which is defining RemoteInterfaces. The primitive
# ones are defined in constraint.py, while the constraints associated with
# specific open sequences (list, unicode, etc) are defined in the related
# slicer/list.py module, etc. A few are defined here.

# It also defines the constraintMap and constraintTypeMap, used when
# constructing constraints out of the convenience shorthand. This is used
# when processing the methods defined in a RemoteInterface (such that a
# default argument like x=int gets turned into an IntegerConstraint). New
# slicers that want to add to these mappings can use addToConstraintTypeMap
# or manipulate constraintMap directly.

# this imports slicers and constraints.py, but is not allowed to import any
# other Foolscap modules, to avoid import cycles.

"""
primitive constraints:
   - types.StringType: string with maxLength=1k
   - String(maxLength=1000): string with arbitrary maxLength
   - types.BooleanType: boolean
   - types.IntType: integer that fits in s_int32_t
   - types.LongType: integer with abs(num) < 2**8192 (fits in 1024 bytes)
   - Int(maxBytes=1024): integer with arbitrary maxValue=2**(8*maxBytes)
   - types.FloatType: number
   - Number(maxBytes=1024): float or integer with maxBytes
   - interface: instance which implements (or adapts to) the Interface
   - class: instance of the class or a subclass
   - # unicode? types? none?

container constraints:
   - TupleOf(constraint1, constraint2..): fixed size, per-element constraint
   - ListOf(constraint, maxLength=30): all elements obey constraint
   - DictOf(keyconstraint, valueconstraint): keys and values obey constraints
   - AttributeDict(*attrTuples, ignoreUnknown=False):
      - attrTuples are (name, constraint)
      - ignoreUnknown=True means that received attribute names which aren't
        listed in attrTuples should be ignored instead of raising an
        UnknownAttrName exception

composite constraints:
   - tuple: alternatives: must obey one of the different constraints

modifiers:
   - Shared(constraint, refLimit=None): object may be referenced multiple times
     within the serialization domain (question: which domain?). All
     constraints default to refLimit=1, and a MultiplyReferenced exception
     is raised as soon as the reference count goes above the limit.
     refLimit=None means no limit is enforced.
   - Optional(name, constraint, default=None): key is not required. If not
            provided and default is None, key/attribute will not be created
            Only valid inside DictOf and AttributeDict.

"""

from foolscap.tokens import Violation, UnknownSchemaType, BananaError, \
     tokenNames

# make constraints available in a single location
from foolscap.constraint import Constraint, Any, ByteStringConstraint, \
     IntegerConstraint, NumberConstraint, IConstraint, Optional, Shared
from foolscap.slicers.unicode import UnicodeConstraint
from foolscap.slicers.bool import BooleanConstraint
from foolscap.slicers.dict import DictConstraint
from foolscap.slicers.list import ListConstraint
from foolscap.slicers.set import SetConstraint
from foolscap.slicers.tuple import TupleConstraint
from foolscap.slicers.none import Nothing
#  we don't import RemoteMethodSchema from remoteinterface.py, because
#  remoteinterface.py needs to import us (for addToConstraintTypeMap)
ignored = [Constraint, Any, ByteStringConstraint, UnicodeConstraint,
           IntegerConstraint, NumberConstraint, BooleanConstraint,
           DictConstraint, ListConstraint, SetConstraint, TupleConstraint,
           Nothing, Optional, Shared,
           ] # hush pyflakes

# convenience shortcuts

TupleOf = TupleConstraint
ListOf = ListConstraint
DictOf = DictConstraint
SetOf = SetConstraint


# note: using PolyConstraint (aka ChoiceOf) for inbound tasting is probably
# not fully vetted. One of the issues would be with something like
# ListOf(ChoiceOf(TupleOf(stuff), SetOf(stuff))). The ListUnslicer, when
# handling an inbound Tuple, will do
# TupleUnslicer.setConstraint(polyconstraint), since that's all it really
# knows about, and the TupleUnslicer will then try to look inside the
# polyconstraint for attributes that talk about tuples, and might fail.

class PolyConstraint(Constraint):
    name = "PolyConstraint"

    def __init__(self, *alternatives):
        self.alternatives = [IConstraint(a) for a in alternatives]
        self.alternatives = tuple(self.alternatives)
        # TODO: taster/opentypes should be a union of the alternatives'

    def checkToken(self, typebyte, size):
        ok = False
        for c in self.alternatives:
            try:
                c.checkToken(typebyte, size)
                ok = True
            except (Violation, BananaError):
                pass
        if not ok:
            raise Violation("typebyte %s does not satisfy any of %s"
                            % (tokenNames[typebyte], self.alternatives))

    def checkObject(self, obj, inbound):
        ok = False
        for c in self.alternatives:
            try:
                c.checkObject(obj, inbound)
                ok = True
            except Violation:
                pass
        if not ok:
            raise Violation("object type %s does not satisfy any of %s"
                            % (type(obj), self.alternatives))

ChoiceOf = PolyConstraint

def AnyStringConstraint(*args, **kwargs):
    return ChoiceOf(ByteStringConstraint(*args, **kwargs),
                    UnicodeConstraint(*args, **kwargs))

# keep the old meaning, for now. Eventually StringConstraint should become an
# AnyStringConstraint
StringConstraint = ByteStringConstraint

constraintMap = {
    bytes: ByteStringConstraint(),
    str: UnicodeConstraint(),
    bool: BooleanConstraint(),
    int: IntegerConstraint(maxBytes=1024),
    float: NumberConstraint(),
    None: Nothing(),
    }

# we don't maintain compatibility for constraints defined by types. Back in
# the py2-only days, 'int' meant a 32-bit signed integer, 'long' meant
# fit-in-1024-bytes. The new rule is that 'int' means fit-in-1024-bytes (and
# there is no 'long' in py3, of course). To get a 32-bit signed integer
# constraint, use Int(maxBytes=-1).

# This module provides a function named addToConstraintTypeMap() which helps
# to resolve some import cycles.

constraintTypeMap = []
def addToConstraintTypeMap(typ, constraintMaker):
    constraintTypeMap.insert(0, (typ, constraintMaker))

def _tupleConstraintMaker(t):
    return TupleConstraint(*t)
addToConstraintTypeMap(tuple, _tupleConstraintMaker)

# this function transforms the simple syntax (as used in RemoteInterface
# method definitions) into Constraint instances. This function is registered
# as a zope.interface adapter hook, so that once we've been loaded, other
# code can just do IConstraint(stuff) and expect it to work.

def adapt_obj_to_iconstraint(iface, t):
    if iface is not IConstraint:
        return None
    assert not IConstraint.providedBy(t) # not sure about this

    c = constraintMap.get(t, None)
    if c:
        return c

    for (typ, constraintMaker) in constraintTypeMap:
        if isinstance(t, typ):
            c = constraintMaker(t)
            if c:
                return c

    # RIFoo means accept either a Referenceable that implements RIFoo, or a
    # RemoteReference that points to just such a Referenceable. This is
    # hooked in by remoteinterface.py, when it calls addToConstraintTypeMap

    # we are the only way to make constraints
    raise UnknownSchemaType("can't make constraint from '%s' (%s)" %
                            (t, type(t)))

from zope.interface.interface import adapter_hooks
adapter_hooks.append(adapt_obj_to_iconstraint)


# how to accept "([(ref0" ?
# X = "TupleOf(ListOf(TupleOf(" * infinity
# ok, so you can't write a constraint that accepts it. I'm ok with that.
