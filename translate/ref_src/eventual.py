# -*- test-case-name: foolscap.test.test_eventual -*-

from twisted.internet import reactor, defer
from twisted.python import log

class _SimpleCallQueue(object):
    # XXX TODO: merge epsilon.cooperator in, and make this more complete.
    def __init__(self):
        self._events = []
        self._flushObservers = []
        self._timer = None
        self._in_turn = False

    def append(self, cb, args, kwargs):
        self._events.append((cb, args, kwargs))
        if not self._timer:
            self._timer = reactor.callLater(0, self._turn)

    def _turn(self):
        self._timer = None
        # flush all the messages that are currently in the queue. If anything
        # gets added to the queue while we're doing this, those events will
        # be put off until the next turn.
        events, self._events = self._events, []
        self._in_turn = True
        for cb, args, kwargs in events:
            try:
                cb(*args, **kwargs)
            except:
                log.err()
        self._in_turn = False
        # an observer's callback may enqueue new events: the remaining
        # observers then wait for the turn which that scheduled
        while self._flushObservers and not self._events:
            self._flushObservers.pop(0).callback(None)

    def flush(self):
        """Return a Deferred that will fire (with None) when the call queue
        is completely empty."""
        if not self._events and not self._in_turn:
            return defer.succeed(None)
        d = defer.Deferred()
        self._flushObservers.append(d)
        return d


_theSimpleQueue = _SimpleCallQueue()

def eventually(cb, *args, **kwargs):
    """This is the eventual-send operation, used as a plan-coordination
    primitive. The callable will be invoked (with args and kwargs) in a later
    reactor turn. Doing 'eventually(a); eventually(b)' guarantees that a will
    be called before b.

    Any exceptions that occur in the callable will be logged with log.err().
    If you really want to ignore them, be sure to provide a callable that
    catches those exceptions.

    This function returns None. If you care to know when the callable was
    run, be sure to provide a callable that notifies somebody.
    """
    _theSimpleQueue.append(cb, args, kwargs)


def fireEventually(value=None):
    """This returns a Deferred which will fire in a later reactor turn, after
    the current call stack has been completed, and after all other deferreds
    previously scheduled with callEventually().
    """
    d = defer.Deferred()
    eventually(d.callback, value)
    return d

def flushEventualQueue(_ignored=None):
    """This returns a Deferred which fires when the eventual-send queue is
    finally empty. This is useful to wait upon as the last step of a Trial
    test method.
    """
    return _theSimpleQueue.flush()
