import six
from twisted.python import failure, reflect, log as twlog
from twisted.internet import defer

from foolscap import copyable, slicer, tokens
from foolscap.copyable import AttributeDictConstraint
from foolscap.constraint import ByteStringConstraint
from foolscap.slicers.list import ListConstraint
from .tokens import BananaError, Violation
from foolscap.util import AsyncAND
from foolscap.logging import log

def wrap_remote_failure(f):
    return failure.Failure(tokens.RemoteException(f))

class FailureConstraint(AttributeDictConstraint):
    opentypes = [("copyable", "twisted.python.failure.Failure")]
    name = "FailureConstraint"
    klass = failure.Failure

    def __init__(self):
        attrs = [('type', ByteStringConstraint(200)),
                 ('value', ByteStringConstraint(1000)),
                 ('traceback', ByteStringConstraint(2000)),
                 ('parents', ListConstraint(ByteStringConstraint(200))),
                 ]
        AttributeDictConstraint.__init__(self, *attrs)

    def checkObject(self, obj, inbound):
        if not isinstance(obj, self.klass):
            raise Violation("is not an instance of %s" % self.klass)


class PendingRequest(object):
    # this object is a local representation of a message we have sent to
    # someone else, that will be executed on their end.
    active = True

    def __init__(self, reqID, rref, interface_name, method_name):
        self.reqID = reqID
        self.rref = rref # keep it alive
        self.broker = None # if set, the broker knows about us
        self.deferred = defer.Deferred()
        self.constraint = None # this constrains the results
        self.failure = None
        self.interface_name = interface_name # for error messages
        self.method_name = method_name # same

    def setConstraint(self, constraint):
        self.constraint = constraint

    def getMethodNameInfo(self):
        return (self.interface_name, self.method_name)

    def complete(self, res):
        if self.broker:
            self.broker.removeRequest(self)
        if self.active:
            self.active = False
            self.deferred.callback(res)
        else:
            log.msg("PendingRequest.complete called on an inactive request")

    def fail(self, why):
        if self.active:
            if self.broker:
                self.broker.removeRequest(self)
            self.active = False
            self.failure = why
            if (self.broker and
                self.broker.tub and
                self.broker.tub.logRemoteFailures):

                my_short_tubid = "??"
                if self.broker.tub: # for tests
                    my_short_tubid = self.broker.tub.getShortTubID()
                their_short_tubid = self.broker.remote_tubref.getShortTubID()

                lp = log.msg("an outbound callRemote (that we [%s] sent to "
                             "someone else [%s]) failed on the far end"
                             % (my_short_tubid, their_short_tubid),
                             level=log.UNUSUAL)
                methname = ".".join([self.interfaceName or "?",
                                     self.methodName or "?"])
                log.msg(" reqID=%d, rref=%s, methname=%s"
                        % (self.reqID, self.rref, methname),
                        level=log.NOISY, parent=lp)
                #stack = why.getTraceback()
                # TODO: include the first few letters of the remote tubID in
                # this REMOTE tag
                #stack = "REMOTE: " + stack.replace("\n", "\nREMOTE: ")
                log.msg(" the REMOTE failure was:", failure=why,
                        level=log.NOISY, parent=lp)
                #log.msg(stack, level=log.NOISY, parent=lp)
            self.deferred.errback(why)
        else:
            log.msg("WEIRD: fail() on an inactive request", traceback=True)
            if self.failure:
                log.msg("multiple failures")
                log.msg("first one was:", self.failure)
                log.msg("this one was:", why)
                log.err("multiple failures indicate a problem")

class ArgumentSlicer(slicer.ScopedSlicer):
    opentype = ('arguments',)

    def __init__(self, args, kwargs, methodname="?"):
        slicer.ScopedSlicer.__init__(self, None)
        self.args = args
        self.kwargs = kwargs
        self.which = ""
        self.methodname = methodname

    def sliceBody(self, streamable, banana):
        yield len(self.args)
        for i,arg in enumerate(self.args):
            self.which = "arg[%d]-of-%s" % (i, self.methodname)
            yield arg
        keys = list(self.kwargs.keys())
        keys.sort()
        for argname in keys:
            self.which = "arg[%s]-of-%s" % (argname, self.methodname)
            yield six.ensure_binary(argname)
            yield self.kwargs[argname]

    def describe(self):
        return "<%s>" % self.which


class CallSlicer(slicer.ScopedSlicer):
    opentype = ('call',)

    def __init__(self, reqID, clid, methodname, args, kwargs):
        slicer.ScopedSlicer.__init__(self, None)
        self.reqID = reqID
        self.clid = clid
        self.methodname = methodname
        self.args = args
        self.kwargs = kwargs

    def sliceBody(self, streamable, banana):
        yield self.reqID
        yield self.clid
        yield six.ensure_binary(self.methodname)
        yield ArgumentSlicer(self.args, self.kwargs, self.methodname)

    def describe(self):
        return "<call-%s-%s-%s>" % (self.reqID, self.clid, self.methodname)

class InboundDelivery(object):
    """An inbound message that has not yet been delivered.

    This is created when a 'call' sequence has finished being received. The
    Broker will add it to a queue. The delivery at the head of the queue is
    serviced when all of its arguments have been resolved.

    The only way that the arguments might not all be available is if one of
    the Unslicers which created them has provided a 'ready_deferred' along
    with the prospective object. The only standard Unslicer which does this
    is the TheirReferenceUnslicer, which handles introductions. (custom
    Unslicers might also provide a ready_deferred, for example a URL
    slicer/unslicer pair for which the receiving end fetches the target of
    the URL as its value, or a UnixFD slicer/unslicer that had to wait for a
    side-channel unix-domain socket to finish transferring control over the
    FD to the recipient before being ready).

    Most Unslicers refuse to accept unready objects as their children (most
    implementations of receiveChild() do 'assert ready_deferred is None').
    The CallUnslicer is fairly unique in not rejecting such objects.

    We do require, however, that all of the arguments be at least
    referenceable. This is not generally a problem: the only time an
    unslicer's receiveChild() can get a non-referenceable object (represented
    by a Deferred) is if that unslicer is participating in a reference cycle
    that has not yet completed, and CallUnslicers only live at the top level,
    above any cycles.
    """

    def __init__(self, broker, reqID, obj,
                 interface, methodname, methodSchema,
                 allargs):
        self.broker = broker
        self.reqID = reqID
        self.obj = obj
        self.interface = interface
        self.methodname = methodname
        self.methodSchema = methodSchema
        self.allargs = allargs

    def logFailure(self, f):
        # called if tub.logLocalFailures is True
        my_short_tubid = "??"
        if self.broker.tub: # for tests
            my_short_tubid = self.broker.tub.getShortTubID()
        their_short_tubid = "<???>"
        if self.broker.remote_tubref:
            their_short_tubid = self.broker.remote_tubref.getShortTubID()
        lp = log.msg("an inbound callRemote that we [%s] executed (on behalf "
                     "of someone else, TubID %s) failed"
                     % (my_short_tubid, their_short_tubid),
                     level=log.UNUSUAL)
        if self.interface:
            methname = self.interface.getName() + "." + self.methodname
        else:
            methname = self.methodname
        log.msg(" reqID=%d, rref=%s, methname=%s" %
                (self.reqID, self.obj, methname),
                level=log.NOISY, parent=lp)
        log.msg(" args=%s" % (self.allargs.args,), level=log.NOISY, parent=lp)
        log.msg(" kwargs=%s" % (self.allargs.kwargs,),
                level=log.NOISY, parent=lp)
        #if isinstance(f.type, str):
        #    stack = "getTraceback() not available for string exceptions\n"
        #else:
        #    stack = f.getTraceback()
        # TODO: trim stack to everything below Broker._doCall
        #stack = "LOCAL: " + stack.replace("\n", "\nLOCAL: ")
        log.msg(" the LOCAL failure was:", failure=f,
                level=log.NOISY, parent=lp)
        #log.msg(stack, level=log.NOISY, parent=lp)

class ArgumentUnslicer(slicer.ScopedUnslicer):
    methodSchema = None
    debug = False

    def setConstraint(self, methodSchema):
        self.methodSchema = methodSchema

    def start(self, count):
        if self.debug:
            log.msg("%s.start: %s" % (self, count))
        self.numargs = None
        self.args = []
        self.kwargs = {}
        self.argname = None
        self.argConstraint = None
        self.num_unreferenceable_children = 0
        self._all_children_are_referenceable_d = None
        self._ready_deferreds = []
        self.closed = False

    def checkToken(self, typebyte, size):
        if self.numargs is None:
            # waiting for positional-arg count
            if typebyte != tokens.INT:
                raise BananaError("posarg count must be an INT")
            return
        if len(self.args) < self.numargs:
            # waiting for a positional arg
            if self.argConstraint:
                self.argConstraint.checkToken(typebyte, size)
            return
        if self.argname is None:
            # waiting for the name of a keyword arg
            if typebyte not in (tokens.STRING, tokens.VOCAB):
                raise BananaError("kwarg name must be a STRING")
            # TODO: limit to longest argument name of the method?
            return
        # waiting for the value of a kwarg
        if self.argConstraint:
            self.argConstraint.checkToken(typebyte, size)

    def doOpen(self, opentype):
        if self.argConstraint:
            self.argConstraint.checkOpentype(opentype)
        unslicer = self.open(opentype)
        if unslicer:
            if self.argConstraint:
                unslicer.setConstraint(self.argConstraint)
        return unslicer

    def receiveChild(self, token, ready_deferred=None):
        if self.debug:
            log.msg("%s.receiveChild: %s %s %s %s %s args=%s kwargs=%s" %
                    (self, self.closed, self.num_unreferenceable_children,
                     len(self._ready_deferreds), token, ready_deferred,
                     self.args, self.kwargs))
        if self.numargs is None:
            # this token is the number of positional arguments
            assert isinstance(token, int)
            assert ready_deferred is None
            self.numargs = token
            if self.numargs:
                ms = self.methodSchema
                if ms:
                    accept, self.argConstraint = \
                            ms.getPositionalArgConstraint(0)
                    assert accept
            return

        if len(self.args) < self.numargs:
            # this token is a positional argument
            argvalue = token
            argpos = len(self.args)
            self.args.append(argvalue)
            if isinstance(argvalue, defer.Deferred):
                # this may occur if the child is a gift which has not
                # resolved yet.
                self.num_unreferenceable_children += 1
                argvalue.addCallback(self.updateChild, argpos)
            if ready_deferred:
                if self.debug:
                    log.msg("%s.receiveChild got an unready posarg" % self)
                self._ready_deferreds.append(ready_deferred)
            if len(self.args) < self.numargs:
                # more to come
                ms = self.methodSchema
                if ms:
                    nextargnum = len(self.args)
                    accept, self.argConstraint = \
                            ms.getPositionalArgConstraint(nextargnum)
                    assert accept
            return

        if self.argname is None:
            # this token is the name of a keyword argument
            assert ready_deferred is None
            try:
                self.argname = six.ensure_str(token)
            except UnicodeDecodeError:
                raise Violation("keyword argument name is not UTF-8")
            # if the argname is invalid, this may raise Violation
            ms = self.methodSchema
            if ms:
                accept, self.argConstraint = \
                        ms.getKeywordArgConstraint(self.argname,
                                                   self.numargs,
                                                   list(self.kwargs.keys()))
                assert accept
            return

        # this token is the value of a keyword argument
        argvalue = token
        self.kwargs[self.argname] = argvalue
        if isinstance(argvalue, defer.Deferred):
            self.num_unreferenceable_children += 1
            argvalue.addCallback(self.updateChild, self.argname)
        if ready_deferred:
            if self.debug:
                log.msg("%s.receiveChild got an unready kwarg" % self)
            self._ready_deferreds.append(ready_deferred)
        self.argname = None
        return

    def updateChild(self, obj, which):
        # one of our arguments has just now become referenceable. Normal
        # types can't trigger this (since the arguments to a method form a
        # top-level serialization domain), but special Unslicers might. For
        # example, the Gift unslicer will eventually provide us with a
        # RemoteReference, but for now all we get is a Deferred as a
        # placeholder.

        if self.debug:
            log.msg("%s.updateChild, [%s] became referenceable: %s" %
                    (self, which, obj))
        if isinstance(which, int):
            self.args[which] = obj
        else:
            self.kwargs[which] = obj
        self.num_unreferenceable_children -= 1
        if self.num_unreferenceable_children == 0:
            if self._all_children_are_referenceable_d:
                self._all_children_are_referenceable_d.callback(None)
        return obj


    def receiveClose(self):
        if self.debug:
            log.msg("%s.receiveClose: %s %s %s" %
                    (self, self.closed, self.num_unreferenceable_children,
                     len(self._ready_deferreds)))
        if (self.numargs is None or
            len(self.args) < self.numargs or
            self.argname is not None):
            raise BananaError("'arguments' sequence ended too early")
        self.closed = True
        dl = []
        if self.num_unreferenceable_children:
            d = self._all_children_are_referenceable_d = defer.Deferred()
            dl.append(d)
        dl.extend(self._ready_deferreds)
        ready_deferred = None
        if dl:
            ready_deferred = AsyncAND(dl)
        return self, ready_deferred

    def describe(self):
        s = "<arguments"
        if self.numargs is not None:
            if len(self.args) < self.numargs:
                s += " arg[%d]" % len(self.args)
            else:
                if self.argname is not None:
                    s += " arg[%s]" % self.argname
                else:
                    s += " arg[?]"
        if self.closed:
            s += " closed"
            # TODO: it would be nice to indicate if we still have unready
            # children
        s += ">"
        return s


class CallUnslicer(slicer.ScopedUnslicer):

    debug = False

    def start(self, count):
        # start=0:reqID, 1:objID, 2:methodname, 3: arguments
        self.stage = 0
        self.reqID = None
        self.obj = None
        self.interface = None
        self.methodname = None
        self.methodSchema = None # will be a MethodArgumentsConstraint
        self._ready_deferreds = []

    def checkToken(self, typebyte, size):
        # TODO: limit strings by returning a number instead of None
        if self.stage == 0:
            if typebyte != tokens.INT:
                raise BananaError("request ID must be an INT")
        elif self.stage == 1:
            if typebyte not in (tokens.INT, tokens.NEG):
                raise BananaError("object ID must be an INT/NEG")
        elif self.stage == 2:
            if typebyte not in (tokens.STRING, tokens.VOCAB):
                raise BananaError("method name must be a STRING")
            # TODO: limit to longest method name of self.obj in the interface
        elif self.stage == 3:
            if typebyte != tokens.OPEN:
                raise BananaError("arguments must be an 'arguments' sequence")
        else:
            raise BananaError("too many objects given to CallUnslicer")

    def doOpen(self, opentype):
        # checkToken insures that this can only happen when we're receiving
        # an arguments object, so we don't have to bother checking self.stage
        assert self.stage == 3
        unslicer = self.open(opentype)
        if self.methodSchema:
            unslicer.setConstraint(self.methodSchema)
        return unslicer

    def reportViolation(self, f):
        # if the Violation is because we received an ABORT, then we know
        # that the sender knows there was a problem, so don't respond.
        if f.value.args[0] == "ABORT received":
            return f

        # if the Violation was raised after we know the reqID, we can send
        # back an Error.
        if self.stage > 0:
            self.broker.callFailed(f, self.reqID)
        return f # give up our sequence

    def receiveChild(self, token, ready_deferred=None):
        assert not isinstance(token, defer.Deferred)
        if self.debug:
            log.msg("%s.receiveChild [s%d]: %s" %
                    (self, self.stage, repr(token)))

        if self.stage == 0: # reqID
            # we don't yet know which reqID to send any failure to
            assert ready_deferred is None
            self.reqID = token
            self.stage = 1
            if self.reqID != 0:
                assert self.reqID not in self.broker.activeLocalCalls
                self.broker.activeLocalCalls[self.reqID] = self
            return

        if self.stage == 1: # objID
            # this might raise an exception if objID is invalid
            assert ready_deferred is None
            self.objID = token
            try:
                self.obj = self.broker.getMyReferenceByCLID(token)
            except KeyError:
                raise Violation("unknown CLID %d" % (token,))
            #iface = self.broker.getRemoteInterfaceByName(token)
            if self.objID < 0:
                self.interface = None
            else:
                self.interface = self.obj.getInterface()
            self.stage = 2
            return

        if self.stage == 2: # methodname
            # validate the methodname, get the schema. This may raise an
            # exception for unknown methods

            # must find the schema, using the interfaces

            # TODO: getSchema should probably be in an adapter instead of in
            # a pb.Referenceable base class. Old-style (unconstrained)
            # flavors.Referenceable should be adapted to something which
            # always returns None

            # TODO: make this faster. A likely optimization is to take a
            # tuple of components.getInterfaces(obj) and use it as a cache
            # key. It would be even faster to use obj.__class__, but that
            # would probably violate the expectation that instances can
            # define their own __implements__ (independently from their
            # class). If this expectation were to go away, a quick
            # obj.__class__ -> RemoteReferenceSchema cache could be built.

            assert ready_deferred is None
            self.stage = 3

            if self.objID < 0:
                # the target is a bound method, ignore the methodname
                self.methodSchema = getattr(self.obj, "methodSchema", None)
                self.methodname = None # TODO: give it something useful
                if self.broker.requireSchema and not self.methodSchema:
                    why = "This broker does not accept unconstrained " + \
                          "method calls"
                    raise Violation(why)
                return

            try:
                self.methodname = six.ensure_str(token)
            except UnicodeDecodeError:
                raise Violation("method name is not UTF-8")

            if self.interface:
                # they are calling an interface+method pair
                ms = self.interface.get(self.methodname)
                if not ms:
                    why = "method '%s' not defined in %s" % \
                          (self.methodname, self.interface.__remote_name__)
                    raise Violation(why)
                self.methodSchema = ms

            return

        if self.stage == 3: # arguments
            assert isinstance(token, ArgumentUnslicer)
            self.allargs = token
            # queue the message. It will not be executed until all the
            # arguments are ready. The .args list and .kwargs dict may change
            # before then.
            if ready_deferred:
                self._ready_deferreds.append(ready_deferred)
            self.stage = 4
            return

    def receiveClose(self):
        if self.stage != 4:
            raise BananaError("'call' sequence ended too early")
        # time to create the InboundDelivery object so we can queue it
        delivery = InboundDelivery(self.broker, self.reqID, self.obj,
                                   self.interface, self.methodname,
                                   self.methodSchema,
                                   self.allargs)
        ready_deferred = None
        if self._ready_deferreds:
            ready_deferred = AsyncAND(self._ready_deferreds)
        return delivery, ready_deferred

    def describe(self):
        s = "<methodcall"
        if self.stage == 0:
            pass
        if self.stage >= 1:
            s += " reqID=%d" % self.reqID
        if self.stage >= 2:
            s += " obj=%s" % (self.obj,)
            ifacename = "[none]"
            if self.interface:
                ifacename = self.interface.__remote_name__
            s += " iface=%s" % ifacename
        if self.stage >= 3:
            s += " methodname=%s" % self.methodname
        s += ">"
        return s


class AnswerSlicer(slicer.ScopedSlicer):
    opentype = ('answer',)

    def __init__(self, reqID, results, methodname="?"):
        assert reqID != 0
        slicer.ScopedSlicer.__init__(self, None)
        self.reqID = reqID
        self.results = results
        self.methodname = methodname

    def sliceBody(self, streamable, banana):
        yield self.reqID
        yield self.results

    def describe(self):
        return "<answer-%s-to-%s>" % (self.reqID, self.methodname)

class AnswerUnslicer(slicer.ScopedUnslicer):
    request = None
    resultConstraint = None
    haveResults = False

    def start(self, count):
        slicer.ScopedUnslicer.start(self, count)
        self._ready_deferreds = []
        self._child_deferred = None

    def checkToken(self, typebyte, size):
        if self.request is None:
            if typebyte != tokens.INT:
                raise BananaError("request ID must be an INT")
        elif not self.haveResults:
            if self.resultConstraint:
                try:
                    self.resultConstraint.checkToken(typebyte, size)
                except Violation as v:
                    # improve the error message
                    if v.args:
                        # this += gives me a TypeError "object doesn't
                        # support item assignment", which confuses me
                        #v.args[0] += " in inbound method results"
                        why = v.args[0] + " in inbound method results"
                        v.args = why,
                    else:
                        v.args = ("in inbound method results",)
                    raise # this will errback the request
        else:
            raise BananaError("stop sending me stuff!")

    def doOpen(self, opentype):
        if self.resultConstraint:
            self.resultConstraint.checkOpentype(opentype)
            # TODO: improve the error message
        unslicer = self.open(opentype)
        if unslicer:
            if self.resultConstraint:
                unslicer.setConstraint(self.resultConstraint)
        return unslicer

    def receiveChild(self, token, ready_deferred=None):
        if self.request == None:
            assert not isinstance(token, defer.Deferred)
            assert ready_deferred is None
            reqID = token
            # may raise Violation for bad reqIDs
            self.request = self.broker.getRequest(reqID)
            self.resultConstraint = self.request.constraint
        else:
            if isinstance(token, defer.Deferred):
                self._child_deferred = token
            else:
                self._child_deferred = defer.succeed(token)
            if ready_deferred:
                self._ready_deferreds.append(ready_deferred)
            self.haveResults = True

    def reportViolation(self, f):
        # if the Violation was received after we got the reqID, we can tell
        # the broker it was an error
        if self.request != None:
            self.request.fail(f) # local violation
        return f # give up our sequence

    def receiveClose(self):
        # three things must happen before our request is complete:
        #   receiveClose has occurred
        #   the receiveChild object deferred (if any) has fired
        #   ready_deferred has finished
        # If ready_deferred errbacks, provide its failure object to the
        # request. If not, provide the request with whatever receiveChild
        # got.

        if not self._child_deferred:
            raise BananaError("Answer didn't include an answer")

        if self._ready_deferreds:
            d = AsyncAND(self._ready_deferreds)
        else:
            d = defer.succeed(None)

        def _ready(res):
            return self._child_deferred
        d.addCallback(_ready)

        def _done(res):
            self.request.complete(res)
        def _fail(f):
            # we hit here if any of the _ready_deferreds fail (i.e a Gift
            # failed to resolve), or if the _child_deferred fails (not sure
            # how this could happen). I think it's ok to return a local
            # exception (instead of a RemoteException) for both.
            self.request.fail(f)
        d.addCallbacks(_done, _fail)

        return None, None

    def describe(self):
        if self.request:
            return "Answer(req=%s)" % self.request.reqID
        return "Answer(req=?)"



class ErrorSlicer(slicer.ScopedSlicer):
    opentype = ('error',)

    def __init__(self, reqID, f):
        slicer.ScopedSlicer.__init__(self, None)
        assert isinstance(f, failure.Failure)
        self.reqID = reqID
        self.f = f

    def sliceBody(self, streamable, banana):
        yield self.reqID
        yield self.f

    def describe(self):
        return "<error-%s>" % self.reqID

class ErrorUnslicer(slicer.ScopedUnslicer):
    request = None
    fConstraint = FailureConstraint()
    gotFailure = False

    def checkToken(self, typebyte, size):
        if self.request == None:
            if typebyte != tokens.INT:
                raise BananaError("request ID must be an INT")
        elif not self.gotFailure:
            self.fConstraint.checkToken(typebyte, size)
        else:
            raise BananaError("stop sending me stuff!")

    def doOpen(self, opentype):
        self.fConstraint.checkOpentype(opentype)
        unslicer = self.open(opentype)
        if unslicer:
            unslicer.setConstraint(self.fConstraint)
        return unslicer

    def reportViolation(self, f):
        # a failure while receiving the failure. A bit daft, really.
        if self.request != None:
            self.request.fail(f)
        return f # give up our sequence

    def receiveChild(self, token, ready_deferred=None):
        assert not isinstance(token, defer.Deferred)
        assert ready_deferred is None
        if self.request == None:
            reqID = token
            # may raise BananaError for bad reqIDs
            self.request = self.broker.getRequest(reqID)
        else:
            self.failure = token
            self.gotFailure = True

    def receiveClose(self):
        f = self.failure
        if not self.broker._expose_remote_exception_types:
            f = wrap_remote_failure(f)
        self.request.fail(f)
        return None, None

    def describe(self):
        if self.request is None:
            return "<error-?>"
        return "<error-%s>" % self.request.reqID


def truncate(s, limit):
    # returns the UTF-8 encoded form, which is what is sent over the wire and
    # what the receiving FailureConstraint measures, cut to 'limit' bytes (on
    # a character boundary). Text that cannot be encoded (lone surrogates, as
    # in the str() of an OSError about an undecodable filename) is escaped
    # rather than allowed to raise.
    assert limit > 3
    if isinstance(s, str):
        s = s.encode("utf-8", "backslashreplace")
    if s and len(s) > limit:
        s = s[:limit-3].decode("utf-8", "ignore").encode("utf-8") + b".."
    return s

# failures are sent as Copyables
class FailureSlicer(slicer.BaseSlicer):
    slices = failure.Failure
    classname = "twisted.python.failure.Failure"

    def slice(self, streamable, banana):
        self.streamable = streamable
        yield b'copyable'
        yield six.ensure_binary(self.classname)
        state = self.getStateToCopy(self.obj, banana)
        for k,v in state.items():
            yield six.ensure_binary(k)
            yield v
    def describe(self):
        return "<%s>" % self.classname

    def getStateToCopy(self, obj, broker):
        #state = obj.__dict__.copy()
        #state['tb'] = None
        #state['frames'] = []
        #state['stack'] = []

        state = {}
        # string exceptions show up as obj.value == None and
        # isinstance(obj.type, str). Normal exceptions show up as obj.value
        # == text and obj.type == exception class. We need to make sure we
        # can handle both.
        if isinstance(obj.value, failure.Failure):
            # TODO: how can this happen? I got rid of failure2Copyable, so
            # if this case is possible, something needs to replace it
            raise RuntimeError("not implemented yet")
            #state['value'] = failure2Copyable(obj.value, banana.unsafeTracebacks)
        elif isinstance(obj.type, str):
            state['value'] = reflect.safe_str(obj.value)
            state['type'] = obj.type # a string
        else:
            state['value'] = reflect.safe_str(obj.value) # Exception instance
            state['type'] = reflect.qual(obj.type) # Exception class
        # TODO: I suspect that f.value may be getting a copy of the
        # traceback, because I've seen it be 1819 bytes at one point. I had
        # assumed that it was just the exception name plus args: whatever
        # Exception.__repr__ returns.
        state['value'] = six.ensure_binary(truncate(state['value'], 1000))
        state['type'] = six.ensure_binary(truncate(state['type'], 200))

        if broker.unsafeTracebacks:
            if isinstance(obj.type, str):
                stack = "getTraceback() not available for string exceptions\n"
            else:
                stack = obj.getTraceback()
            state['traceback'] = stack
            # TODO: provide something with globals and locals and HTML and
            # all that cool stuff
        else:
            state['traceback'] = 'Traceback unavailable\n'

        # The last few lines are often the most interesting. If we need to
        # truncate this, grab the first few lines and then as much of the
        # tail as we can get.
        if len(state['traceback']) > 1900:
            state['traceback'] = (state['traceback'][:700] +
                                  "\n\n-- TRACEBACK ELIDED --\n\n"
                                  + state['traceback'][-1200:])
        state['traceback'] = six.ensure_binary(truncate(state['traceback'], 2000))

        parents = obj.parents[:]
        for i,value in enumerate(parents):
            parents[i] = six.ensure_binary(truncate(value, 200))
        state['parents'] = parents

        return state

class CopiedFailure(failure.Failure, copyable.RemoteCopyOldStyle):
    # this is a RemoteCopyOldStyle because you can't raise new-style
    # instances as exceptions.

    """I am a shadow of some remote Failure instance. I contain less
    information than the original did.

    You can still extract a (brief) printable traceback from me. My .parents
    attribute is a list of strings describing the class of the exception
    that I contain, just like the real Failure had, so my trap() and check()
    methods work fine. My .type and .value attributes are string
    representations of the original exception class and exception instance,
    respectively. The most significant effect is that you cannot access
    f.value.args, and should instead just use f.value .

    My .frames and .stack attributes are empty, although this may change in
    the future (and with the cooperation of the sender).
    """

    nonCyclic = True
    stateSchema = FailureConstraint()

    def __init__(self):
        copyable.RemoteCopyOldStyle.__init__(self)

    def __getstate__(self):
        s = failure.Failure.__getstate__(self)
        # the ExceptionLikeString we use in self.type is not pickleable, so
        # replace it with the same sort of string that we use in the wire
        # protocol.
        if not isinstance(self.type, str):
            s['type'] = reflect.qual(self.type)
        return s

    def __setstate__(self, state):
        self.setCopyableState(state)

    def setCopyableState(self, state):
        # state includes: type, value, traceback, parents
        self.type = six.ensure_str(state['type'])
        self.value = six.ensure_str(state['value'])
        self.traceback = six.ensure_str(state['traceback'])
        self.parents = [six.ensure_str(p) for p in state['parents']]
        self.tb = None
        self.frames = []
        self.stack = []

        # MAYBE: for native exception types, be willing to wire up a
        # reference to the real exception class. For other exception types,
        # our .type attribute will be a string, which (from a Failure's point
        # of view) looks as if someone raised an old-style string exception.
        # This is here so that trial will properly render a CopiedFailure
        # that comes out of a test case (since it unconditionally does
        # reflect.qual(f.type)

        # ACTUALLY: replace self.type with a class that looks a lot like the
        # original exception class (meaning that reflect.qual() will return
        # the same string for this as for the original). If someone calls our
        # .trap method, resulting in a new Failure with contents copied from
        # this one, then the new Failure.printTraceback will attempt to use
        # reflect.qual() on our self.type, so it needs to be a class instead
        # of a string.

        assert isinstance(self.type, str)
        typepieces = self.type.split(".")
        class ExceptionLikeString:
            pass
        self.type = ExceptionLikeString
        self.type.__module__ = ".".join(typepieces[:-1])
        self.type.__name__ = typepieces[-1]

    def __str__(self):
        return "[CopiedFailure instance: %s]" % self.getBriefTraceback()

    pickled = 1
    def printTraceback(self, file=None, elideFrameworkCode=0,
                       detail='default'):
        if file is None: file = twlog.logerr
        file.write("Traceback from remote host -- ")
        file.write(self.traceback)

copyable.registerRemoteCopy(FailureSlicer.classname, CopiedFailure)

class CopiedFailureSlicer(FailureSlicer):
    # A calls B. B calls C. C fails and sends a Failure to B. B gets a
    # CopiedFailure and sends it to A. A should get a CopiedFailure too. This
    # class lives on B and slices the CopiedFailure as it is sent to A.
    slices = CopiedFailure

    def getStateToCopy(self, obj, broker):
        state = {}
        state['type'] = obj.type
        if not isinstance(state['type'], str):
            state['type'] = reflect.qual(state['type']) # Exception class
        state['type'] = six.ensure_binary(state['type'])
        state['value'] = six.ensure_binary(obj.value)
        state['parents'] = [six.ensure_binary(p) for p in obj.parents]
        if broker.unsafeTracebacks:
            state['traceback'] = six.ensure_binary(obj.traceback)
        else:
            state['traceback'] = b"Traceback unavailable\n"
        return state
