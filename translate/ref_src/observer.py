# -*- test-case-name: foolscap.test_observer -*-

# many thanks to AllMyData for contributing the initial version of this code

from twisted.internet import defer
from foolscap import eventual

class OneShotObserverList(object):
    """A one-shot event distributor.

    Subscribers can get a Deferred that will fire with the results of the
    event once it finally occurs. The caller does not need to know whether
    the event has happened yet or not: they get a Deferred in either case.

    The Deferreds returned to subscribers are guaranteed to not fire in the
    current reactor turn; instead, eventually() is used to fire them in a
    later turn. Look at Mark Miller's 'Concurrency Among Strangers' paper on
    erights.org for a description of why this property is useful.

    I can only be fired once."""

    def __init__(self):
        self._fired = False
        self._result = None
        self._watchers = []
        self.__repr__ = self._unfired_repr

    def _unfired_repr(self):
        return "<OneShotObserverList [%s]>" % (self._watchers, )

    def _fired_repr(self):
        return "<OneShotObserverList -> %s>" % (self._result, )

    def whenFired(self):
        if self._fired:
            return eventual.fireEventually(self._result)
        d = defer.Deferred()
        self._watchers.append(d)
        return d

    def fire(self, result):
        assert not self._fired
        self._fired = True
        self._result = result

        for w in self._watchers:
            eventual.eventually(w.callback, result)
        del self._watchers
        self.__repr__ = self._fired_repr

