import os, sys
import six
import socket
import time
from twisted.internet import defer, reactor, protocol
from twisted.python.runtime import platformType

class AsyncAND(defer.Deferred):
    """Like DeferredList, but results are discarded and failures handled
    in a more convenient fashion.

    Create me with a list of Deferreds. I will fire my callback (with None)
    if and when all of my component Deferreds fire successfully. I will fire
    my errback when and if any of my component Deferreds errbacks, in which
    case I will absorb the failure. If a second Deferred errbacks, I will not
    absorb that failure.

    This means that you can put a bunch of Deferreds together into an
    AsyncAND and then forget about them. If all succeed, the AsyncAND will
    fire. If one fails, that Failure will be propagated to the AsyncAND. If
    multiple ones fail, the first Failure will go to the AsyncAND and the
    rest will be left unhandled (and therefore logged).
    """

    def __init__(self, deferredList):
        defer.Deferred.__init__(self)

        if not deferredList:
            self.callback(None)
            return

        self.remaining = len(deferredList)
        self._fired = False

        for d in deferredList:
            d.addCallbacks(self._cbDeferred, self._cbDeferred,
                           callbackArgs=(True,), errbackArgs=(False,))

    def _cbDeferred(self, result, succeeded):
        self.remaining -= 1
        if succeeded:
            if not self._fired and self.remaining == 0:
                # the last input has fired. We fire.
                self._fired = True
                self.callback(None)
                return
        else:
            if not self._fired:
                # the first Failure is carried into our output
                self._fired = True
                self.errback(result)
                return None
            else:
                # second and later Failures are not absorbed
                return result

# adapted from Tahoe: finds a single publically-visible address, or None.
# Tahoe also uses code to run /bin/ifconfig (or equivalent) to find other
# addresses, but that's a bit heavy for this. Note that this runs
# synchronously. Also note that this doesn't require the reactor to be
# running.
def get_local_ip_for(target='A.ROOT-SERVERS.NET'):
    """Find out what our IP address is for use by a given target.

    @return: the IP address as a dotted-quad string which could be used by
              to connect to us. It might work for them, it might not. If
              there is no suitable address (perhaps we don't currently have an
              externally-visible interface), this will return None.
    """
    try:
        target_ipaddr = socket.gethostbyname(target)
    except socket.gaierror:
        # DNS isn't running
        return None
    udpprot = protocol.DatagramProtocol()
    port = reactor.listenUDP(0, udpprot)
    try:
        udpprot.transport.connect(target_ipaddr, 7)
        localip = udpprot.transport.getHost().host
    except socket.error:
        # no route to that host
        localip = None
    port.stopListening() # note, this returns a Deferred
    return localip

FORMAT_TIME_MODES = ["short-local", "long-local", "utc", "epoch"]
def format_time(when, mode):
    if mode == "short-local":
        time_s = time.strftime("%H:%M:%S", time.localtime(when))
        time_s = time_s + ".%03d" % int(1000*(when - int(when)))
    elif mode == "long-local":
        lt = time.localtime(when)
        time_s = time.strftime("%Y-%m-%d_%H:%M:%S", lt)
        time_s = time_s + ".%06d" % int(1000000*(when - int(when)))
        time_s += time.strftime("%z", lt)
    elif mode == "utc":
        time_s = time.strftime("%Y-%m-%d_%H:%M:%S", time.gmtime(when))
        time_s = time_s + ".%06d" % int(1000000*(when - int(when)))
        time_s += "Z"
    elif mode == "epoch":
        time_s = "%.03f" % when
    return time_s


def move_into_place(source, dest):
    """Atomically replace a file, or as near to it as the platform allows.
    The dest file may or may not exist."""
    # from Tahoe
    if "win32" in sys.platform.lower():
        try:
            os.remove(dest)
        except:
            pass
    os.rename(source, dest)

def isSubstring(small, big):
    assert type(small) is bytes and type(big) is bytes
    return small in big

def allocate_tcp_port():
    """Return an (integer) available TCP port on localhost. This briefly
    listens on the port in question, then closes it right away."""

    # Making this work correctly on multiple OSes is non-trivial:
    # * on OS-X:
    #   * Binding the test socket to 127.0.0.1 lets the kernel give us a
    #     LISTEN port that some other process is using, if they bound it to
    #     ANY (0.0.0.0). These will fail when we attempt to
    #     listen(bind=0.0.0.0) ourselves
    #   * Binding the test socket to 0.0.0.0 lets the kernel give us LISTEN
    #     ports bound to 127.0.0.1, although then our subsequent listen()
    #     call usually succeeds.
    #   * In both cases, the kernel can give us a port that's in use by the
    #     near side of an ESTABLISHED socket. If the process which owns that
    #     socket is not owned by the same user as us, listen() will fail.
    #   * Doing a listen() right away (on the kernel-allocated socket)
    #     succeeds, but a subsequent listen() on a new socket (bound to
    #     the same port) will fail.
    # * on Linux:
    #   * The kernel never gives us a port in use by a LISTEN socket, whether
    #     we bind the test socket to 127.0.0.1 or 0.0.0.0
    #   * Binding it to 127.0.0.1 does let the kernel give us ports used in
    #     an ESTABLISHED connection. Our listen() will fail regardless of who
    #     owns that socket. (note that we are using SO_REUSEADDR but not
    #     SO_REUSEPORT, which would probably affect things).
    #

    #
    # So to make this work properly everywhere, allocate_tcp_port() needs two
    # phases: first we allocate a port (with 0.0.0.0), then we close that
    # socket, then we open a second socket, bind the second socket to the
    # same port, then try to listen. If the listen() fails, we loop back and
    # try again.

    # In addition, on at least OS-X, the kernel will give us a port that's in
    # use by some other process, when that process has bound it to 127.0.0.1,
    # and our bind/listen (to 0.0.0.0) will succeed, but a subsequent caller
    # who tries to bind it to 127.0.0.1 will get an error in listen(). So we
    # must actually test the proposed socket twice: once bound to 0.0.0.0,
    # and again bound to 127.0.0.1. This probably isn't complete for
    # applications which bind to a specific outward-facing interface, but I'm
    # ok with that; anything other than 0.0.0.0 or 127.0.0.1 is likely to use
    # manually-selected ports, assigned by the user or sysadmin.

    # Ideally we'd refrain from doing listen(), to minimize impact on the
    # system, and we'd bind the port to 127.0.0.1, to avoid making it look
    # like we're accepting data from the outside world (in situations where
    # we're going to end up binding the port to 127.0.0.1 anyways). But for
    # the above reasons, neither would work. We *do* add SO_REUSEADDR, to
    # make sure our lingering socket won't prevent our caller from opening it
    # themselves in a few moments (note that Twisted's
    # tcp.Port.createInternetSocket sets SO_REUSEADDR, among other flags).

    count = 0
    while True:
        s = _make_socket()
        s.bind(("0.0.0.0", 0))
        port = s.getsockname()[1]
        s.close()

        s = _make_socket()
        try:
            s.bind(("0.0.0.0", port))
            s.listen(5) # this is what sometimes fails
            s.close()
            s = _make_socket()
            s.bind(("127.0.0.1", port))
            s.listen(5)
            s.close()
            return port
        except socket.error:
            s.close()
            count += 1
            if count > 100:
                raise
            # try again

def _make_socket():
    s = socket.socket(socket.AF_INET, socket.SOCK_STREAM)
    if platformType == "posix" and sys.platform != "cygwin":
        s.setsockopt(socket.SOL_SOCKET, socket.SO_REUSEADDR, 1)
    return s

def ensure_tuple_str(input_tuple):
    return tuple([six.ensure_str(s) for s in input_tuple])

def ensure_dict_binary(d):
    return dict([(six.ensure_binary(k), six.ensure_binary(v))
                 for (k,v) in d.items()])

def ensure_dict_str(d):
    return dict([(six.ensure_str(k), six.ensure_str(v))
                 for (k,v) in d.items()])

def ensure_dict_str_keys(d):
    return dict([(six.ensure_str(k), v)
                 for (k,v) in d.items()])
