# -*- test-case-name: foolscap.test.test_crypto -*-

import sys
from OpenSSL import SSL
from twisted.internet.ssl import CertificateOptions, DistinguishedName, \
     KeyPair, Certificate, PrivateCertificate
from foolscap import base32

peerFromTransport = Certificate.peerFromTransport

def alwaysValidate(conn, cert, errno, depth, preverify_ok):
    # This function is called to validate the certificate received by
    # the other end. OpenSSL calls it multiple times, each time it
    # see something funny, to ask if it should proceed.

    # We do not care about certificate authorities or revocation
    # lists, we just want to know that the certificate has a valid
    # signature and follow the chain back to one which is
    # self-signed. The TubID will be the digest of one of these
    # certificates. We need to protect against forged signatures, but
    # not the usual SSL concerns about invalid CAs or revoked
    # certificates.

    # these constants are from openssl-0.9.7g/crypto/x509/x509_vfy.h
    # and do not appear to be exposed by pyopenssl. Ick. TODO. We
    # could just always return '1' here (ignoring all errors), but I
    # think that would ignore forged signatures too, which would
    # obviously be a security hole.
    things_are_ok = (0,  # X509_V_OK
                     9, # X509_V_ERR_CERT_NOT_YET_VALID
                     10, # X509_V_ERR_CERT_HAS_EXPIRED
                     18, # X509_V_ERR_DEPTH_ZERO_SELF_SIGNED_CERT
                     19, # X509_V_ERR_SELF_SIGNED_CERT_IN_CHAIN
                     )
    if errno in things_are_ok:
        return 1
    # TODO: log the details of the error, because otherwise they get
    # lost in the PyOpenSSL exception that will eventually be raised
    # (possibly OpenSSL.SSL.Error: certificate verify failed)

    # I think that X509_V_ERR_CERT_SIGNATURE_FAILURE is the most
    # obvious sign of hostile attack.
    return 0

class FoolscapContextFactory(CertificateOptions):
    def getContext(self):
        ctx = CertificateOptions.getContext(self)

        # VERIFY_PEER means we ask the the other end for their certificate.
        # not adding VERIFY_FAIL_IF_NO_PEER_CERT means it's ok if they don't
        # give us one (i.e. if an anonymous client connects to an
        # authenticated server). I don't know what VERIFY_CLIENT_ONCE does.
        ctx.set_verify(SSL.VERIFY_PEER |
                       #SSL.VERIFY_FAIL_IF_NO_PEER_CERT |
                       SSL.VERIFY_CLIENT_ONCE,
                       alwaysValidate)
        return ctx

def digest32(colondigest): # takes bytes, returns native string
    # we get e.g. b'D9:C8:C9:9C:99:FC:6A:6A:E0:E9:BE:9B:D5:0D:3F:60:B0:08:EF:13'
    assert isinstance(colondigest, bytes), (type(colondigest), colondigest)
    if sys.version_info.major == 2:
        digest = "".join([chr(int(c,16)) for c in colondigest.split(":")])
        digest = base32.encode(digest)
    else:
        # this is py3-only
        digest = bytes([int(c,16) for c in colondigest.split(b":")])
        # under py2, we get a string like "[15, 230, 35, ..]", so catch that here
        assert len(digest) == (len(colondigest)+1)/3, "py3 only, sorry"
        digest = base32.encode(digest)
    return digest

def createCertificate():
    # this is copied from test_sslverify.py
    dn = DistinguishedName(commonName="newpb_thingy")
    keypair = KeyPair.generate(size=2048)
    req = keypair.certificateRequest(dn, digestAlgorithm="sha256")
    certData = keypair.signCertificateRequest(dn, req,
                                              lambda dn: True,
                                              1, # serial number
                                              digestAlgorithm="sha256",
                                              )
    cert = keypair.newCertificate(certData)
    #opts = cert.options()
    # 'opts' can be given to reactor.listenSSL, or to transport.startTLS
    return cert

def loadCertificate(certData):
    cert = PrivateCertificate.loadPEM(certData)
    return cert
