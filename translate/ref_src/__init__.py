"""Foolscap"""

from . import _version
__version__ = _version.get_versions()['version']

del _version
