
# This provides a base for the various Constraint subclasses to use. Those
# Constraint subclasses live next to the slicers. It also contains
# Constraints for primitive types (int, str).

# This imports foolscap.tokens, but no other Foolscap modules.

from zope.interface import implementer, Interface

from foolscap.util import ensure_tuple_str
from foolscap.tokens import Violation, BananaError, SIZE_LIMIT, \
     STRING, LIST, INT, NEG, LONGINT, LONGNEG, VOCAB, FLOAT, OPEN, \
     tokenNames

everythingTaster = {
    # he likes everything
    STRING: None,
    LIST: None,
    INT: None,
    NEG: None,
    LONGINT: SIZE_LIMIT, # this limits numbers to about 2**8000, probably ok
    LONGNEG: SIZE_LIMIT,
    VOCAB: None,
    FLOAT: None,
    OPEN: None,
    }
openTaster = {
    OPEN: None,
    }
nothingTaster = {}

class IConstraint(Interface):
    pass
class IRemoteMethodConstraint(IConstraint):
    def getPositionalArgConstraint(argnum):
        """Return the constraint for posargs[argnum]. This is called on
        inbound methods when receiving positional arguments. This returns a
        tuple of (accept, constraint), where accept=False means the argument
        should be rejected immediately, regardless of what type it might be."""
    def getKeywordArgConstraint(argname, num_posargs=0, previous_kwargs=[]):
        """Return the constraint for kwargs[argname]. The other arguments are
        used to handle mixed positional and keyword arguments. Returns a
        tuple of (accept, constraint)."""

    def checkAllArgs(args, kwargs, inbound):
        """Submit all argument values for checking. When inbound=True, this
        is called after the arguments have been deserialized, but before the
        method is invoked. When inbound=False, this is called just inside
        callRemote(), as soon as the target object (and hence the remote
        method constraint) is located.

        This should either raise Violation or return None."""
        pass
    def getResponseConstraint():
        """Return an IConstraint-providing object to enforce the response
        constraint. This is called on outbound method calls so that when the
        response starts to come back, we can start enforcing the appropriate
        constraint right away."""
    def checkResults(results, inbound):
        """Inspect the results of invoking a method call. inbound=False is
        used on the side that hosts the Referenceable, just after the target
        method has provided a value. inbound=True is used on the
        RemoteReference side, just after it has finished deserializing the
        response.

        This should either raise Violation or return None."""

@implementer(IConstraint)
class Constraint(object):
    """
    Each __schema__ attribute is turned into an instance of this class, and
    is eventually given to the unserializer (the 'Unslicer') to enforce as
    the tokens are arriving off the wire.
    """

    taster = everythingTaster
    """the Taster is a dict that specifies which basic token types are
    accepted. The keys are typebytes like INT and STRING, while the
    values are size limits: the body portion of the token must not be
    longer than LIMIT bytes.
    """

    strictTaster = False
    """If strictTaster is True, taste violations are raised as BananaErrors
    (indicating a protocol error) rather than a mere Violation.
    """

    opentypes = None
    """opentypes is a list of currently acceptable OPEN token types. None
    indicates that all types are accepted. An empty list indicates that no
    OPEN tokens are accepted. These are native strings.
    """

    name = None
    """Used to describe the Constraint in a Violation error message"""

    def checkToken(self, typebyte, size):
        """Check the token type. Raise an exception if it is not accepted
        right now, or if the body-length limit is exceeded."""

        limit = self.taster.get(typebyte, "not in list")
        if limit == "not in list":
            if self.strictTaster:
                raise BananaError("invalid token type: %s" %
                                  tokenNames[typebyte])
            else:
                raise Violation("%s token rejected by %s" %
                                (tokenNames[typebyte], self.name))
        if limit is not None and size > limit:
            raise Violation("%s token too large: %d>%d" %
                            (tokenNames[typebyte], size, limit))

    def setNumberTaster(self, maxValue):
        self.taster = {INT: None,
                       NEG: None,
                       LONGINT: None, # TODO
                       LONGNEG: None,
                       FLOAT: None,
                       }
    def checkOpentype(self, opentype):
        """Check the OPEN type (the tuple of Index Tokens). Raise an
        exception if it is not accepted.
        """

        if self.opentypes == None:
            return
        opentype = ensure_tuple_str(opentype)

        # shared references are always accepted. checkOpentype() is a defense
        # against resource-exhaustion attacks, and references don't consume
        # any more resources than any other token. For inbound method
        # arguments, the CallUnslicer will perform a final check on all
        # arguments (after these shared references have been resolved), and
        # that will get to verify that they have resolved to the correct
        # type.

        #if opentype == ReferenceSlicer.opentype:
        if opentype == ('reference',):
            return

        for o in self.opentypes:
            if len(o) == len(opentype):
                if o == opentype:
                    return
            if len(o) > len(opentype):
                # we might have a partial match: they haven't flunked yet
                if opentype == o[:len(opentype)]:
                    return # still in the running

        raise Violation("unacceptable OPEN type: %s not in my list %s" %
                        (opentype, self.opentypes))

    def checkObject(self, obj, inbound):
        """Validate an existing object. Usually objects are validated as
        their tokens come off the wire, but pre-existing objects may be
        added to containers if a REFERENCE token arrives which points to
        them. The older objects were were validated as they arrived (by a
        different schema), but now they must be re-validated by the new
        schema.

        A more naive form of validation would just accept the entire object
        tree into memory and then run checkObject() on the result. This
        validation is too late: it is vulnerable to both DoS and
        made-you-run-code attacks.

        If inbound=True, this object is arriving over the wire. If
        inbound=False, this is being called to validate an existing object
        before it is sent over the wire. This is done as a courtesy to the
        remote end, and to improve debuggability.

        Most constraints can use the same checker for both inbound and
        outbound objects.
        """
        # this default form passes everything
        return

    COUNTERBYTES = 64 # max size of opencount

    def OPENBYTES(self, dummy):
        # an OPEN,type,CLOSE sequence could consume:
        #  64 (header)
        #  1 (OPEN)
        #   64 (header)
        #   1 (STRING)
        #   1000 (value)
        #    or
        #   64 (header)
        #   1 (VOCAB)
        #  64 (header)
        #  1 (CLOSE)
        # for a total of 65+1065+65 = 1195
        return self.COUNTERBYTES+1 + 64+1+1000 + self.COUNTERBYTES+1

class OpenerConstraint(Constraint):
    taster = openTaster

class Any(Constraint):
    pass # accept everything

# constraints which describe individual banana tokens

class ByteStringConstraint(Constraint):
    opentypes = [] # redundant, as taster doesn't accept OPEN
    name = "ByteStringConstraint"

    def __init__(self, maxLength=None, minLength=0):
        self.maxLength = maxLength
        self.minLength = minLength
        self.taster = {STRING: self.maxLength,
                       VOCAB: None}

    def checkObject(self, obj, inbound):
        if not isinstance(obj, bytes):
            raise Violation("'%r' is not a bytestring" % (obj,))
        if self.maxLength != None and len(obj) > self.maxLength:
            raise Violation("string too long (%d > %d)" %
                            (len(obj), self.maxLength))
        if len(obj) < self.minLength:
            raise Violation("string too short (%d < %d)" %
                            (len(obj), self.minLength))

class IntegerConstraint(Constraint):
    opentypes = [] # redundant
    # taster set in __init__
    name = "IntegerConstraint"

    def __init__(self, maxBytes=-1):
        # -1 means s_int32_t: INT/NEG instead of INT/NEG/LONGINT/LONGNEG
        # None means unlimited
        assert maxBytes == -1 or maxBytes == None or maxBytes >= 4
        self.maxBytes = maxBytes
        self.taster = {INT: None, NEG: None}
        if maxBytes != -1:
            self.taster[LONGINT] = maxBytes
            self.taster[LONGNEG] = maxBytes

    def checkObject(self, obj, inbound):
        # bool is a subclass of int, but it is serialized as a 'boolean'
        # sequence which the taster above does not accept
        if isinstance(obj, bool) or not isinstance(obj, int):
            raise Violation("'%r' is not a number" % (obj,))
        if self.maxBytes == -1:
            if obj >= 2**31 or obj < -2**31:
                raise Violation("number too large")
        elif self.maxBytes != None:
            if abs(obj) >= 2**(8*self.maxBytes):
                raise Violation("number too large")

class NumberConstraint(IntegerConstraint):
    """I accept floats, ints, and longs."""
    name = "NumberConstraint"

    def __init__(self, maxBytes=1024):
        assert maxBytes != -1  # not valid here
        IntegerConstraint.__init__(self, maxBytes)
        self.taster[FLOAT] = None

    def checkObject(self, obj, inbound):
        if isinstance(obj, float):
            return
        IntegerConstraint.checkObject(self, obj, inbound)



#TODO
class Shared(Constraint):
    name = "Shared"

    def __init__(self, constraint, refLimit=None):
        self.constraint = IConstraint(constraint)
        self.refLimit = refLimit

#TODO: might be better implemented with a .optional flag
class Optional(Constraint):
    name = "Optional"

    def __init__(self, constraint, default):
        self.constraint = IConstraint(constraint)
        self.default = default
