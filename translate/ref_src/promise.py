# -*- test-case-name: foolscap.test.test_promise -*-

from twisted.python.failure import Failure
from twisted.internet import defer
from foolscap.eventual import eventually

EVENTUAL, CHAINED, NEAR, BROKEN = list(range(4))

class UsageError(Exception):
    """Raised when you do something inappropriate to a Promise."""

def _ignore(results):
    pass


class Promise(object):
    """I am a promise of a future result. I am a lot like a Deferred, except
    that my promised result is usually an instance. I make it possible to
    schedule method invocations on this future instance, returning Promises
    for the results.

    Promises are always in one of three states: Eventual, Fulfilled, and
    Broken. (see http://www.erights.org/elib/concurrency/refmech.html for a
    pretty picture). They start as Eventual, meaning we do not yet know
    whether they will resolve or not. In this state, method invocations are
    queued. Eventually the Promise will be 'resolved' into either the
    Fulfilled or the Broken state. Fulfilled means that the promise contains
    a live object to which methods can be dispatched synchronously. Broken
    promises are incapable of invoking methods: they all result in Failure.

    Method invocation is always asynchronous: it always returns a Promise.

    The only thing you can do with a promise 'p1' is to perform an
    eventual-send on it, like so::

     sendOnly(p1).foo(args)  # ignores the result
     p2 = send(p1).bar(args) # creates a Promise for the result
     p2 = p1.bar(args)       # same as send(p1).bar(args)

    Or wait for it to resolve, using one of the following::

     d = when(p); d.addCallback(cb)  # provides a Deferred
     p._then(cb, *args, **kwargs)    # like when(p).addCallback(cb,*a,**kw)
     p._except(cb, *args, **kwargs)  # like when(p).addErrback(cb,*a,**kw)

    The _then and _except forms return the same Promise. You can set up
    chains of calls that will be invoked in the future, using a dataflow
    style, like this::

     p = getPromiseForServer()
     d = p.getDatabase('db1')
     r = d.getRecord(name)
     def _print(record):
         print 'the record says', record
     def _oops(failure):
         print 'something failed:', failure
     r._then(_print)
     r._except(_oops)

    Or all collapsed in one sequence like::

     getPromiseForServer().getDatabase('db1').getRecord(name)._then(_print)

    The eventual-send will eventually invoke the method foo(args) on the
    promise's resolution. This will return a new Promise for the results of
    that method call.
    """

    # all our internal methods are private, to avoid a confusing lack of an
    # error message if someone tries to make a synchronous method call on us
    # with a name that happens to match an internal one.

    _state = EVENTUAL
    _useDataflowStyle = True # enables p.foo(args)

    def __init__(self):
        self._watchers = []
        self._pendingMethods = [] # list of (methname, args, kwargs, p)

    # _then and _except are our only public methods. All other access is
    # through normal (not underscore-prefixed) attribute names, which
    # indicate names of methods on the target object that should be called
    # later.
    def _then(self, cb, *args, **kwargs):
        d = self._wait_for_resolution()
        d.addCallback(cb, *args, **kwargs)
        d.addErrback(lambda ignore: None)
        return self

    def _except(self, cb, *args, **kwargs):
        d = self._wait_for_resolution()
        d.addErrback(cb, *args, **kwargs)
        return self

    # everything beyond here is private to this module

    def __repr__(self):
        return "<Promise %#x>" % id(self)

    def __getattr__(self, name):
        if not self._useDataflowStyle:
            raise AttributeError("no such attribute %s" % name)
        def newmethod(*args, **kwargs):
            return self._send(name, args, kwargs)
        return newmethod

    # _send and _sendOnly are used by send() and sendOnly(). _send is also
    # used by regular attribute access.

    def _send(self, methname, args, kwargs):
        """Return a Promise (for the result of the call) when the call is
        eventually made. The call is guaranteed to not fire in this turn."""
        # this is called by send()
        p, resolver = makePromise()
        if self._state in (EVENTUAL, CHAINED):
            self._pendingMethods.append((methname, args, kwargs, resolver))
        else:
            eventually(self._deliver, methname, args, kwargs, resolver)
        return p

    def _sendOnly(self, methname, args, kwargs):
        """Send a message like _send, but discard the result."""
        # this is called by sendOnly()
        if self._state in (EVENTUAL, CHAINED):
            self._pendingMethods.append((methname, args, kwargs, _ignore))
        else:
            eventually(self._deliver, methname, args, kwargs, _ignore)

    # _wait_for_resolution is used by when(), as well as _then and _except

    def _wait_for_resolution(self):
        """Return a Deferred that will fire (with whatever was passed to
        _resolve) when this Promise moves to a RESOLVED state (either NEAR or
        BROKEN)."""
        # this is called by when()
        if self._state in (EVENTUAL, CHAINED):
            d = defer.Deferred()
            self._watchers.append(d)
            return d
        if self._state == NEAR:
            return defer.succeed(self._target)
        # self._state == BROKEN
        return defer.fail(self._target)

    # _resolve is our resolver method, and is handed out by makePromise()

    def _resolve(self, target_or_failure):
        """Resolve this Promise to refer to the given target. If called with
        a Failure, the Promise is now BROKEN. _resolve may only be called
        once."""
        # E splits this method into two pieces resolve(result) and
        # smash(problem). It is easier for us to keep them in one piece,
        # because d.addBoth(p._resolve) is convenient.
        if self._state != EVENTUAL:
            raise UsageError("Promises may not be resolved multiple times")
        self._resolve2(target_or_failure)

    # the remaining methods are internal, for use by this class only

    def _resolve2(self, target_or_failure):
        # we may be called with a Promise, an immediate value, or a Failure
        if isinstance(target_or_failure, Promise):
            self._state = CHAINED
            when(target_or_failure).addBoth(self._resolve2)
            return
        if isinstance(target_or_failure, Failure):
            self._break(target_or_failure)
            return
        self._target = target_or_failure
        self._deliver_queued_messages()
        self._state = NEAR

    def _break(self, failure):
        # TODO: think about what you do to break a resolved promise. Once the
        # Promise is in the NEAR state, it can't be broken, but eventually
        # we're going to have a FAR state, which *can* be broken.
        """Put this Promise in the BROKEN state."""
        if not isinstance(failure, Failure):
            raise UsageError("Promises must be broken with a Failure")
        if self._state == BROKEN:
            raise UsageError("Broken Promises may not be re-broken")
        self._target = failure
        if self._state in (EVENTUAL, CHAINED):
            self._deliver_queued_messages()
        self._state = BROKEN

    def _invoke_method(self, name, args, kwargs):
        if isinstance(self._target, Failure):
            return self._target
        method = getattr(self._target, name)
        res = method(*args, **kwargs)
        return res

    def _deliverOneMethod(self, methname, args, kwargs):
        method = getattr(self._target, methname)
        return method(*args, **kwargs)

    def _deliver(self, methname, args, kwargs, resolver):
        # the resolver will be fired with both success and Failure
        t = self._target
        if isinstance(t, Promise):
            resolver(t._send(methname, args, kwargs))
        elif isinstance(t, Failure):
            resolver(t)
        else:
            d = defer.maybeDeferred(self._deliverOneMethod,
                                    methname, args, kwargs)
            d.addBoth(resolver)

    def _deliver_queued_messages(self):
        for (methname, args, kwargs, resolver) in self._pendingMethods:
            eventually(self._deliver, methname, args, kwargs, resolver)
        del self._pendingMethods
        # Q: what are the partial-ordering semantics between queued messages
        # and when() clauses that are waiting on this Promise to be resolved?
        for d in self._watchers:
            eventually(d.callback, self._target)
        del self._watchers

def resolvedPromise(resolution):
    p = Promise()
    p._resolve(resolution)
    return p

def makePromise():
    p = Promise()
    return p, p._resolve


class _MethodGetterWrapper(object):
    def __init__(self, callback):
        self.cb = [callback]

    def __getattr__(self, name):
        if name.startswith("_"):
            raise AttributeError("method %s is probably private" % name)
        cb = self.cb[0] # avoid bound-methodizing
        def newmethod(*args, **kwargs):
            return cb(name, args, kwargs)
        return newmethod


def send(o):
    """Make an eventual-send call on object C{o}. Use this as follows::

     p = send(o).foo(args)

    C{o} can either be a Promise or an immediate value. The arguments can
    either be promises or immediate values.

    send() always returns a Promise, and the o.foo(args) method invocation
    always takes place in a later reactor turn.

    Many thanks to Mark Miller for suggesting this syntax to me.
    """
    if isinstance(o, Promise):
        return _MethodGetterWrapper(o._send)
    p = resolvedPromise(o)
    return _MethodGetterWrapper(p._send)

def sendOnly(o):
    """Make an eventual-send call on object C{o}, and ignore the results.
    """

    if isinstance(o, Promise):
        return _MethodGetterWrapper(o._sendOnly)
    # this is a little bit heavyweight for a simple eventually(), but it
    # makes the code simpler
    p = resolvedPromise(o)
    return _MethodGetterWrapper(p._sendOnly)


def when(p):
    """Turn a Promise into a Deferred that will fire with the enclosed object
    when it is ready. Use this when you actually need to schedule something
    to happen in a synchronous fashion. Most of the time, you can just invoke
    methods on the Promise as if it were immediately available."""

    assert isinstance(p, Promise)
    return p._wait_for_resolution()
