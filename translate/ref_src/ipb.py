

from zope.interface import interface
Interface = interface.Interface

# TODO: move these here
from foolscap.tokens import ISlicer, IRootSlicer, IUnslicer
_ignored = [ISlicer, IRootSlicer, IUnslicer] # hush pyflakes

class InvalidHintError(Exception):
    """The hint was malformed and could not be used."""

class IConnectionHintHandler(Interface):
    def hint_to_endpoint(hint, reactor, update_status):
        """Return (endpoint, hostname), or a Deferred that fires with the
        same, where endpoint is an IStreamClientEndpoint object, and hostname
        is a string (for use in the HTTP headers during negotiation). The
        endpoint, once connected, must be capable of handling .startTLS().
        Hints are strings which always start with 'TYPE:', and handlers are
        registered for specific types (and will not be called with hints of
        other types). update_status() can be called (with a string) to report
        progress, and should typically be set just before waiting for some
        connections step (e.g. connecting to a Tor daemon). Raise
        InvalidHintError (or return a Deferred that errbacks with one) if the
        hint could not be parsed or otherwise turned into an Endpoint. Set an
        attribute named 'foolscap_connection_handler_error' on the exception
        object to have `ConnectionInfo.connectorStatuses()` report that
        string instead of an exception-class -based status message."""

    def describe():
        """Return a short string describing this handler, like 'tcp' or
        'tor'. If this method is not implemented, the handler's repr will be
        used."""

class DeadReferenceError(Exception):
    """The RemoteReference is dead, Jim."""
    def __init__(self, why=None, remote_tubid=None, request=None):
        self.why = why
        self.remote_tubid = remote_tubid
        self.request = request

    def __str__(self):
        args = []
        if self.why:
            args.append(self.why)
        if self.remote_tubid:
            args.append("(to tubid=%s)" % self.remote_tubid)
        if self.request:
            iname, mname = self.request.getMethodNameInfo()
            args.append("(during method=%s:%s)" % (iname, mname))
        return " ".join([str(a) for a in args])


class IReferenceable(Interface):
    """This object is remotely referenceable. This means it is represented to
    remote systems as an opaque identifier, and that round-trips preserve
    identity.
    """

    def processUniqueID():
        """Return a unique identifier (scoped to the process containing the
        Referenceable). Most objects can just use C{id(self)}, but objects
        which should be indistinguishable to a remote system may want
        multiple objects to map to the same PUID."""

class IRemotelyCallable(Interface):
    """This object is remotely callable. This means it defines some remote_*
    methods and may have a schema which describes how those methods may be
    invoked.
    """

    def getInterfaceNames():
        """Return a list of RemoteInterface names to which this object knows
        how to respond."""

    def doRemoteCall(methodname, args, kwargs):
        """Invoke the given remote method. This method may raise an
        exception, return normally, or return a Deferred."""

class ITub(Interface):
    """This marks a Tub."""

class IBroker(Interface):
    """This marks a broker."""

class IRemoteReference(Interface):
    """This marks a RemoteReference."""

    def notifyOnDisconnect(callback, *args, **kwargs):
        """Register a callback to run when we lose this connection.

        The callback will be invoked with whatever extra arguments you
        provide to this function. For example::

         def my_callback(name, number):
             print name, number+4
         cookie = rref.notifyOnDisconnect(my_callback, 'bob', number=3)

        This function returns an opaque cookie. If you want to cancel the
        notification, pass this same cookie back to dontNotifyOnDisconnect::

         rref.dontNotifyOnDisconnect(cookie)

        Note that if the Tub is shutdown (via stopService), all
        notifyOnDisconnect handlers are cancelled.
        """

    def dontNotifyOnDisconnect(cookie):
        """Deregister a callback that was registered with notifyOnDisconnect.
        """

    def callRemote(name, *args, **kwargs):
        """Invoke a method on the remote object with which I am associated.

        I always return a Deferred. This will fire with the results of the
        method when and if the remote end finishes. It will errback if any of
        the following things occur::

         the arguments do not match the schema I believe is in use by the
         far end (causes a Violation exception)

         the connection to the far end has been lost (DeadReferenceError)

         the arguments are not accepted by the schema in use by the far end
         (Violation)

         the method executed by the far end raises an exception (arbitrary)

         the return value of the remote method is not accepted by the schema
         in use by the far end (Violation)

         the connection is lost before the response is returned
         (ConnectionLost)

         the return value is not accepted by the schema I believe is in use
         by the far end (Violation)
        """

    def callRemoteOnly(name, *args, **kwargs):
        """Invoke a method on the remote object with which I am associated.

        This form is for one-way messages that do not require results or even
        acknowledgement of completion. I do not wait for the method to finish
        executing. The remote end will be instructed to not send any
        response. There is no way to know whether the method was successfully
        delivered or not.

        I always return None.
        """

