from twisted.python.failure import Failure
from zope.interface import Attribute, Interface

# delimiter characters.
LIST     = b'\x80' # old
INT      = b'\x81'
STRING   = b'\x82'
NEG      = b'\x83'
FLOAT    = b'\x84'
# "optional" -- these might be refused by a low-level implementation.
LONGINT  = b'\x85' # old
LONGNEG  = b'\x86' # old
# really optional; this is is part of the 'pb' vocabulary
VOCAB    = b'\x87'
# newbanana tokens
OPEN     = b'\x88'
CLOSE    = b'\x89'
ABORT    = b'\x8A'
ERROR    = b'\x8D'
PING     = b'\x8E'
PONG     = b'\x8F'

tokenNames = {
    LIST: "LIST",
    INT: "INT",
    STRING: "STRING",
    NEG: "NEG",
    FLOAT: "FLOAT",
    LONGINT: "LONGINT",
    LONGNEG: "LONGNEG",
    VOCAB: "VOCAB",
    OPEN: "OPEN",
    CLOSE: "CLOSE",
    ABORT: "ABORT",
    ERROR: "ERROR",
    PING: "PING",
    PONG: "PONG",
    }

SIZE_LIMIT = 1000 # default limit on the body length of long tokens (STRING,
                  # LONGINT, LONGNEG, ERROR)

class InvalidRemoteInterface(Exception):
    pass
class UnknownSchemaType(Exception):
    pass

class Violation(Exception):
    """This exception is raised in response to a schema violation. It
    indicates that the incoming token stream has violated a constraint
    imposed by the recipient. The current Unslicer is abandoned and the
    error is propagated upwards to the enclosing Unslicer parent by
    providing an BananaFailure object to the parent's .receiveChild method.
    All remaining tokens for the current Unslicer are to be dropped.
    """

    """.where: this string describes which node of the object graph was
    being handled when the exception took place."""
    where = ""

    def setLocation(self, where):
        self.where = where
    def getLocation(self):
        return self.where
    def prependLocation(self, prefix):
        if self.where:
            self.where = prefix + " " + self.where
        else:
            self.where = prefix
    def appendLocation(self, suffix):
        if self.where:
            self.where = self.where + " " + suffix
        else:
            self.where = suffix

    def __str__(self):
        if self.where:
            return "Violation (%s): %s" % (self.where, self.args)
        else:
            return "Violation: %s" % (self.args,)

class RemoteException(Exception):
    """When the Tub is in expose-remote-exception-types=False mode, this
    exception is raised in response to any remote exception. It wraps a
    CopiedFailure, which can be examined by callers who want to know more
    than the fact that something failed on the remote end."""
    def __init__(self, failure):
        self.failure = failure
    def __str__(self):
        return "<RemoteException around '%s'>" % str(self.failure)


class BananaError(Exception):
    """This exception is raised in response to a fundamental protocol
    violation. The connection should be dropped immediately.

    .where is an optional string that describes the node of the object graph
    where the failure was noticed.
    """
    where = None

    def __str__(self):
        if self.where:
            return "BananaError(in %s): %s" % (self.where, self.args)
        else:
            return "BananaError: %s" % (self.args,)

class NegotiationError(Exception):
    pass
class DuplicateConnection(NegotiationError):
    pass

class RemoteNegotiationError(Exception):
    """The other end hung up on us because they had a NegotiationError on
    their side."""
    pass

class PBError(Exception):
    pass

class BananaFailure(Failure):
    """This is a marker subclass of Failure, to let Unslicer.receiveChild
    distinguish between an unserialized Failure instance and a a failure in
    a child Unslicer"""
    pass

class WrongTubIdError(Exception):
    """getReference(furlFile=) used a FURL with a different TubID"""
class WrongNameError(Exception):
    """getReference(furlFule=) used a FURL with a different name"""

class NoLocationError(Exception):
    """This Tub has no location set, so we cannot make references to it."""

class NoLocationHintsError(Exception):
    """We cannot make a connection without some location hints"""

class ISlicer(Interface):
    """I know how to slice objects into tokens."""

    sendOpen = Attribute(\
"""True if an OPEN/CLOSE token pair should be sent around the Slicer's body
tokens. Only special-purpose Slicers (like the RootSlicer) should use False.
""")

    trackReferences = Attribute(\
"""True if the object we slice is referenceable: i.e. it is useful or
necessary to send multiple copies as a single instance and a bunch of
References, rather than as separate copies. Instances are referenceable, as
are mutable containers like lists.""")

    streamable = Attribute(\
"""True if children of this object are allowed to use Deferreds to stall
production of new tokens. This must be set in slice() before yielding each
child object, and affects that child and all descendants. Streaming is only
allowed if the parent also allows streaming: if slice() is called with
streamable=False, then self.streamable must be False too. It can be changed
from within the slice() generator at any time as long as this restriction is
obeyed.

This attribute is read when each child Slicer is started.""")


    def slice(streamable, banana):
        """Return an iterator which provides Index Tokens and the Body
        Tokens of the object's serialized form. This is frequently
        implemented with a generator (i.e. 'yield' appears in the body of
        this function). Do not yield the OPEN or the CLOSE token, those will
        be handled elsewhere.

        If a Violation exception is raised, slicing will cease. An ABORT
        token followed by a CLOSE token will be emitted.

        If 'streamable' is True, the iterator may yield a Deferred to
        indicate that slicing should wait until the Deferred is fired. If
        the Deferred is errbacked, the connection will be dropped. TODO: it
        should be possible to errback with a Violation."""

    def registerRefID(refid, obj):
        """Register the relationship between 'refid' (a number taken from
        the cumulative count of OPEN tokens sent over our connection: 0 is
        the object described by the very first OPEN sent over the wire) and
        the object. If the object is sent a second time, a Reference may be
        used in its place.

        Slicers usually delgate this function upwards to the RootSlicer, but
        it can be handled at any level to allow local scoping of references
        (they might only be valid within a single RPC invocation, for
        example).

        This method is *not* allowed to raise a Violation, as that will mess
        up the transmit logic. If it raises any other exception, the
        connection will be dropped."""

    def childAborted(f):
        """Notify the Slicer that one of its child slicers (as produced by
        its .slice iterator) has caused an error. If the slicer got started,
        it has now emitted an ABORT token and terminated its token stream.
        If it did not get started (usually because the child object was
        unserializable), there has not yet been any trace of the object in
        the token stream.

        The corresponding Unslicer (receiving this token stream) will get an
        BananaFailure and is likely to ignore any remaining tokens from us,
        so it may be reasonable for the parent Slicer to give up as well.

        If the Slicer wishes to abandon their own sequence, it should simply
        return the failure object passed in. If it wants to absorb the
        error, it should return None."""

    def slicerForObject(obj):
        """Get a new Slicer for some child object. Slicers usually delegate
        this method up to the RootSlicer. References are handled by
        producing a ReferenceSlicer here. These references can have various
        scopes.

        If something on the stack does not want the object to be sent, it can
        raise a Violation exception. This is the 'taster' function."""

    def describe():
        """Return a short string describing where in the object tree this
        slicer is sitting, relative to its parent. These strings are
        obtained from every slicer in the stack, and joined to describe
        where any problems occurred."""

class IRootSlicer(Interface):
    def allowStreaming(streamable):
        """Specify whether or not child Slicers will be allowed to stream."""
    def connectionLost(why):
        """Called when the transport is closed. The RootSlicer may choose to
        abandon objects being sent here."""

class IUnslicer(Interface):
    # .parent

    # start/receiveChild/receiveClose/finish are
    # the main "here are some tokens, make an object out of them" entry
    # points used by Unbanana.

    # start/receiveChild can call self.protocol.abandonUnslicer(failure,
    # self) to tell the protocol that the unslicer has given up on life and
    # all its remaining tokens should be discarded. The failure will be
    # given to the late unslicer's parent in lieu of the object normally
    # returned by receiveClose.

    # start/receiveChild/receiveClose/finish may raise a Violation
    # exception, which tells the protocol that this object is contaminated
    # and should be abandoned. An BananaFailure will be passed to its
    # parent.

    # Note, however, that it is not valid to both call abandonUnslicer *and*
    # raise a Violation. That would discard too much.

    def setConstraint(constraint):
        """Add a constraint for this unslicer. The unslicer will enforce
        this constraint upon all incoming data. The constraint must be of an
        appropriate type (a ListUnslicer will only accept a ListConstraint,
        etc.). It must not be None. To leave us unconstrained, do not call
        this method.

        If this method is not called, the Unslicer will accept any valid
        banana as input, which probably means there is no limit on the
        number of bytes it will accept (and therefore on the memory it could
        be made to consume) before it finally accepts or rejects the input.
        """

    def start(count):
        """Called to initialize the new slice. The 'count' argument is the
        reference id: if this object might be shared (and therefore the
        target of a 'reference' token), it should call
        self.protocol.setObject(count, obj) with the object being created.
        If this object is not available yet (tuples), it should save a
        Deferred there instead.
        """

    def checkToken(typebyte, size):
        """Check to see if the given token is acceptable (does it conform to
        the constraint?). It will not be asked about ABORT or CLOSE tokens,
        but it *will* be asked about OPEN. It should enfore a length limit
        for long tokens (STRING and LONGINT/LONGNEG types). If STRING is
        acceptable, then VOCAB should be too. It should return None if the
        token and the size are acceptable. Should raise Violation if the
        schema indiates the token is not acceptable. Should raise
        BananaError if the type byte violates the basic Banana protocol. (if
        no schema is in effect, this should never raise Violation, but might
        still raise BananaError).
        """

    def openerCheckToken(typebyte, size, opentype):
        """'typebyte' is the type of an incoming index token. 'size' is the
        value of header associated with this typebyte. 'opentype' is a list
        of open tokens that we've received so far, not including the one
        that this token hopes to create.

        This method should ask the current opener if this index token is
        acceptable, and is used in lieu of checkToken() when the receiver is
        in the index phase. Usually implemented by calling
        self.opener.openerCheckToken, thus delegating the question to the
        RootUnslicer.
        """

    def doOpen(opentype):
        """opentype is a tuple. Return None if more index tokens are
        required. Check to see if this kind of child object conforms to the
        constraint, raise Violation if not. Create a new Unslicer (usually
        by delegating to self.parent.doOpen, up to the RootUnslicer). Set a
        constraint on the child unslicer, if any.
        """

    def receiveChild(childobject,
                     ready_deferred):
        """'childobject' is being handed to this unslicer. It may be a
        primitive type (number or string), or a composite type produced by
        another Unslicer. It might also be a Deferred, which indicates that
        the actual object is not ready (perhaps a tuple with an element that
        is not yet referenceable), in which case you should add a callback
        to it that will fill in the appropriate object later. This callback
        is required to return the object when it is done, so multiple such
        callbacks can be chained. The childobject/ready_deferred argument
        pair is taken directly from the output of receiveClose(). If
        ready_deferred is non-None, you should return a dependent Deferred
        from your own receiveClose method."""

    def reportViolation(bf):
        """You have received an error instead of a child object. If you wish
        to give up and propagate the error upwards, return the BananaFailure
        object you were just given. To absorb the error and keep going with
        your sequence, return None."""

    def receiveClose():
        """Called when the Close token is received. Returns a tuple of
        (object/referenceable-deferred, complete-deferred), or an
        BananaFailure if something went wrong. There are four potential
        cases::

         (obj, None): the object is complete and ready to go
         (d1, None): the object cannot be referenced yet, probably
                     because it is an immutable container, and one of its
                     children cannot be referenced yet. The deferred will
                     fire by the time the cycle has been fully deserialized,
                     with the object as its argument.
         (obj, d2): the object can be referenced, but it is not yet
                    complete, probably because some component of it is
                    'slow' (see below). The Deferred will fire (with an
                    argument of None) when the object is ready to be used.
                    It is not guaranteed to fire by the time the enclosing
                    top-level object has finished deserializing.
         (d1, d2): the object cannot yet be referenced, and even if it could
                   be, it would not yet be ready for use. Any potential users
                   should wait until both deferreds fire before using it.

        The first deferred (d1) is guaranteed to fire before the top-most
        enclosing object (a CallUnslicer, for PB methods) is closed. (if it
        does not fire, that indicates a broken cycle). It is present to
        handle cycles that include immutable containers, like tuples.
        Mutable containers *must* return a reference to an object (even if
        it is not yet ready to be used, because it contains placeholders to
        tuples that have not yet been created), otherwise those cycles
        cannot be broken and the object graph will not reconstructable.

        The second (d2) has no such guarantees about when it will fire. It
        indicates a dependence upon 'slow' external events. The first use
        case for such 'slow' objects is a globally-referenceable object
        which requires a new Broker connection before it can be used, so the
        Deferred will not fire until a TCP connection has been established
        and the first stages of PB negotiation have been completed.

        If necessary, unbanana.setObject should be called, then the Deferred
        created in start() should be fired with the new object."""

    def finish():
        """Called when the unslicer is popped off the stack. This is called
        even if the pop is because of an exception. The unslicer should
        perform cleanup, including firing the Deferred with an
        BananaFailure if the object it is creating could not be created.

        TODO: can receiveClose and finish be merged? Or should the child
        object be returned from finish() instead of receiveClose?
        """

    def describe():
        """Return a short string describing where in the object tree this
        unslicer is sitting, relative to its parent. These strings are
        obtained from every unslicer in the stack, and joined to describe
        where any problems occurred."""

    def where():
        """This returns a string that describes the location of this
        unslicer, starting at the root of the object tree."""
