import copy

from collections import deque

# Note: when changing this class, you should un-comment all the lines that say
# "assert self._assert_invariants()".

class StringChain(object):
    def __init__(self):
        self.d = deque()
        self.ignored = 0
        self.tailignored = 0
        self.len = 0

    def append(self, s):
        """ Add s to the end of the chain. """
        assert isinstance(s, bytes)
        #assert self._assert_invariants()
        if not s:
            return

        # First trim off any ignored tail bytes.
        if self.tailignored:
            self.d[-1] = self.d[-1][:-self.tailignored]
            self.tailignored = 0

        self.d.append(s)
        self.len += len(s)
        #assert self._assert_invariants()

    def appendleft(self, s):
        """ Add s to the beginning of the chain. """
        assert isinstance(s, bytes)
        #assert self._assert_invariants()
        if not s:
            return

        # First trim off any ignored bytes.
        if self.ignored:
            self.d[0] = self.d[0][self.ignored:]
            self.ignored = 0

        self.d.appendleft(s)
        self.len += len(s)
        #assert self._assert_invariants()

    def as_bytes(self):
        """ Return the entire contents of this chain as a single
        string. (Obviously this requires copying all of the bytes, so don't do
        this unless you need to.) This has a side-effect of collecting all the
        bytes in this StringChain object into a single string which is stored
        in the first element of its internal deque. """
        self._collapse()
        if self.d:
            return self.d[0]
        else:
            return b''

    def popleft_new_stringchain(self, numbytes):
        """ Remove some of the leading bytes of the chain and return them as a
        new StringChain object. (Use str() on it if you want the bytes in a
        string, or call popleft() instead of popleft_new_stringchain().) """
        #assert self._assert_invariants()
        if not numbytes or not self.d:
            return self.__class__()

        assert numbytes >= 0, numbytes

        # We need to add at least this many bytes to the new StringChain.
        bytesleft = numbytes + self.ignored
        n = self.__class__()
        n.ignored = self.ignored

        while bytesleft > 0 and self.d:
            s = self.d.popleft()
            self.len -= (len(s) - self.ignored)
            n.d.append(s)
            n.len += (len(s)-self.ignored)
            self.ignored = 0
            bytesleft -= len(s)

        overrun = - bytesleft

        if overrun > 0:
            self.d.appendleft(s)
            self.len += overrun
            self.ignored = len(s) - overrun
            n.len -= overrun
            n.tailignored = overrun
        else:
            self.ignored = 0

        # Either you got exactly how many you asked for, or you drained self entirely and you asked for more than you got.
        #assert (n.len == numbytes) or ((not self.d) and (numbytes > self.len)), (n.len, numbytes, len(self.d))

        #assert self._assert_invariants()
        #assert n._assert_invariants()
        return n

    def popleft(self, numbytes):
        """ Remove some of the leading bytes of the chain and return them as a
        string. """
        #assert self._assert_invariants()
        if not numbytes or not self.d:
            return b''

        assert numbytes >= 0, numbytes

        # We need to add at least this many bytes to the result.
        bytesleft = numbytes
        resstrs = []

        s = self.d.popleft()
        if self.ignored:
            s = s[self.ignored:]
            self.ignored = 0
        self.len -= len(s)
        resstrs.append(s)
        bytesleft -= len(s)

        while bytesleft > 0 and self.d:
            s = self.d.popleft()
            self.len -= len(s)
            resstrs.append(s)
            bytesleft -= len(s)

        overrun = - bytesleft

        if overrun > 0:
            self.d.appendleft(s)
            self.ignored = (len(s) - overrun)
            self.len += overrun
            resstrs[-1] = resstrs[-1][:-overrun]

        resstr = b''.join(resstrs)

        # Either you got exactly how many you asked for, or you drained self entirely and you asked for more than you got.
        #assert (len(resstr) == numbytes) or ((not self.d) and (numbytes > self.len)), (len(resstr), numbytes, len(self.d), overrun)

        #assert self._assert_invariants()

        return resstr

    def __len__(self):
        #assert self._assert_invariants()
        return self.len

    def trim(self, numbytes):
        """ Trim off some of the leading bytes. """
        #assert self._assert_invariants()
        self.ignored += numbytes
        self.len -= numbytes
        while self.d and self.ignored >= len(self.d[0]):
            s = self.d.popleft()
            self.ignored -= len(s)
        if self.len < 0:
            self.len = 0
        if not self.d:
            self.ignored = 0
        #assert self._assert_invariants()

    def clear(self):
        """ Empty it out. """
        #assert self._assert_invariants()
        self.d.clear()
        self.ignored = 0
        self.tailignored = 0
        self.len = 0
        #assert self._assert_invariants()

    def copy(self):
        n = self.__class__()
        n.ignored = self.ignored
        n.tailignored = self.tailignored
        n.len = self.len
        n.d = copy.copy(self.d)
        #assert n._assert_invariants()
        return n

    def _assert_invariants(self):
        assert self.ignored >= 0, self.ignored
        assert self.tailignored >= 0, self.tailignored
        assert self.len >= 0, self.len
        assert (not self.d) or (self.d[0]), \
               ("First element is required to be non-empty.", self.d and self.d[0])
        assert (not self.d) or (self.ignored < len(self.d[0])), \
               (self.ignored, self.d and len(self.d[0]))
        assert (not self.d) or (self.tailignored < len(self.d[-1])), \
               (self.tailignored, self.d and len(self.d[-1]))
        assert self.ignored+self.len+self.tailignored == sum([len(x) for x in self.d]), \
               (self.ignored, self.len, self.tailignored, sum([len(x) for x in self.d]))
        return True

    def _collapse(self):
        """ Concatenate all of the strings into one string and make that string
        be the only element of the chain. (Obviously this requires copying all
        of the bytes, so don't do this unless you need to.) """
        #assert self._assert_invariants()
        # First trim off any leading ignored bytes.
        if self.ignored:
            self.d[0] = self.d[0][self.ignored:]
            self.ignored = 0
        # Then any tail ignored bytes.
        if self.tailignored:
            self.d[-1] = self.d[-1][:-self.tailignored]
            self.tailignored = 0
        if len(self.d) > 1:
            newstr = b''.join(self.d)
            self.d.clear()
            self.d.append(newstr)
        #assert self._assert_invariants()
