import re
import six
from foolscap import base32

class BadFURLError(Exception):
    pass

AUTH_STURDYREF_RE = re.compile(r"pb://([^@]+)@([^/]*)/(.+)$")

def decode_furl(furl): # takes either, returns native
    """Returns (tubID, location_hints, name)"""
    # pb://key@{ip:port,host:port,[ipv6]:port}[/unix]/swissnumber
    # i.e. pb://tubID@{locationHints..}/name
    #
    # it can live at any one of a (TODO) variety of network-accessible
    # locations, or (TODO) at a single UNIX-domain socket.
    furl = six.ensure_str(furl)

    mo_auth_furl = AUTH_STURDYREF_RE.search(furl)
    if mo_auth_furl:
        # we only pay attention to the first 32 base32 characters
        # of the tubid string. Everything else is left for future
        # extensions.
        tubID_s = mo_auth_furl.group(1)
        tubID = tubID_s[:32]
        if not base32.is_base32(tubID):
            raise BadFURLError("'%s' is not a valid tubid" % (tubID,))
        hints = mo_auth_furl.group(2)
        location_hints = hints.split(",")
        if location_hints == [""]:
            location_hints = []
        if "" in location_hints:
            raise BadFURLError("no connection hint may be empty")
        # it is legal to have no hints at all: an empty string turns into an
        # empty list
        name = mo_auth_furl.group(3)

    else:
        raise ValueError("unknown FURL prefix in %r" % (furl,))
    return (tubID, location_hints, name)

def encode_furl(tubID, location_hints, name):
    location_hints_s = ",".join([six.ensure_str(hint) for hint in location_hints])
    return "pb://" + six.ensure_str(tubID) + "@" + location_hints_s + "/" + six.ensure_str(name)
