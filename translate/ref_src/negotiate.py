# -*- test-case-name: foolscap.test.test_negotiate -*-

import time
import six
from twisted.python.failure import Failure
from twisted.internet import protocol, reactor, defer
from twisted.internet.error import ConnectionDone

from foolscap import broker, referenceable, vocab
from foolscap.eventual import eventually
from foolscap.tokens import (SIZE_LIMIT, ERROR,
                             BananaError, NegotiationError,
                             RemoteNegotiationError, DuplicateConnection)
from foolscap.ipb import DeadReferenceError
from foolscap.banana import int2b128
from foolscap.logging import log
from foolscap.logging.log import NOISY, OPERATIONAL, WEIRD, UNUSUAL, CURIOUS
from foolscap.util import isSubstring
from foolscap import crypto

def best_overlap(my_min, my_max, your_min, your_max, name):
    """Find the highest integer which is in both ranges (inclusive).
    Raise NegotiationError (using 'name' in the error message) if there
    is no overlap."""
    best = min(my_max, your_max)
    if best < my_min:
        raise NegotiationError("I can't handle %s %d" % (name, best))
    if best < your_min:
        raise NegotiationError("You can't handle %s %d" % (name, best))
    return best

def check_inrange(my_min, my_max, decision, name):
    if decision < my_min or decision > my_max:
        raise NegotiationError("I can't handle %s %d" % (name, decision))

# negotiation phases
PLAINTEXT, ENCRYPTED, DECIDING, BANANA, ABANDONED = list(range(5))


# version number history:
#  1 (0.1.0): offer includes initial-vocab-table-range,
#             decision includes initial-vocab-table-index
#  2 (0.1.1): no changes to offer or decision
#             reqID=0 was commandeered for use by callRemoteOnly()
#  3 (0.1.3): added PING and PONG tokens

class Negotiation(protocol.Protocol):
    """This is the first protocol to speak over the wire. It is responsible
    for negotiating the connection parameters, then switching the connection
    over to the actual Banana protocol. This removes all the details of
    negotiation from Banana, and makes it easier to use a more complex scheme
    (including a STARTTLS transition) in PB.

    Negotiation consists of three phases. In the PLAINTEXT phase, the client
    side (i.e. the one which initiated the connection) sends an
    HTTP-compatible GET request for the target Tub ID. This request includes
    an Connection: Upgrade header. The GET request serves a couple of
    purposes: if a PB client is accidentally pointed at an HTTP server, it
    will trigger a sensible 404 Error instead of getting confused. A regular
    HTTP server can be used to send back a 303 Redirect, allowing Apache (or
    whatever) to be used as a redirection server.

    After sending the GET request, the client waits for the server to send a
    101 Switching Protocols command, then starts the TLS session. It may also
    receive a 303 Redirect command, in which case it drops the connection and
    tries again with the new target.

    In the PLAINTEXT phase, the server side (i.e. the one which accepted the
    connection) waits for the client's GET request, extracts the TubID from
    the first line, consults the local Listener object to locate the
    appropriate Tub (and its certificate), sends back a 101 Switching
    Protocols response, then starts the TLS session with the Tub's
    certificate. If the Listener reports that the requested Tub is listening
    elsewhere, the server sends back a 303 Redirect instead, and then drops
    the connection.

    By the end of the PLAINTEXT phase, both ends know which Tub they are
    using (self.tub has been set).

    Both sides send a Hello Block upon entering the ENCRYPTED phase, which in
    practice means just after starting the TLS session. The Hello block
    contains the negotiation offer, as a series of Key: Value lines separated
    by \\r\\n delimiters and terminated by a blank line. Upon receiving the
    other end's Hello block, each side switches to the DECIDING phase, and
    then evaluates the received Hello message.

    Each side compares TubIDs, and the side with the lexicographically higher
    value becomes the Master. (If, for some reason, one side does not claim a
    TubID, its value is treated as None, which always compares *less* than
    any actual TubID, so the non-TubID side will probably not be the Master.
    Any possible ties are resolved by having the server side be the master).
    Both sides know the other's TubID, so both sides know whether they are
    the Master or not.

    The Master has two jobs to do. The first is that it compares the
    negotiation offer against its own capabilities, and comes to a decision
    about what the connection parameters shall be. It may decide that the two
    sides are not compatible, in which case it will abandon the connection.
    The second job is to decide whether to continue to use the connection at
    all: if the Master already has a connection to the other Tub, it will
    drop this new one. This decision must be made by the Master (as opposed
    to the Server) because it is possible for both Tubs to connect to each
    other simultaneously, and this design avoids a race condition that could
    otherwise drop *both* connections.

    If the Master decides to continue with the connection, it sends the
    Decision block to the non-master side. It then swaps out the Negotiation
    protocol for a new Banana protocol instance that has been created with
    the same parameters that were used to create the Decision block.

    The non-master side is waiting in the DECIDING phase for this block. Upon
    receiving it, the non-master side evaluates the connection parameters and
    either drops the connection or swaps in a new Banana protocol instance
    with the same parameters. At this point, negotiation is complete and the
    Negotiation instances are dropped.


    @ivar negotationOffer: a dict which describes what we will offer to the
    far side. Each key/value pair will be put into a rfc822-style header and
    sent from the client to the server when the connection is established. On
    the server side, handleNegotiation() uses negotationOffer to indicate
    what we are locally capable of.

    Subclasses may influence the negotiation process by modifying this
    dictionary before connectionMade() is called.

    @ivar negotiationResults: a dict which describes what the two ends have
    agreed upon. This is computed by the server, stored locally, and sent
    down to the client. The client receives it and stores it without
    modification (server chooses).

    In general, the negotiationResults are the same on both sides of the same
    connection. However there may be certain parameters which are sent as
    part of the negotiation block (the PB TubID, for example) which will not.

    """

    myTubID = None
    tub = None
    theirTubID = None

    receive_phase = PLAINTEXT # we are expecting this
    send_phase = PLAINTEXT # the other end is expecting this

    doNegotiation = True
    forceNegotiation = None

    minVersion = 3
    maxVersion = 3

    brokerClass = broker.Broker

    initialVocabTableRange = vocab.getVocabRange()

    SERVER_TIMEOUT = 120 # You have 2 minutes to complete negotiation, or
                         # else. The only reason this isn't closer to 10s is
                         # that Tor/I2P connection establishment might
                         # include spinning up a local Tor/I2P daemon, which
                         # can take 30-50 seconds from a cold start.
    negotiationTimer = None

    def __init__(self, logparent=None):
        self._logparent = log.msg("Negotiation started", parent=logparent,
                                  facility="foolscap.negotiation")
        for i in range(self.minVersion, self.maxVersion+1):
            assert hasattr(self, "evaluateNegotiationVersion%d" % i), i
            assert hasattr(self, "acceptDecisionVersion%d" % i), i
        assert isinstance(self.initialVocabTableRange, tuple)
        self.negotiationOffer = {
            "banana-negotiation-range": "%d %d" % (self.minVersion,
                                                   self.maxVersion),
            "initial-vocab-table-range": "%d %d" % self.initialVocabTableRange,
            }
        # TODO: for testing purposes, it might be useful to be able to add
        # some keys to this offer
        if self.forceNegotiation is not None:
            # TODO: decide how forcing should work. Maybe forceNegotiation
            # should be a dict of keys or something. distinguish between
            # offer and decision.
            self.negotiationOffer['negotiation-forced'] = "True"
        self.buffer = b""
        self._test_options = {}
        # to trigger specific race conditions during unit tests, it is useful
        # to allow certain operations to be stalled for a moment.
        # self._test_options will contain a key like
        # debug_slow_connectionMade to indicate that there should be a 1
        # second delay between the real connectionMade and the time our
        # self.connectionMade() method is invoked. To support this, the first
        # time connectionMade() is invoked,
        # self.debugTimers['connectionMade'] is set to a 1s DelayedCall,
        # which fires self.debug_fireTimer('connectionMade', callable,
        # *args). That will set self.debugTimers['connectionMade'] to None,
        # so the condition is not fired again, then invoke the actual
        # connectionMade method. When the connection is lost, all remaining
        # timers will be canceled.
        self.debugTimers = {}

        self.debugPauses = {} # similar, but holds a Deferred

        # if anything goes wrong during negotiation (version mismatch,
        # malformed headers, assertion checks), we stash the Failure in this
        # attribute and then drop the connection. For client-side
        # connections, we notify our parent TubConnector when the
        # connectionLost() message is finally delivered.
        self.failureReason = None

    def log(self, *args, **kwargs):
        # we log as NOISY by default, because nobody should hear about
        # negotiation unless it goes wrong.
        if 'parent' not in kwargs:
            kwargs['parent'] = self._logparent
        if 'facility' not in kwargs:
            kwargs['facility'] = "foolscap.negotiation"
        if 'level' not in kwargs:
            kwargs['level'] = log.NOISY
        return log.msg(*args, **kwargs)

    def initClient(self, connector, targetHost, connectionInfo):
        # clients do connectTCP and speak first with a GET
        self.log("initClient: to target %s" % connector.target,
                 target=connector.target.getTubID())
        self.isClient = True
        self.tub = connector.tub
        self.brokerClass = self.tub.brokerClass
        self.myTubID = self.tub.tubID
        self.connector = connector
        self.target = connector.target
        self.targetHost = targetHost
        self._connectionInfo = connectionInfo
        self._test_options = self.tub._test_options.copy()
        tubID = self.target.getTubID()
        slave_record = self.tub.slave_table.get(tubID, ("none",0))
        assert isinstance(slave_record, tuple), slave_record
        self.negotiationOffer['last-connection'] = "%s %s" % slave_record

    def initServer(self, listener, connectionInfo):
        # servers do listenTCP and respond to the GET
        self.log("initServer", listener=repr(listener))
        self.isClient = False
        self.listener = listener
        self._connectionInfo = connectionInfo
        self._test_options = self.listener._test_options.copy()
        # the broker class is set when we find out which Tub we should use

    def parseLines(self, header):
        lines = header.split(b"\r\n")
        block = {}
        for line in lines:
            colon = line.index(b":")
            key = line[:colon].lower()
            value = line[colon+1:].lstrip()
            block[six.ensure_str(key)] = six.ensure_str(value)
        return block

    def sendBlock(self, block):
        keys = list(block.keys())
        keys.sort()
        for k in keys:
            self.transport.write(six.ensure_binary(k.lower()) +
                                 b": " +
                                 six.ensure_binary(str(block[k])) +
                                 b"\r\n")
        self.transport.write(b"\r\n") # end block

    def debug_doTimer(self, name, timeout, call, *args):
        if ("debug_slow_%s" % name in self._test_options and
            name not in self.debugTimers):
            self.log("debug_doTimer(%s)" % name)
            t = reactor.callLater(timeout, self.debug_fireTimer, name)
            self.debugTimers[name] = (t, [(call, args)])
            cb = self._test_options["debug_slow_%s" % name]
            if cb is not None and cb is not True:
                cb()
            return True
        return False

    def debug_doPause(self, name, call, *args):
        cb = self._test_options.get("debug_pause_%s" % name, None)
        if not cb:
            return False
        if name in self.debugPauses:
            return False
        self.log("debug_doPause(%s)" % name)
        self.debugPauses[name] = d = defer.Deferred()
        d.addCallback(lambda _: call(*args))
        try:
            cb(d)
        except Exception as e:
            print(e) # otherwise failures are hard to track down
            raise
        return True

    def debug_addTimerCallback(self, name, call, *args):
        if self.debugTimers.get(name):
            self.debugTimers[name][1].append((call, args))
            return True
        return False

    def debug_forceTimer(self, name):
        if self.debugTimers.get(name):
            self.debugTimers[name][0].cancel()
            self.debug_fireTimer(name)

    def debug_forceAllTimers(self):
        for name in self.debugTimers:
            if self.debugTimers.get(name):
                self.debugTimers[name][0].cancel()
                self.debug_fireTimer(name)

    def debug_cancelAllTimers(self):
        for name in self.debugTimers:
            if self.debugTimers.get(name):
                self.debugTimers[name][0].cancel()
                self.debugTimers[name] = None

    def debug_fireTimer(self, name):
        calls = self.debugTimers[name][1]
        self.debugTimers[name] = None
        for call,args in calls:
            call(*args)

    def connectionMade(self):
        # once connected, this Negotiation instance must either invoke
        # self.switchToBanana or self.negotiationFailed, to insure that the
        # TubConnector (if any) gets told about the results of the connection
        # attempt.

        if self.doNegotiation:
            if self.isClient:
                self.connectionMadeClient()
            else:
                self.connectionMadeServer()
        else:
            self.switchToBanana({})

    def connectionMadeClient(self):
        assert self.receive_phase == PLAINTEXT
        # the client needs to send the HTTP-compatible tubid GET,
        # along with the TLS upgrade request
        self.sendPlaintextClient()
        # now we wait for the TLS Upgrade acceptance to come back

    def sendPlaintextClient(self):
        req = []
        self.log("sendPlaintextClient: GET for tubID %s" %
                 self.target.tubID)
        req.append("GET /id/%s HTTP/1.1" % self.target.tubID)
        req.append("Host: %s" % self.targetHost)
        self.log("sendPlaintextClient: wantEncryption=True")
        req.append("Upgrade: TLS/1.0")
        req.append("Connection: Upgrade")
        self.transport.write(b"\r\n".join([six.ensure_binary(r) for r in req]))
        self.transport.write(b"\r\n\r\n")
        # the next thing the other end expects to see is the encrypted phase
        self.send_phase = ENCRYPTED

    def connectionMadeServer(self):
        # the server just waits for the GET message to arrive, but set up the
        # server timeout first
        if self.debug_doTimer("connectionMade", 1, self.connectionMade):
            return
        timeout = self._test_options.get('server_timeout', self.SERVER_TIMEOUT)
        if timeout:
            # oldpb clients will hit this case.
            self.negotiationTimer = reactor.callLater(timeout,
                                                      self.negotiationTimedOut)

    def sendError(self, why):
        pass # TODO

    def negotiationTimedOut(self):
        del self.negotiationTimer
        why = Failure(NegotiationError("negotiation timeout"))
        self.sendError(why)
        self.failureReason = why
        self.transport.loseConnection()

    def stopNegotiationTimer(self):
        if self.negotiationTimer:
            self.negotiationTimer.cancel()
            del self.negotiationTimer

    def dataReceived(self, chunk):
        self.log("dataReceived(isClient=%s,phase=%s,options=%s): %r"
                 % (self.isClient, self.receive_phase, self._test_options,
                    chunk),
                 level=NOISY)
        if self.receive_phase == ABANDONED:
            return

        self.buffer += chunk

        if self.debug_addTimerCallback("connectionMade",
                                       self.dataReceived, b''):
            return

        try:
            # we accumulate a header block for each phase
            # the limit applies to one header block, not to whatever else
            # (the next block, or the first Banana tokens) happens to have
            # arrived in the same packet
            eoh = self.buffer.find(b'\r\n\r\n')
            # without a terminator we can only give up once one that starts
            # within the limit can no longer be completed by the next packet
            # (up to three of its four bytes may already be here)
            if eoh > 4096 or (eoh == -1 and len(self.buffer) >= 4096 + 4):
                raise BananaError("Header too long")
            if eoh == -1:
                return
            header, self.buffer = self.buffer[:eoh], self.buffer[eoh+4:]
            if self.receive_phase == PLAINTEXT:
                if self.isClient:
                    self.handlePLAINTEXTClient(header)
                else:
                    self.handlePLAINTEXTServer(header)
            elif self.receive_phase == ENCRYPTED:
                self.handleENCRYPTED(header)
            elif self.receive_phase == DECIDING:
                self.handleDECIDING(header)
            else:
                assert 0, "should not get here"
            # there might be some leftover data for the next phase.
            # self.buffer will be emptied when we switchToBanana, so in that
            # case we won't call the wrong dataReceived.
            if self.buffer:
                self.dataReceived(b"")

        except Exception as e:
            why = Failure()
            if isinstance(e, RemoteNegotiationError):
                pass # they've already hung up
            else:
                # there's a chance we can provide a little bit more information
                # to the other end before we hang up on them
                if isinstance(e, NegotiationError):
                    errmsg = str(e)
                else:
                    self.log("negotiation had internal error:", failure=why,
                             level=UNUSUAL)
                    errmsg = "internal server error, see logs"
                errmsg = errmsg.replace("\n", " ").replace("\r", " ")
                if self.send_phase == PLAINTEXT:
                    resp = (b"HTTP/1.1 500 Internal Server Error: %s\r\n\r\n"
                            % six.ensure_binary(errmsg))
                    self.transport.write(resp)
                elif self.send_phase in (ENCRYPTED, DECIDING):
                    block = {'banana-decision-version': 1,
                             'error': errmsg,
                             }
                    self.sendBlock(block)
                elif self.send_phase == BANANA:
                    self.sendBananaError(errmsg)

            self.failureReason = why
            self.transport.loseConnection()
            return

    def sendBananaError(self, msg):
        if len(msg) > SIZE_LIMIT:
            msg = msg[:SIZE_LIMIT-10] + "..."
        int2b128(len(msg), self.transport.write)
        self.transport.write(ERROR)
        self.transport.write(six.ensure_binary(msg))
        # now you should drop the connection

    def connectionLost(self, reason):
        # force connectionMade to happen, so connectionLost can occur
        # normally
        self.debug_forceTimer("connectionMade")
        # cancel the other slowdown timers, since they all involve sending
        # data, and the connection is no longer available
        self.debug_cancelAllTimers()
        for k,t in list(self.debugTimers.items()):
            if t:
                t[0].cancel()
                self.debugTimers[k] = None
        if self.isClient:
            l = self.tub._test_options.get("debug_gatherPhases")
            if l is not None:
                l.append(self.receive_phase)
        if not self.failureReason:
            self.failureReason = reason
        self.negotiationFailed()

    def handlePLAINTEXTServer(self, header):
        # the client sends us a GET message
        lines = header.split(b"\r\n")
        if not lines[0].startswith(b"GET "):
            raise BananaError("not right")
        command, url, version = lines[0].split()
        if not url.startswith(b"/id/"):
            # probably a web browser
            raise BananaError("not right")
        targetTubID = six.ensure_str(url[4:])
        self.log("handlePLAINTEXTServer: targetTubID='%s'" % targetTubID,
                 level=NOISY)
        if targetTubID == "":
            # they're asking for an old UnauthenticatedTub. Refuse.
            raise NegotiationError("secure Tubs require encryption")
        if isSubstring(b"Upgrade: TLS/1.0\r\n", header):
            wantEncrypted = True
        else:
            wantEncrypted = False
        self.log("handlePLAINTEXTServer: wantEncrypted=%s" % wantEncrypted,
                 level=NOISY)
        # we ignore the rest of the lines

        # now that we know which Tub the client wants to connect to, either
        # send a Redirect, or start the ENCRYPTED phase

        tub, redirect = self.listener.lookupTubID(targetTubID)
        if tub:
            self.tub = tub # our tub
            self._test_options.update(self.tub._test_options)
            self.brokerClass = self.tub.brokerClass
            self.myTubID = tub.tubID # native string
            self.sendPlaintextServerAndStartENCRYPTED()
        elif redirect:
            self.sendRedirect(redirect)
        else:
            raise NegotiationError("unknown TubID %s" % targetTubID)

    def sendPlaintextServerAndStartENCRYPTED(self):
        # this is invoked on the server side
        if self.debug_doTimer("sendPlaintextServer", 1,
                              self.sendPlaintextServerAndStartENCRYPTED):
            return
        resp = "\r\n".join(["HTTP/1.1 101 Switching Protocols",
                            "Upgrade: TLS/1.0, PB/1.0",
                            "Connection: Upgrade",
                            ])
        self.transport.write(six.ensure_binary(resp))
        self.transport.write(b"\r\n\r\n")
        # the next thing they expect is the encrypted block
        self.send_phase = ENCRYPTED
        self.startENCRYPTED()

    def sendRedirect(self, redirect):
        # this is invoked on the server side
        # send the redirect message, then close the connection. make sure the
        # data gets flushed, though.
        raise NotImplementedError # TODO

    def handlePLAINTEXTClient(self, header):
        self.log("handlePLAINTEXTClient: header='%s'" % header)
        lines = header.split(b"\r\n")
        tokens = lines[0].split()
        # TODO: accept a 303 redirect
        if tokens[1] != b"101":
            raise BananaError("not right, got '%s', "
                              "expected 101 Switching Protocols"
                              % six.ensure_str(lines[0]))
        if not isSubstring(b"Upgrade: TLS/1.0", header):
            raise BananaError("header didn't contain TLS upgrade: %r" % (six.ensure_str(header),))
        # we ignore everything else

        # now we upgrade to TLS
        self.startENCRYPTED()
        # and wait for their Hello to arrive

    def startENCRYPTED(self):
        # this is invoked on both sides. We move to the "ENCRYPTED" phase,
        # which involves a TLS-encrypted session.
        self.log("startENCRYPTED(isClient=%s)" % (self.isClient,))
        self.startTLS(self.tub.myCertificate)
        # TODO: can startTLS trigger dataReceived?
        self.receive_phase = ENCRYPTED
        self.sendHello()

    def sendHello(self):
        """This is called on both sides as soon as the encrypted connection
        is established. This causes a negotiation block to be sent to the
        other side as an offer."""
        if self.debug_doTimer("sendHello", 1, self.sendHello):
            return
        if self.debug_doPause("sendHello", self.sendHello):
            return

        hello = self.negotiationOffer.copy()

        assert self.myTubID
        # This indicates which identity we wish to claim. This is the hash of
        # the certificate we're using.
        hello['my-tub-id'] = self.myTubID

        if self.tub:
            IR = self.tub.getIncarnationString()
            hello['my-incarnation'] = IR

        self.log("Negotiate.sendHello (isClient=%s): %s" %
                 (self.isClient, hello))
        self.sendBlock(hello)


    def handleENCRYPTED(self, header):
        # both ends have sent a Hello message
        if self.debug_addTimerCallback("sendHello",
                                       self.handleENCRYPTED, header):
            return
        self.theirCertificate = None
        # We should be encrypted now. Get the peer's certificate.
        them = crypto.peerFromTransport(self.transport)
        if them and them.original:
            self.theirCertificate = them

        hello = self.parseLines(header)
        if "error" in hello:
            raise RemoteNegotiationError(hello["error"])
        self.evaluateHello(hello)

    def evaluateHello(self, offer):
        """Evaluate the HELLO message sent by the other side. We compare
        TubIDs, and the higher value becomes the 'master' and makes the
        negotiation decisions.

        This method returns a tuple of DECISION,PARAMS. There are a few
        different possibilities::

            - We are the master, we make a negotiation decision: DECISION is
            the block of data to send back to the non-master side, PARAMS are
            the connection parameters we will use ourselves.

            - We are the master, we can't accomodate their request: raise
            NegotiationError

            - We are not the master: DECISION is None
        """

        # offer: native_str -> native_str
        self.log("evaluateHello(isClient=%s): offer=%s" %
                 (self.isClient, offer))
        if 'banana-negotiation-range' not in offer:
            if 'banana-negotiation-version' in offer:
                msg = ("Peer is speaking foolscap-0.0.5 or earlier, "
                       "which is not compatible with this version. "
                       "Please upgrade the peer.")
                raise NegotiationError(msg)
            raise NegotiationError("No valid banana-negotiation sequence seen")
        min_s, max_s = offer['banana-negotiation-range'].split()
        theirMinVer = int(min_s)
        theirMaxVer = int(max_s)
        # best_overlap() might raise a NegotiationError
        best = best_overlap(self.minVersion, self.maxVersion,
                            theirMinVer, theirMaxVer,
                            "banana version")

        negfunc = getattr(self, "evaluateNegotiationVersion%d" % best)
        self.decision_version = best
        return negfunc(offer)

    def evaluateNegotiationVersion1(self, offer):
        forced = False
        f = offer.get('negotiation-forced', None)
        if f and f.lower() == "true":
            forced = True
        # 'forced' means the client is on a one-way link (or is really
        # stubborn) and has already made up its mind about the connection
        # parameters. If we are unable to handle exactly what they have
        # offered, we must hang up.
        assert not forced # TODO: implement


        # glyph says: look at Juice, it does rfc822 parsing, startTLS,
        # switch-to-other-protocol, etc. grep for retrieveConnection in q2q.

        # TODO: oh, if we see an HTTP client, send a good HTTP error like
        # "protocol not supported", or maybe even an HTML page that explains
        # what a PB server is

        # there are four distinct dicts here:
        #  self.negotiationOffer: what we want
        #  clientOffer: what they sent to us, the client's requests.
        #  serverOffer: what we send to them, the server's decision
        #  self.negotiationResults: the negotiated settings
        #
        # [my-tub-id] is not present in self.negotiationResults
        # the server's tubID is in [my-tub-id] for both self.negotiationOffer
        # and serverOffer
        # the client's tubID is in [my-tub-id] for clientOffer

        myTubID = self.myTubID

        theirTubID = offer.get("my-tub-id")
        if self.theirCertificate is None:
            # no client certificate
            if theirTubID is not None:
                # this is where a poor MitM attack is detected, one which
                # doesn't even pretend to encrypt the connection
                raise BananaError("you must use a certificate to claim a "
                                  "TubID")
        else:
            # verify that their claimed TubID matches their SSL certificate.
            # TODO: handle chains
            digest = crypto.digest32(self.theirCertificate.digest("sha1"))
            if digest != theirTubID:
                # this is where a good MitM attack is detected, one which
                # encrypts the connection but which of course uses the wrong
                # certificate
                raise BananaError("TubID mismatch")

        assert theirTubID
        theirTubRef = referenceable.TubRef(theirTubID)
        self.theirTubRef = theirTubRef # for use by non-master side, later

        if self.isClient:
            # verify that we connected to the Tub we expected to.
            if theirTubRef != self.target:
                # TODO: how (if at all) should this error message be
                # communicated to the other side?
                raise BananaError("connected to the wrong Tub")

        if myTubID is None and theirTubID is None:
            iAmTheMaster = not self.isClient
        elif myTubID is None:
            iAmTheMaster = False
        elif theirTubID is None:
            iAmTheMaster = True
        else:
            # this is the most common case
            iAmTheMaster = myTubID > theirTubID

        self.log(format="iAmTheMaster: %(master)s", master=iAmTheMaster)

        decision, params = None, None

        if iAmTheMaster:
            # we get to decide everything. The other side is now waiting for
            # a decision block.
            self.send_phase = DECIDING
            decision = {}
            params = {}
            # combine their 'offer' and our own self.negotiationOffer to come
            # up with a 'decision' to be sent back to the other end, and the
            # 'params' to be used on our connection

            # first, do we continue with this connection? we might have an
            # existing connection for this particular tub

            if theirTubRef and theirTubRef in self.tub.brokers:
                # there is an existing connection.. we might want to prefer
                # this new offer, because the old connection might be stale
                # (NAT boxes and laptops that disconnect abruptly are two
                # ways for a single process to disappear silently and then
                # reappear with a different IP address).
                lp = self.log("got offer for an existing connection",
                              level=UNUSUAL)
                existing = self.tub.brokers[theirTubRef]
                acceptOffer = self.compareOfferAndExisting(offer, existing, lp)
                if acceptOffer:
                    # drop the old one
                    self.log("accepting new offer, dropping existing connection",
                             parent=lp)
                    err = DeadReferenceError("[%s] replaced by a new connection"
                                             % theirTubRef.getShortTubID())
                    why = Failure(err)
                    existing.shutdown(why)
                else:
                    # reject the new one
                    self.log("rejecting the offer: we already have one",
                             parent=lp)
                    raise DuplicateConnection("Duplicate connection")

            if theirTubRef:
                # generate a new seqnum, one higher than the last one we've
                # used.
                old_seqnum = self.tub.master_table.get(theirTubRef.getTubID(),
                                                       0)
                new_seqnum = old_seqnum + 1
                new_slave_IR = offer.get('my-incarnation', None)
                self.tub.master_table[theirTubRef.getTubID()] = new_seqnum
                my_IR = self.tub.getIncarnationString()
                decision['current-connection'] = "%s %s" % (my_IR, new_seqnum)
                # these params will be copied into the Broker where we can
                # retrieve them later, when we need to compare it against a new
                # offer.
                params['current-slave-IR'] = new_slave_IR
                params['current-seqnum'] = new_seqnum

            # what initial vocab set should we use?
            theirVocabRange_s = offer.get("initial-vocab-table-range", "0 0")
            theirVocabRange = theirVocabRange_s.split()
            theirVocabMin = int(theirVocabRange[0])
            theirVocabMax = int(theirVocabRange[1])
            vocab_index = best_overlap(
                self.initialVocabTableRange[0],
                self.initialVocabTableRange[1],
                theirVocabMin, theirVocabMax,
                "initial vocab set")
            vocab_hash = vocab.hashVocabTable(vocab_index)
            decision['initial-vocab-table-index'] = "%d %s" % (vocab_index,
                                                               vocab_hash)
            decision['banana-decision-version'] = str(self.decision_version)

            # v1: handle vocab table index
            params['banana-decision-version'] = self.decision_version
            params['initial-vocab-table-index'] = vocab_index

        else:
            # otherwise, the other side gets to decide. The next thing they
            # expect to hear from us is banana.
            self.send_phase = BANANA


        if iAmTheMaster:
            # I am the master, so I send the decision
            self.log("Negotiation.sendDecision: %s" % decision,
                     level=OPERATIONAL)
            # now we send the decision and switch to Banana. they might hang
            # up.
            self.sendDecision(decision, params)
        else:
            # I am not the master, I receive the decision
            self.receive_phase = DECIDING

    def evaluateNegotiationVersion2(self, offer):
        # version 2 changes the meaning of reqID=0 in a 'call' sequence, to
        # support the implementation of callRemoteOnly. No other protocol
        # changes were made, and no changes were made to the offer or
        # decision blocks.
        return self.evaluateNegotiationVersion1(offer)

    def evaluateNegotiationVersion3(self, offer):
        # version 3 adds PING and PONG tokens, to enable keepalives and
        # idle-disconnect. No other protocol changes were made, and no
        # changes were made to the offer or decision blocks.
        return self.evaluateNegotiationVersion1(offer)

    def compareOfferAndExisting(self, offer, existing, lp):
        """Compare the new offer against the existing connection, and
        decide which to keep.

        @return: True to accept the new offer, False to stick with the
                 existing connection.
        """

        def log(*args, **kwargs):
            if 'parent' not in kwargs:
                kwargs['parent'] = lp
            return self.log(*args, **kwargs)

        existing_slave_IR = existing.current_slave_IR
        existing_seqnum = existing.current_seqnum

        log(format="existing connection has slave_IR=%(slave_IR)s, seqnum=%(seqnum)s",
            slave_IR=existing_slave_IR, seqnum=existing_seqnum)

        # TESTING: force handle-old stuff
        #lp2 = log("TESTING: forcing use of handle-old logic")
        #return self.handle_old(offer, existing, 60, lp2)

        # step one: does the inbound offer have a my-incarnation header? If
        # not, this is an older peer (<foolscap-0.1.7). We use
        # 'offer.get("my-incarnation")' instead of '"my-incarnation" in offer'
        # so that unit tests can cause a client to send an empty string to
        # simulate the earlier version.
        if not offer.get("my-incarnation") or "last-connection" not in offer:
            # TODO: new servers send my-incarnation but not last-connection

            # this is an old peer (foolscap 0.1.7 or earlier), which won't
            # give us enough information to make some of the decisions below.
            # We reject the offer to avoid connection flap, and the
            # situtation won't be worse than it was in 0.1.7 .
            lp2 = log("pre-0.2.0 peer detected (no my-incarnation"
                      " or last-connection)", level=CURIOUS)
            if self.tub._handle_old_duplicate_connections is not False:
                # but if we've been configured to do better (with the
                # 60-second age heuristic), do that.
                self.log("using handle-old-duplicate-connections", parent=lp2)
                threshold = self.tub._handle_old_duplicate_connections
                return self.handle_old(offer, existing, threshold, lp2)
            return False # reject the offer

        if offer["my-incarnation"] != existing_slave_IR:
            # this offer is from a different invocation of the peer than we
            # think we're currently talking to. That means the slave has
            # restarted since we made our connection, so clearly our
            # connection is stale. Accept the offer.
            log("offer is from different peer incarnation than existing")
            return True # accept

        pieces = offer['last-connection'].split()
        offer_master_IR = pieces[0]
        offer_master_seqnum = int(pieces[1])

        if offer_master_IR == "none":
            # the peer doesn't remember talking to anybody: they don't think
            # they've ever been connected to us. We disagree, and we remember
            # their incarnation record. So they must have made an initial
            # attempt to connect to us (their first), we accepted their
            # connection, and the decision message got lost or hasn't arrived
            # yet. The most likely situation is that this is one of the
            # parallel connections (one per hint), for which we want to
            # reject their offer. The less likely situation is that they
            # heard our initial connection setup but the decision message got
            # lost, in which case we entry the "no reconnects until TCP gives
            # up" state.
            log("peer doesn't remember talking to us")
            return False # reject

        if offer_master_IR != self.tub.getIncarnationString():
            # the peer doesn't remember talking to us specifically, but they
            # remember talking to one of our past lives. That means our last
            # decision message didn't make it to them, and the last
            # connection they *did* hear about was from one of our previous
            # runs. Therefore our existing connection isn't viable, and we
            # should accept their offer.
            #
            log("peer remembers talking to our past life")
            return True # accept

        # at this point, the offer's IR matches our own, so the seqnum is
        # worth comparing
        if offer_master_seqnum == existing_seqnum:
            # the offer demonstrates that the client knows about the same
            # connection that we do, and they made a new connection anyways.
            # From this we can conclude that our connection is stale, so we
            # should accept the offer.
            log("peer knows about existing seqnum")
            return True

        if offer_master_seqnum < existing_seqnum:
            # Possible ways to get here, most likely first
            #  1: simultaneous parallel connections (multiple hints),
            #     from a client who used to have an established connection
            #     with us (so they're sending the right offer_master_IR).
            #     Reject the offer to avoid connection flap.
            #  2: client connected, but our decision got lost, they're still
            #     living in the past. Reject the offer, we'll enter the
            #     no-reconnect-until-TCP-gives-up state
            #  3: crazy stalled message case, again we wait for TCP to expire

            # more details on #2: the client connects successfully, then the
            # client thinks the connection has been lost (but the server
            # thinks it's still good), so the client reconnects, and this
            # connection gets as far as the master making a decision, but the
            # decision message is lost before it gets to the client. Then the
            # client connects a third time, and now we're considering the
            # third offer: the IRs are all the same, the attempt_id is
            # different than our existing (2nd) connection, but the seqnum is
            # older. In this case, we want to accept the new offer.


            # more details on #3 (more rare): the client connects and loses
            # the connection (as before), then the client connects a second
            # time and gets as far as sending the offer when they time out,
            # cancelling the negotiation already in progress (sending a FIN
            # after the offer message) and triggering a third connection. The
            # third connection somehow races ahead and completes negotiation
            # before the 2nd-connection offer+FIN make it to the server. Now,
            # finally, the offer arrives: we're now evaluating an
            # out-of-order offer on a socket that's about to be closed.
            # Ideally we'd like to reject this offer.

            log("peer knows about old seqnum")
            return False # reject

        # offer_master_seqnum > existing_seqnum indicates something really
        # weird has taken place.
        log(format="offer_master_seqnum %(offer)d > existing_seqnum %(existing)d",
            offer=offer_master_seqnum, existing=existing_seqnum, level=WEIRD)
        return False # reject weirdness

    def handle_old(self, offer, existing, threshold, lp):
        # determine the age of the existing broker
        age = time.time() - existing.creation_timestamp
        if age < threshold:
            self.log("the existing broker is too new (%d<%d), rejecting offer"
                     % (age, threshold),
                     parent=lp)
            return False # reject the offer
        self.log("the existing broker is old enough to replace", parent=lp)
        return True # accept the offer

    def sendDecision(self, decision, params):
        if self.debug_doTimer("sendDecision", 1,
                              self.sendDecision, decision, params):
            return
        if self.debug_addTimerCallback("sendHello",
                                       self.sendDecision, decision, params):
            return
        self.sendBlock(decision)
        self.send_phase = BANANA
        self.switchToBanana(params)

    def handleDECIDING(self, header):
        # this gets called on the non-master side
        self.log("handleDECIDING(isClient=%s): %s" % (self.isClient, header),
                 level=NOISY)
        if self.debug_doTimer("handleDECIDING", 1,
                              self.handleDECIDING, header):
            # for testing purposes, wait a moment before accepting the
            # decision. This insures that we trigger the "Duplicate
            # Broker" condition. NOTE: This will interact badly with the
            # "there might be some leftover data for the next phase" call
            # in dataReceived
            return
        decision = self.parseLines(header)
        params = self.acceptDecision(decision)
        self.switchToBanana(params)

    def acceptDecision(self, decision):
        """This is called on the client end when it receives the results of
        the negotiation from the server. The client must accept this decision
        (and return the connection parameters dict), or raise
        NegotiationError to hang up.negotiationResults."""
        # decision: native_str -> native_str
        self.log("Banana.acceptDecision: got %s" % decision, level=OPERATIONAL)

        version = decision.get('banana-decision-version')
        if not version:
            raise NegotiationError("No banana-decision-version value")
        acceptfunc = getattr(self, "acceptDecisionVersion%d" % int(version))
        if not acceptfunc:
            raise NegotiationError("I cannot handle banana-decision-version "
                                   "value of %d" % int(version))
        return acceptfunc(decision)

    def acceptDecisionVersion1(self, decision):
        if "error" in decision:
            error = decision["error"]
            raise RemoteNegotiationError("Banana negotiation failed: %s"
                                         % error)

        # parse the decision here, create the connection parameters dict
        ver = int(decision['banana-decision-version'])
        vocab_index_string = decision.get('initial-vocab-table-index')
        if vocab_index_string:
            vocab_index, vocab_hash = vocab_index_string.split()
            vocab_index = int(vocab_index)
        else:
            vocab_index = 0
        check_inrange(self.initialVocabTableRange[0],
                      self.initialVocabTableRange[1],
                      vocab_index, "initial vocab table index")
        our_hash = vocab.hashVocabTable(vocab_index)
        if vocab_index > 0 and our_hash != vocab_hash:
            msg = ("Our hash for vocab-table-index %d (%s) does not match "
                   "your hash (%s)" % (vocab_index, our_hash, vocab_hash))
            raise NegotiationError(msg)

        if self.theirTubRef in self.tub.brokers:
            # we're the slave, so we need to drop our existing connection and
            # use the one picked by the master
            self.log("master told us to use a new connection, "
                     "so we must drop the existing one", level=UNUSUAL)
            err = DeadReferenceError("replaced by a new connection")
            why = Failure(err)
            self.tub.brokers[self.theirTubRef].shutdown(why)

        current_connection = decision.get('current-connection')
        if current_connection:
            tubID = self.theirTubRef.getTubID()
            self.tub.slave_table[tubID] = tuple(current_connection.split())
        else:
            self.log("no current-connection in decision from %s" %
                     self.theirTubRef, level=UNUSUAL)

        params = { 'banana-decision-version': ver,
                   'initial-vocab-table-index': vocab_index,
                   }
        return params

    def acceptDecisionVersion2(self, decision):
        # this only affects the interpretation of reqID=0, so we can use the
        # same accept function
        return self.acceptDecisionVersion1(decision)

    def acceptDecisionVersion3(self, decision):
        # this adds PING and PONG tokens, so we can use the same accept
        # function
        return self.acceptDecisionVersion1(decision)

    def loopbackDecision(self):
        # if we were talking to ourselves, what negotiation decision would we
        # reach? This is used for loopback connections
        max_vocab = self.initialVocabTableRange[1]
        params = { 'banana-decision-version': self.maxVersion,
                   'initial-vocab-table-index': max_vocab,
                   }
        return params

    def startTLS(self, cert):
        # the TLS connection (according to glyph) is "ready" immediately, but
        # really the negotiation is going on behind the scenes (OpenSSL is
        # trying a little too hard to be transparent). I think you have to
        # write some bytes to trigger the negotiation. getPeerCertificate()
        # can't be called until you receive some bytes, so grab it when a
        # negotiation block arrives that claims to have an authenticated
        # TubID.

        # Instead of this:
        #  opts = self.tub.myCertificate.options()
        # We use the MyOptions class to fix up the verify stuff: we request a
        # certificate from the client, but do not verify it against a list of
        # root CAs
        self.log("startTLS, client=%s" % self.isClient)
        kwargs = {}
        if cert:
            kwargs['privateKey'] = cert.privateKey.original
            kwargs['certificate'] = cert.original
        ctxFactory = crypto.FoolscapContextFactory(**kwargs)

        self.transport.startTLS(ctxFactory)

    def switchToBanana(self, params):
        # switch over to the new protocol (a Broker instance). This
        # Negotiation protocol goes away after this point.

        lp = self.log("Negotiate.switchToBanana(isClient=%s)" % self.isClient,
                      level=NOISY)
        self.log("params: %s" % (params,), parent=lp)

        self.stopNegotiationTimer()

        if self.isClient:
            theirTubRef = self.target
        else:
            theirTubRef = self.theirTubRef

        b = self.brokerClass(theirTubRef, params,
                             self.tub.keepaliveTimeout,
                             self.tub.disconnectTimeout,
                             self._connectionInfo,
                             )
        b.factory = self.factory # not used for PB code
        b.setTub(self.tub)
        # we leave ourselves as the protocol, but redirect incoming messages
        # (from the transport) to the broker
        #self.transport.protocol = b
        self.dataReceived = b.dataReceived
        self.connectionLost = b.connectionLost

        b.makeConnection(self.transport)
        buf, self.buffer = self.buffer, b"" # empty our buffer, just in case
        b.dataReceived(buf) # and hand it to the new protocol

        self._connectionInfo._set_connected(True)
        # if we were created as a client, we'll have a TubConnector. Let them
        # know that this connection has succeeded, so they can stop any other
        # connection attempts still in progress.
        if self.isClient:
            self.connector.connectorNegotiationComplete(self, self.factory.location)
        else:
            self._connectionInfo._set_listener_status("successful")

        # finally let our Tub know that they can start using the new Broker.
        # This will wake up anyone who initiated an outbound connection.
        self.tub.brokerAttached(theirTubRef, b, self.isClient)

    def negotiationFailed(self):
        reason = self.failureReason
        self.stopNegotiationTimer()
        if self.receive_phase != ABANDONED and self.isClient:
            eventually(self.connector.connectorNegotiationFailed, self,
                       self.factory.location, reason)
        self.receive_phase = ABANDONED
        if not self.isClient:
            description = "negotiation failed: %s" % str(reason.value)
            self._connectionInfo._set_listener_status(description)
        cb = self._test_options.get("debug_negotiationFailed_cb")
        if cb:
            # note that this gets called with a NegotiationError, not a
            # Failure. ACTUALLY: not true, gets a Failure
            eventually(cb, reason)

        # Negotiations fail all the time, for benign reasons, so limit how
        # much we log (the full Failure and traceback is frequently useless
        # and noisy). Parallel connection-hints cause the slower connection
        # to be rejected as a duplicate, as do full-mesh applications (like
        # Tahoe) that construct cross-linked connections.
        if reason.check(DuplicateConnection):
            # this happens when we reject a connection during negotiation
            self.log("negotiationFailed: DuplicateConnection",
                     level=NOISY, umid="XRFlRA")
        elif reason.check(ConnectionDone):
            # this happens to our other losing parallel connection attempts
            self.log("negotiationFailed: ConnectionDone",
                     level=NOISY, umid="9khFxA")
        elif reason.check(RemoteNegotiationError):
            # and this is how the remote side tells us they rejected or
            # abandoned a connection. Sometimes it's due to a duplicate
            # connection, sometimes due to code problems. In either case, the
            # traceback would only show local code, and is unhelpful.
            self.log("negotiationFailed: remote: %s" % reason.value.args[0],
                     level=NOISY, umid="yAsbmA")
        else:
            # This shouldn't happen very often.
            self.log("negotiationFailed", failure=reason,
                     level=OPERATIONAL, umid="pm2kjg")

# TODO: make sure code that examines self.receive_phase handles ABANDONED
