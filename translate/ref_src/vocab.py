from hashlib import sha1
import six

# here is the list of initial vocab tables. If the two ends negotiate to use
# initial-vocab-table-index N, then both sides will start with the words from
# INITIAL_VOCAB_TABLES[n] for their VOCABized tokens.

vocab_v0 = []
vocab_v1 = [ # all opentypes used in 0.0.6
    b"none", b"boolean", b"reference",
    b"dict", b"list", b"tuple", b"set", b"immutable-set",
    b"unicode", b"set-vocab", b"add-vocab",
    b"call", b"arguments", b"answer", b"error",
    b"my-reference", b"your-reference", b"their-reference", b"copyable",
    # these are only used by storage.py
    b"instance", b"module", b"class", b"method", b"function",
    # I'm not sure this one is actually used anywhere, but the first 127 of
    # these are basically free.
    b"attrdict",
    ]
INITIAL_VOCAB_TABLES = { 0: vocab_v0, 1: vocab_v1 }

# to insure both sides agree on the actual words, we can hash the vocab table
# into a short string. This is included in the negotiation decision and
# compared by the receiving side.

def hashVocabTable(table_index):
    data = b"\x00".join([six.ensure_binary(v) for v in INITIAL_VOCAB_TABLES[table_index]])
    digest = sha1(data).hexdigest()
    return digest[:4]

def getVocabRange():
    keys = list(INITIAL_VOCAB_TABLES.keys())
    return min(keys), max(keys)
