import six, base64

def encode(b): # takes bytes, returns native string
    assert isinstance(b, bytes), (type(b), b)
    out = base64.b32encode(b).lower().rstrip(b"=")
    return six.ensure_str(out)

# we use the rfc4648 base32 alphabet, in lowercase
BASE32_ALPHABET = 'abcdefghijklmnopqrstuvwxyz234567'

def is_base32(s):
    assert isinstance(s, str), (type(s), s)
    for c in s.lower():
        if c not in BASE32_ALPHABET:
            return False
    return True
