# -*- test-case-name: foolscap.test.test_banana -*-

import six
from twisted.python.components import registerAdapter
from twisted.python import log
from zope.interface import implementer
from twisted.internet.defer import Deferred
from . import tokens
from .tokens import Violation, BananaError
from foolscap.ipb import IBroker
from foolscap.util import ensure_tuple_str

class SlicerClass(type):
    # auto-register Slicers
    def __init__(self, name, bases, dict):
        type.__init__(self, name, bases, dict)
        typ = dict.get('slices')
        #reg = dict.get('slicerRegistry')
        if typ:
            registerAdapter(self, typ, tokens.ISlicer)

@implementer(tokens.ISlicer)
class BaseSlicer(metaclass=SlicerClass):
    slices = None

    parent = None
    sendOpen = True
    opentype = ()
    trackReferences = False

    def __init__(self, obj):
        # this simplifies Slicers which are adapters
        self.obj = obj

    def requireBroker(self, protocol):
        broker = IBroker(protocol, None)
        if not broker:
            msg = "This object can only be serialized by a broker"
            raise Violation(msg)
        return broker

    def registerRefID(self, refid, obj):
        # optimize: most Slicers will delegate this up to the Root
        return self.parent.registerRefID(refid, obj)
    def slicerForObject(self, obj):
        # optimize: most Slicers will delegate this up to the Root
        return self.parent.slicerForObject(obj)
    def slice(self, streamable, banana):
        # this is what makes us ISlicer
        self.streamable = streamable
        assert self.opentype
        for o in self.opentype:
            # our wire protocol, which originated in py2, uses bytes for the
            # index tokens
            yield six.ensure_binary(o)
        for t in self.sliceBody(streamable, banana):
            yield t
    def sliceBody(self, streamable, banana):
        raise NotImplementedError
    def childAborted(self, f):
        return f

    def describe(self):
        return "??"


class ScopedSlicer(BaseSlicer):
    """This Slicer provides a containing scope for referenceable things like
    lists. The same list will not be serialized twice within this scope, but
    it will not survive outside it."""

    def __init__(self, obj):
        BaseSlicer.__init__(self, obj)
        self.references = {} # maps id(obj) -> (obj,refid)

    def registerRefID(self, refid, obj):
        # keep references here, not in the actual PBRootSlicer

        # This use of id(obj) requires a bit of explanation. We are making
        # the assumption that the object graph remains unmodified until
        # serialization is complete. In particular, we assume that all the
        # objects in it remain alive, and no new objects are added to it,
        # until serialization is complete. id(obj) is only unique for live
        # objects: once the object is garbage-collected, a new object may be
        # created with the same id(obj) value.
        #
        # The concern is that a custom Slicer will call something that
        # mutates the object graph before it has finished being serialized.
        # This might be one which calls some user-level function during
        # Slicing, or one which uses a Deferred to put off serialization for
        # a while, creating an opportunity for some other code to get
        # control.

        # The specific concern is that if, in the middle of serialization, an
        # object that was already serialized is gc'ed, and a new object is
        # created and attached to a portion of the object graph that hasn't
        # been serialized yet, and if the new object gets the same id(obj) as
        # the dead object, then we could be tricked into sending the
        # reference number of the old (dead) object. On the receiving end,
        # this would result in a mangled object graph.

        # User code isn't supposed to allow the object graph to change during
        # serialization, so this mangling "should not happen" under normal
        # circumstances. However, as a reasonably cheap way to mitigate the
        # worst sort of mangling when user code *does* mess up,
        # self.references maps from id(obj) to a tuple of (obj,refid) instead
        # of just the refid. This insures that the object will stay alive
        # until the ScopedSlicer dies, guaranteeing that we won't get
        # duplicate id(obj) values. If user code mutates the object graph
        # during serialization we might still get inconsistent results, but
        # they'll be the ordinary kind of inconsistent results (snapshots of
        # different branches of the object graph at different points in time)
        # rather than the blatantly wrong mangling that would occur with
        # re-used id(obj) values.

        self.references[id(obj)] = (obj,refid)

    def slicerForObject(self, obj):
        # check for an object which was sent previously or has at least
        # started sending
        obj_refid = self.references.get(id(obj), None)
        if obj_refid is not None:
            # we've started to send this object already, so just include a
            # reference to it
            return ReferenceSlicer(obj_refid[1])
        # otherwise go upstream so we can serialize the object completely
        return self.parent.slicerForObject(obj)

UnslicerRegistry = {}
BananaUnslicerRegistry = {}

def registerUnslicer(opentype, factory, registry=None):
    opentype = ensure_tuple_str(opentype)
    if registry is None:
        registry = UnslicerRegistry
    assert opentype not in registry
    registry[opentype] = factory

class UnslicerClass(type):
    # auto-register Unslicers
    def __init__(self, name, bases, dict):
        type.__init__(self, name, bases, dict)
        opentype = dict.get('opentype')
        reg = dict.get('unslicerRegistry')
        if opentype:
            registerUnslicer(opentype, self, reg)

@implementer(tokens.IUnslicer)
class BaseUnslicer(metaclass=UnslicerClass):
    opentype = None

    def __init__(self):
        pass

    def describe(self):
        return "??"

    def setConstraint(self, constraint):
        pass

    def start(self, count):
        pass

    def checkToken(self, typebyte, size):
        return # no restrictions

    def openerCheckToken(self, typebyte, size, opentype):
        return self.parent.openerCheckToken(typebyte, size, opentype)

    def open(self, opentype):
        """Return an IUnslicer object based upon the 'opentype' tuple.
        Subclasses that wish to change the way opentypes are mapped to
        Unslicers can do so by changing this behavior.

        This method does not apply constraints, it only serves to map
        opentype into Unslicer. Most subclasses will implement this by
        delegating the request to their parent (and thus, eventually, to the
        RootUnslicer), and will set the new child's .opener attribute so
        that they can do the same. Subclasses that wish to change the way
        opentypes are mapped to Unslicers can do so by changing this
        behavior."""

        return self.parent.open(opentype)

    def doOpen(self, opentype):
        """Return an IUnslicer object based upon the 'opentype' tuple. This
        object will receive all tokens destined for the subnode.

        If you want to enforce a constraint, you must override this method
        and do two things: make sure your constraint accepts the opentype,
        and set a per-item constraint on the new child unslicer.

        This method gets the IUnslicer from our .open() method. That might
        return None instead of a child unslicer if the they want a
        multi-token opentype tuple, so be sure to check for Noneness before
        adding a per-item constraint.
        """

        return self.open(opentype)

    def receiveChild(self, obj, ready_deferred=None):
        """Unslicers for containers should accumulate their children's
        ready_deferreds, then combine them in an AsyncAND when receiveClose()
        happens, and return the AsyncAND as the ready_deferreds half of the
        receiveClose() return value.
        """
        pass

    def reportViolation(self, why):
        return why

    def receiveClose(self):
        raise NotImplementedError

    def finish(self):
        pass


    def setObject(self, counter, obj):
        """To pass references to previously-sent objects, the [OPEN,
        'reference', number, CLOSE] sequence is used. The numbers are
        generated implicitly by the sending Banana, counting from 0 for the
        object described by the very first OPEN sent over the wire,
        incrementing for each subsequent one. The objects themselves are
        stored in any/all Unslicers who cares to. Generally this is the
        RootUnslicer, but child slices could do it too if they wished.
        """
        # TODO: examine how abandoned child objects could mess up this
        # counter
        pass

    def getObject(self, counter):
        """'None' means 'ask our parent instead'.
        """
        return None

    def explode(self, failure):
        """If something goes wrong in a Deferred callback, it may be too late
        to reject the token and to normal error handling. I haven't figured
        out how to do sensible error-handling in this situation. This method
        exists to make sure that the exception shows up *somewhere*. If this
        is called, it is also likely that a placeholder (probably a Deferred)
        will be left in the unserialized object graph about to be handed to
        the RootUnslicer.
        """

        # RootUnslicer pays attention to this .exploded attribute and refuses
        # to deliver anything if it is set. But PBRootUnslicer ignores it.
        # TODO: clean this up, and write some unit tests to trigger it (by
        # violating schemas?)
        log.msg("BaseUnslicer.explode: %s" % failure)
        self.protocol.exploded = failure

class ScopedUnslicer(BaseUnslicer):
    """This Unslicer provides a containing scope for referenceable things
    like lists. It corresponds to the ScopedSlicer base class."""

    def __init__(self):
        BaseUnslicer.__init__(self)
        self.references = {}

    def setObject(self, counter, obj):
        if self.protocol.debugReceive:
            print("setObject(%s): %s{%s}" % (counter, obj, id(obj)))
        self.references[counter] = obj

    def getObject(self, counter):
        obj = self.references.get(counter)
        if self.protocol.debugReceive:
            print("getObject(%s) -> %s{%s}" % (counter, obj, id(obj)))
        return obj


class LeafUnslicer(BaseUnslicer):
    # inherit from this to reject any child nodes

    # .checkToken in LeafUnslicer subclasses should reject OPEN tokens

    def doOpen(self, opentype):
        raise Violation("'%s' does not accept sub-objects" % self)


# References are special enough to put here instead of slicers/

class ReferenceSlicer(BaseSlicer):
    # this is created explicitly, not as an adapter
    opentype = ('reference',)
    trackReferences = False

    def __init__(self, refid):
        assert type(refid) is int
        self.refid = refid
    def sliceBody(self, streamable, banana):
        yield self.refid

class ReferenceUnslicer(LeafUnslicer):
    opentype = ('reference',)

    constraint = None
    finished = False

    def setConstraint(self, constraint):
        self.constraint = constraint

    def checkToken(self, typebyte,size):
        if typebyte != tokens.INT:
            raise BananaError("ReferenceUnslicer only accepts INTs")

    def receiveChild(self, obj, ready_deferred=None):
        assert not isinstance(obj, Deferred)
        assert ready_deferred is None
        if self.finished:
            raise BananaError("ReferenceUnslicer only accepts one int")
        self.obj = self.protocol.getObject(obj)
        self.finished = True
        # assert that this conforms to the constraint
        if self.constraint:
            self.constraint.checkObject(self.obj, True)
        # TODO: it might be a Deferred, but we should know enough about the
        # incoming value to check the constraint. This requires a subclass
        # of Deferred which can give us the metadata.

    def receiveClose(self):
        return self.obj, None
