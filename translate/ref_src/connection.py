import time
from twisted.python.failure import Failure
from twisted.internet import protocol, reactor, error, defer
from foolscap.tokens import (NoLocationHintsError, NegotiationError,
                             RemoteNegotiationError)
from foolscap.info import ConnectionInfo
from foolscap.logging import log
from foolscap.logging.log import CURIOUS, UNUSUAL, OPERATIONAL
from foolscap.ipb import InvalidHintError
from foolscap.connections.tcp import convert_legacy_hint

class TubConnectorFactory(protocol.Factory, object):
    # this is for internal use only. Application code should use
    # Tub.getReference(url)

    noisy = False

    def __init__(self, tc, host, location, logparent):
        self.tc = tc # the TubConnector
        self.host = host
        self.location = location
        self._logparent = logparent

    def __repr__(self):
        # make it clear which remote Tub we're trying to connect to
        base = object.__repr__(self)
        at = base.find(" at ")
        if at == -1:
            # our annotation isn't really important, so don't fail just
            # because we guessed the default __repr__ incorrectly
            return base
        assert self.tc.tub.tubID
        origin = self.tc.tub.tubID[:8]
        assert self.tc.target.getTubID()
        target = self.tc.target.getTubID()[:8]
        return base[:at] + " [from %s]" % origin + " [to %s]" % target + base[at:]

    def buildProtocol(self, addr):
        nc = self.tc.tub.negotiationClass # this is usually Negotiation
        proto = nc(self._logparent)
        proto.initClient(self.tc, self.host, self.tc._connectionInfo)
        proto.factory = self
        return proto

def describe_handler(h):
    try:
        return h.describe()
    except AttributeError:
        return repr(h)

def get_endpoint(location, connectionPlugins, connectionInfo):
    def _update_status(status):
        connectionInfo._set_connection_status(location, status)
    def _try():
        hint = convert_legacy_hint(location)
        if ":" not in hint:
            raise InvalidHintError("no colon")
        hint_type = hint.split(":", 1)[0]
        plugin = connectionPlugins.get(hint_type)
        if not plugin:
            connectionInfo._describe_connection_handler(location, None)
            raise InvalidHintError("no handler registered")
        connectionInfo._describe_connection_handler(location,
                                                    describe_handler(plugin))
        _update_status("resolving hint")
        d = defer.maybeDeferred(plugin.hint_to_endpoint, hint, reactor, _update_status)
        def problem(f):
            log.err(f, "error in hint_to_endpoint", level=UNUSUAL,
                    facility="foolscap.connection", umid="Fxtg6A")
            # this hint will be ignored
            return f
        d.addErrback(problem)
        return d
    return defer.maybeDeferred(_try)

class TubConnector(object):
    """I am used to make an outbound connection. I am given a target TubID
    and a list of locationHints, and I try all of them until I establish a
    Broker connected to the target. I will consider redirections returned
    along the way. The first hint that yields a connected Broker will stop
    the search.

    This is a single-use object. The connection attempt begins as soon as my
    connect() method is called.

    I live until all but one of the TCP connections I initiated have finished
    closing down. This means that connection establishment attempts in
    progress are cancelled, and established connections (the ones which did
    *not* complete negotiation before the winning connection) have called
    their connectionLost() methods.
    """

    failureReason = None
    CONNECTION_TIMEOUT = 120
    timer = None

    def __init__(self, parent, tubref, connectionPlugins):
        self._logparent = log.msg(format="TubConnector created from "
                                  "%(fromtubid)s to %(totubid)s",
                                  fromtubid=parent.tubID,
                                  totubid=tubref.getTubID(),
                                  level=OPERATIONAL,
                                  facility="foolscap.connection",
                                  umid="pH4QDA")
        self.tub = parent
        self.target = tubref
        self.connectionPlugins = connectionPlugins
        self._connectionInfo = ConnectionInfo()
        self.remainingLocations = list(self.target.getLocations())
        # attemptedLocations keeps track of where we've already tried to
        # connect, so we don't try them twice, even if they appear in the
        # hints multiple times. this isn't too clever: slight variations of
        # the same hint will fool it, but it should be enough to avoid
        # infinite redirection loops.
        self.attemptedLocations = []

        # validHints tracks which hints were successfully turned into
        # endpoints. If we don't recognize any hint type in a FURL,
        # validHints will be empty when we're done, and we'll signal
        # NoLocationHintsError
        self.validHints = []

        # pendingConnections contains a Deferred for each endpoint.connect()
        # that has started (but not yet established) a connection. We keep
        # track of these so we can shut them down (using d.cancel()) when we
        # stop connecting (either because one of the other connections
        # succeeded, or because someone told us to give up).
        self.pendingConnections = set()

        # self.pendingNegotiations maps Negotiation instances (connected but
        # not finished negotiation) to the hint that got us the connection.
        # We track these so we can abandon the negotiation.
        self.pendingNegotiations = {}

    def __repr__(self):
        s = object.__repr__(self)
        s = s[:-1]
        s += " from %s to %s>" % (self.tub.tubID, self.target.getTubID())
        return s

    def log(self, *args, **kwargs):
        kwargs['parent'] = kwargs.get('parent') or self._logparent
        kwargs['facility'] = kwargs.get('facility') or "foolscap.connection"
        return log.msg(*args, **kwargs)

    def getConnectionInfo(self):
        return self._connectionInfo

    def connect(self):
        """Begin the connection process. This should only be called once.
        This will either result in the successful Negotiation object invoking
        the parent Tub's brokerAttached() method, or us calling the Tub's
        connectionFailed() method."""
        self.tub.connectorStarted(self)
        timeout = self.tub._test_options.get('connect_timeout',
                                             self.CONNECTION_TIMEOUT)
        self.timer = reactor.callLater(timeout, self.connectionTimedOut)
        self.active = True
        self.connectToAll()

    def stopConnectionTimer(self):
        if self.timer:
            self.timer.cancel()
            del self.timer

    def shutdown(self):
        self.active = False
        self.remainingLocations = []
        self.stopConnectionTimer()
        self.cancelRemainingConnections()

    def cancelRemainingConnections(self):
        for d in list(self.pendingConnections):
            d.cancel()
            # this will trigger self._connectionFailed(), via the errback,
            # with a ConnectingCancelledError
        for n in list(self.pendingNegotiations.keys()):
            n.transport.loseConnection()
            # triggers n.connectionLost(), then self.connectorNegotiationFailed()

    def connectToAll(self):
        while self.remainingLocations:
            location = self.remainingLocations.pop()
            if location in self.attemptedLocations:
                continue
            self.attemptedLocations.append(location)
            lp = self.log("considering hint: %s" % (location,))
            d = get_endpoint(location, self.connectionPlugins,
                             self._connectionInfo)
            # no handler for this hint?: InvalidHintError thrown here
            def _good_hint(res, location=location):
                self._connectionInfo._set_connection_status(location,
                                                            "connecting")
                self.validHints.append(location)
                (ep, host) = res
                self.log("connecting to hint: %s" % (location,),
                         parent=lp, umid="9iX0eg")
                return ep.connect(TubConnectorFactory(self, host, location, lp))
            d.addCallback(_good_hint)
            self.pendingConnections.add(d)
            def _remove(res, d=d):
                self.pendingConnections.remove(d)
                return res
            d.addBoth(_remove)
            d.addCallback(self._connectionSuccess, location, lp)
            d.addErrback(self._connectionFailed, location, lp)
            if self.tub._test_options.get("debug_stall_second_connection"):
                # for unit tests, hold off on making the second connection
                # for a moment. This allows the first connection to get to a
                # known state.
                reactor.callLater(0.1, self.connectToAll)
                return
        self.checkForFailure()

    def connectionTimedOut(self):
        # this timer is for the overall connection attempt, not each
        # individual endpoint/TCP connector
        self.timer = None
        why = "no connection established within client timeout"
        self.failureReason = Failure(NegotiationError(why))
        self.shutdown()
        self.failed()

    def _connectionFailed(self, reason, hint, lp):
        # this is called if some individual TCP connection cannot be
        # established
        if reason.check(error.ConnectionRefusedError):
            description = "connection refused"
            self.log("connection refused for %s" % hint, level=OPERATIONAL,
                     parent=lp, umid="rSrUxQ")
        elif reason.check(error.ConnectingCancelledError, defer.CancelledError):
            description = "abandoned"
            self.log("abandoned attempt to %s" % hint, level=OPERATIONAL,
                     parent=lp, umid="CC8vwg")
        elif reason.check(InvalidHintError):
            description = "bad hint: %s" % str(reason.value)
            self.log("unable to use hint: %s: %s" % (hint, reason.value),
                     level=UNUSUAL, parent=lp, umid="z62ctA")
        else:
            # some errors, like txsocksx.errors.ServerFailure, extend
            # Exception without defining a __str__, so when one is
            # constructed without arguments, their str() is empty, which is
            # not very useful. Their repr() at least includes the exception
            # name. In general, str() is better than repr(), since it lets
            # the exception designer build a human-meaningful string, so
            # we'll prefer str() unless it's empty.
            why = str(reason.value) or repr(reason.value)
            description = "failed to connect: %s" % why
            log.err(reason, "failed to connect to %s" % hint, level=CURIOUS,
                    parent=lp, facility="foolscap.connection",
                    umid="2PEowg")
        suffix = getattr(reason.value,
                         "foolscap_connection_handler_error_suffix",
                         None)
        if suffix:
            description += suffix
        self._connectionInfo._set_connection_status(hint, description)
        if not self.failureReason:
            self.failureReason = reason
        self.checkForFailure()
        self.checkForIdle()

    def _connectionSuccess(self, p, hint, lp):
        # fires with the Negotiation protocol instance, after
        # p.makeConnection(transport) returns, which is after
        # p.connectionMade() returns
        self.log("connected to %s, beginning negotiation" % hint,
                 level=OPERATIONAL, parent=lp, umid="VN0XGQ")
        self.pendingNegotiations[p] = hint
        self._connectionInfo._set_connection_status(hint, "negotiating")

    def redirectReceived(self, newLocation):
        # the redirected connection will disconnect soon, which will trigger
        # connectorNegotiationFailed(), so we don't have to do a
        self.remainingLocations.append(newLocation)
        self.connectToAll()

    def connectorNegotiationFailed(self, n, location, reason):
        assert isinstance(n, self.tub.negotiationClass)
        # this is called if protocol negotiation cannot be established, or if
        # the connection is closed for any reason prior to switching to the
        # Banana protocol

        # abandoned connections will not have hit _connectionSuccess, so they
        # won't have been added to pendingNegotiations
        self.pendingNegotiations.pop(n, None)
        description = "negotiation failed: %s" % str(reason.value)
        self._connectionInfo._set_connection_status(location, description)
        assert isinstance(reason, Failure), \
               "Hey, %s isn't a Failure" % (reason,)
        if (not self.failureReason or
            isinstance(reason, NegotiationError)):
            # don't let mundane things like ConnectionFailed override the
            # actually significant ones like NegotiationError
            self.failureReason = reason
        self.checkForFailure()
        self.checkForIdle()

    def connectorNegotiationComplete(self, n, location):
        assert isinstance(n, self.tub.negotiationClass)
        # 'factory' has just completed negotiation, so abandon all the other
        # connection attempts
        self.log("connectorNegotiationComplete, %s won" % n)
        self.pendingNegotiations.pop(n, None) # this one succeeded
        self._connectionInfo._set_connection_status(location, "successful")
        self._connectionInfo._set_winning_hint(location)
        self._connectionInfo._set_established_at(time.time())
        self.active = False
        if self.timer:
            self.timer.cancel()
            self.timer = None
        self.cancelRemainingConnections() # abandon the others
        self.checkForIdle()

    def checkForFailure(self):
        if not self.active:
            return
        if (self.remainingLocations or
            self.pendingConnections or self.pendingNegotiations):
            return
        if not self.validHints:
            self.failureReason = Failure(NoLocationHintsError())
        # we have no more options, so the connection attempt will fail. The
        # getBrokerForTubRef may have succeeded, however, if the other side
        # tried to connect to us at exactly the same time, they were the
        # master, they established their connection first (but the final
        # decision is still in flight), and they hung up on our connection
        # because they felt it was a duplicate. So, if self.failureReason
        # indicates a duplicate connection, do not signal a failure here. We
        # leave the connection timer in place in case they lied about having
        # a duplicate connection ready to go.

        ## this code was wrong (it used isSubstring() with the arguments
        ## swapped, so it would always return False), but the tests were
        ## passing, which means the tests were broken (as well as my
        ## understanding of what this was supposed to do). I'm going to
        ## disable this clause entirely for now. I *think* the consequence is
        ## unnecessary reconnection attempts in some circumstances.
        if (False and
            self.failureReason.check(RemoteNegotiationError) and
            ("Duplicate connection" in self.failureReason.value.args[0])
            #isSubstring(self.failureReason.value.args[0], "Duplicate connection")
            ):
            self.log("TubConnector.checkForFailure: connection attempt "
                     "failed because the other end decided ours was a "
                     "duplicate connection, so we won't signal the "
                     "failure here")
            return
        self.failed()

    def failed(self):
        self.stopConnectionTimer()
        self.active = False
        if self.failureReason:
            self.failureReason._connectionInfo = self._connectionInfo
        self.tub.connectionFailed(self.target, self.failureReason)
        self.tub.connectorFinished(self)

    def checkForIdle(self):
        # When one connection finishes negotiation, the others are cancelled
        # to hurry them along their way towards disconnection. The last one
        # to resolve finally causes us to notify our parent Tub.
        if (self.remainingLocations or
            self.pendingConnections or self.pendingNegotiations):
            return
        # we have no more outstanding connections (either in progress or in
        # negotiation), so this connector is finished.
        self.log("connectorFinished (%s)" % self)
        self.tub.connectorFinished(self)
