# -*- test-case-name: foolscap.test.test_reconnector -*-

import random
import time
from twisted.internet import reactor
from twisted.python import log
from foolscap.tokens import NegotiationError, RemoteNegotiationError

class ReconnectionInfo:
    def __init__(self):
        self.state = "unstarted"
        self.connectionInfo = None
        self.lastAttempt = None
        self.nextAttempt = None

    def _set_state(self, state):
        self.state = state # unstarted, connecting, connected, waiting
    def _set_connection_info(self, connectionInfo):
        self.connectionInfo = connectionInfo
    def _set_last_attempt(self, when):
        self.lastAttempt = when
    def _set_next_attempt(self, when):
        self.nextAttempt = when


class Reconnector(object):
    """Establish (and maintain) a connection to a given PBURL.

    I establish a connection to the PBURL and run a callback to inform the
    caller about the newly-available RemoteReference. If the connection is
    lost, I schedule a reconnection attempt for the near future. If that one
    fails, I keep trying at longer and longer intervals (exponential
    backoff).

    My constructor accepts a callback which will be fired each time a
    connection attempt succeeds. This callback is run with the new
    RemoteReference and any additional args/kwargs provided to me. The
    callback should then use rref.notifyOnDisconnect() to get a message when
    the connection goes away. At some point after it goes away, the
    Reconnector will reconnect.

    When you no longer want to maintain this connection, call my
    stopConnecting() method. I promise to not invoke your callback after
    you've called stopConnecting(), even if there was already a connection
    attempt in progress. If you had an active connection before calling
    stopConnecting(), you will still have access to it, until it breaks on
    its own. (I will not attempt to break existing connections, I will merely
    stop trying to create new ones).
    """

    # adapted from twisted.internet.protocol.ReconnectingClientFactory
    maxDelay = 3600
    initialDelay = 1.0
    # Note: These highly sensitive factors have been precisely measured by
    # the National Institute of Science and Technology.  Take extreme care
    # in altering them, or you may damage your Internet!
    factor = 2.7182818284590451 # (math.e)
    # Phi = 1.6180339887498948 # (Phi is acceptable for use as a
    # factor if e is too large for your application.)
    jitter = 0.11962656492 # molar Planck constant times c, Joule meter/mole
    verbose = False

    def __init__(self, url, cb, args, kwargs):
        self._url = url
        self._active = False
        self._stopped = False
        self._observer = (cb, args, kwargs)
        self._delay = self.initialDelay
        self._timer = None
        self._tub = None
        self._last_failure = None
        self._reconnectionInfo = ReconnectionInfo()

    def startConnecting(self, tub):
        self._tub = tub
        if self._stopped:
            # stopConnecting() was called while we were still queued, waiting
            # for the Tub to start: honor it
            self._tub._removeReconnector(self)
            return
        if self.verbose:
            log.msg("Reconnector starting for %s" % self._url)
        self._active = True
        self._connect()

    def stopConnecting(self):
        if self.verbose:
            log.msg("Reconnector stopping for %s" % self._url)
        self._active = False
        self._stopped = True
        if self._timer:
            self._timer.cancel()
            self._timer = False
        if self._tub:
            self._tub._removeReconnector(self)

    def reset(self):
        """Reset the connection timer and try again very soon."""
        self._delay = self.initialDelay
        if self._timer:
            self._timer.reset(1.0)

    def getDelayUntilNextAttempt(self):
        if not self._timer:
            return None
        return self._timer.getTime() - time.time()

    def getLastFailure(self):
        return self._last_failure

    def getReconnectionInfo(self):
        return self._reconnectionInfo

    def _connect(self):
        self._reconnectionInfo._set_state("connecting")
        self._reconnectionInfo._set_last_attempt(time.time())
        d = self._tub.getReference(self._url)
        ci = self._tub.getConnectionInfoForFURL(self._url)
        self._reconnectionInfo._set_connection_info(ci)
        d.addCallbacks(self._connected, self._failed)

    def _connected(self, rref):
        if not self._active:
            return
        self._reconnectionInfo._set_state("connected")
        ci = self._tub.getConnectionInfoForFURL(self._url)
        self._reconnectionInfo._set_connection_info(ci)
        self._last_failure = None
        rref.notifyOnDisconnect(self._disconnected)
        cb, args, kwargs = self._observer
        cb(rref, *args, **kwargs)

    def _failed(self, f):
        self._last_failure = f
        ci = getattr(f, "_connectionInfo", None)
        if ci:
            self._reconnectionInfo._set_connection_info(ci)

        # I'd like to quietly handle "normal" problems (basically TCP
        # failures and NegotiationErrors that result from the target either
        # not speaking Foolscap or not hosting the Tub that we want), but not
        # hide coding errors or version mismatches.
        log_it = self.verbose

        # log certain unusual errors, even without self.verbose, to help
        # people figure out why their reconnectors aren't connecting, since
        # the usual getReference errback chain isn't active. This doesn't
        # include ConnectError (which is a parent class of
        # ConnectionRefusedError), so it won't fire if we just had a bad
        # host/port, since the way we use connection hints will provoke that
        # all the time.
        if f.check(RemoteNegotiationError, NegotiationError):
            log_it = True
        if log_it:
            log.msg("Reconnector._failed (furl=%s): %s" % (self._url, f))
        if not self._active:
            return
        self._delay = min(self._delay * self.factor, self.maxDelay)
        if self.jitter:
            self._delay = random.normalvariate(self._delay,
                                               self._delay * self.jitter)
        self._retry()

    def _disconnected(self):
        self._delay = self.initialDelay
        self._retry()

    def _retry(self):
        if not self._active:
            return
        if self.verbose:
            log.msg("Reconnector scheduling retry in %ds for %s" %
                    (self._delay, self._url))
        self._reconnectionInfo._set_state("waiting")
        self._reconnectionInfo._set_next_attempt(time.time() + self._delay)
        self._timer = reactor.callLater(self._delay, self._timer_expired)

    def _timer_expired(self):
        self._timer = None
        self._connect()

