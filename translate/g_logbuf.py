"""C18: translated parts of logging/log.py, logging/levels.py, logging/incident.py, logging/publish.py.

Constants (levels, DEFAULT_SIZELIMIT, DEFAULT_THRESHOLD, MAX_QUEUE_SIZE, MAX_IN_FLIGHT, TRAILING_DELAY,
TRAILING_EVENT_LIMIT), the two Count methods (through PyLite) and *shape facts*: the order of the stages of
FoolscapLogger.add_event, the trimming loop (loop kind, comparison, which end is dropped), the generation-threshold
test of _msg, the catch-all of msg, IncidentQualifier.check_event, the stages of IncidentReporter.incident_declared
and trailing_event, Subscription.send / start_sending / _event_received.  Every fact is emitted as a small
enumerated value that lib/LogBuf.v *interprets*; anything that does not have the expected form raises
Untranslatable (fail closed).

Alternative source forms that are accepted (robustness round), each with its equivalence argument.  The argument
never depends on the types of the values involved.

F1  msg():  `if 'num' not in kwargs: A else: B`  ==  `if 'num' in kwargs: B else: A`
    The language defines `x not in y` as `not (x in y)` (one __contains__ call, result negated) for every y; swapping
    the branches under the negated test executes the same branch.
    A = `num = self.seqnum.next(); kwargs['num'] = num`  ==  `num = kwargs['num'] = self.seqnum.next()`
    A chained assignment evaluates the right-hand side once and assigns the targets left to right: first the local
    `num`, then `kwargs['num']` with the same object.  `kwargs` is the dict built by the `**kwargs` calling convention
    (a fresh exact dict), so its __setitem__ cannot observe the difference; nothing is evaluated between the two stores.
F2  serialize_to_json_utf8():  `s = H(obj)` as first statement, H a module-level function of flogfile.py with exactly
    one positional parameter, no decorator / default / star-args, whose body (after the docstring) is a tree of
    try/except (no else/finally, handlers without `as`) and if/else in which EVERY path ends in `return E` as the last
    statement of its block, contains no assignment, loop, with, nested def/lambda/comprehension, global/nonlocal/yield,
    and does not mention `s`.  Calling H(obj) binds the parameter to the same object and runs the body; a `return E`
    yields E's value to `s = ...` and nothing else runs in H afterwards, so replacing each `return E` by `s = E`
    (parameter renamed to `obj`; H has no other locals, so no capture) and continuing after the call site is the same
    computation, with the same exceptions propagating from the same points.  The result is then matched exactly as the
    inline form.  (translate/normalize.py does not inline H because its returns sit inside try.)
F4  the sort key of the two `events.sort(key=K)` statements (IncidentReporter.incident_declared, Subscription.subscribe) is
    READ into a value of type numkey that lib/LogBuf.v interprets (sort_key_form): `lambda a: a['num']` -> KeyRaw (the model's
    sort stage then FAILS on a non-integer number: the defect fixed in 7a22019 comes back as a model that predicts the lost
    incident and as broken proofs); `lambda a: a['num'] if isinstance(a['num'], int) else d` -> KeyIntElse d; the same
    conditional with the test negated and the branches swapped is the same function (`not` of the bool that isinstance
    returns).  Any other key is rejected.
F5  (round 7) IncidentReporter.incident_declared: the top-level statements that touch self.f1 (open, MAGIC, header, the
    snapshot loop, flush) are emitted in source order as incident_f1_ops; lib/LogDisk.v derives from the list what is on
    disk when msg() returns; any other statement mentioning f1 fails closed.
F3  Subscription.send():  `if len(self.queue) < MAX: append else: pass`  ==  the same `if` without an else branch
    (an absent else branch and `else: pass` both execute nothing when the test is false).
Not accepted (stay fail-closed): IncidentReporter writing to both files with `for f in (self.f1, self.f2): ...`
    instead of two statements: the tuple reads self.f2 BEFORE the first write, the two-statement form after it (caching
    an attribute across a call); and `if remaining < 0: stop else: write` for `if remaining >= 0: write; return` + stop,
    which is the same test only for values on which `<` and `>=` are complementary."""
import ast
from translate import pylite as P

PROPERTIES = ["C18"]
OUTPUTS = ["LogBufGen.v"]

CMPNAME = {ast.Gt: "LGt", ast.GtE: "LGe", ast.Lt: "LLt", ast.LtE: "LLe", ast.Eq: "LEq", ast.NotEq: "LNe"}
LEVELS = ["NOISY", "OPERATIONAL", "UNUSUAL", "INFREQUENT", "CURIOUS", "WEIRD", "SCARY", "BAD"]
PY_LOGGING = {"DEBUG": 10, "INFO": 20, "WARNING": 30, "ERROR": 40, "CRITICAL": 50}  # CPython's logging module (documented constants)


def U(node):
    return ast.unparse(node)


def bail(msg):
    raise P.Untranslatable(msg)


def cmp1(node, what):
    if not (isinstance(node, ast.Compare) and len(node.ops) == 1 and type(node.ops[0]) in CMPNAME):
        bail("%s: expected a single comparison, found %s" % (what, U(node)))
    return U(node.left), CMPNAME[type(node.ops[0])], U(node.comparators[0])


def level_consts():
    mod = P.load("logging/levels.py")
    env = {}
    for st in mod.body:
        if isinstance(st, ast.Import):
            continue
        if not (isinstance(st, ast.Assign) and len(st.targets) == 1 and isinstance(st.targets[0], ast.Name)):
            bail("levels.py: unexpected statement " + U(st))
        v = st.value

        def ev(n):
            if isinstance(n, ast.Attribute) and isinstance(n.value, ast.Name) and n.value.id == "logging" \
                    and n.attr in PY_LOGGING:
                return PY_LOGGING[n.attr]
            if isinstance(n, ast.Constant) and isinstance(n.value, int) and not isinstance(n.value, bool):
                return n.value
            if isinstance(n, ast.BinOp) and isinstance(n.op, (ast.Add, ast.Sub)):
                a, b = ev(n.left), ev(n.right)
                return a + b if isinstance(n.op, ast.Add) else a - b
            bail("levels.py: cannot evaluate " + U(n))
        env[st.targets[0].id] = ev(v)
    for k in LEVELS:
        if k not in env:
            bail("levels.py: %s missing" % k)
    return env


def sort_key_form(stmt, what):
    """`events.sort(key=K)` -> the Coq value of type numkey that lib/LogBuf.v interprets.
    KeyRaw         K = lambda a: a['num']                                   (the form before 7a22019: the keys are the objects
                                                                             themselves; one non-integer num= makes the sort raise)
    KeyIntElse d   K = lambda a: a['num'] if isinstance(a['num'], int) else d      (d an integer literal)
                   K = lambda a: d if not isinstance(a['num'], int) else a['num']  (the same conditional with the test negated:
                                                                             `not` of the bool isinstance returns; same branches)
    Anything else (another default, another type test, a named function, sorted(), no key) is rejected."""
    if not (isinstance(stmt, ast.Expr) and isinstance(stmt.value, ast.Call) and U(stmt.value.func) == "events.sort"
            and not stmt.value.args and len(stmt.value.keywords) == 1 and stmt.value.keywords[0].arg == "key"):
        bail("%s: the buffered events are no longer sorted by `events.sort(key=...)`: %s" % (what, U(stmt)))
    k = stmt.value.keywords[0].value
    if not (isinstance(k, ast.Lambda) and len(k.args.args) == 1 and not k.args.defaults and not k.args.vararg
            and not k.args.kwarg and not k.args.kwonlyargs and not k.args.posonlyargs):
        bail("%s: sort key is not a one-argument lambda: %s" % (what, U(k)))
    v = k.args.args[0].arg
    num = "%s['num']" % v
    test = "isinstance(%s, int)" % num
    b = k.body
    if U(b) == num:
        return "KeyRaw"

    def intlit(n):
        if isinstance(n, ast.UnaryOp) and isinstance(n.op, ast.USub):
            r = intlit(n.operand)
            return None if r is None else -r
        if isinstance(n, ast.Constant) and isinstance(n.value, int) and not isinstance(n.value, bool):
            return n.value
        return None
    if isinstance(b, ast.IfExp):
        if U(b.test) == test and U(b.body) == num and intlit(b.orelse) is not None:
            return "KeyIntElse (%d)" % intlit(b.orelse)
        if U(b.test) == "not " + test and U(b.orelse) == num and intlit(b.body) is not None:
            return "KeyIntElse (%d)" % intlit(b.body)
    bail("%s: unrecognised sort key %s" % (what, U(k)))


def classify_add_event(fn):
    """the top-level statements of add_event -> stage list"""
    stages = []
    body = [s for s in fn.body if not (isinstance(s, ast.Expr) and isinstance(s.value, ast.Constant))]
    i = 0
    facts = {}
    while i < len(body):
        s = body[i]
        src = U(s)
        if isinstance(s, ast.For) and U(s.iter) == "self._immediate_observers":
            if src.replace("\n", " ").split() != "for o in self._immediate_observers: o(event)".split():
                bail("add_event: immediate-observer loop changed: " + src)
            stages.append("StImmediate")
            i += 1
        elif isinstance(s, ast.For) and U(s.iter) == "self._observers":
            if "".join(src.split()) != "foroinself._observers:eventual.eventually(o,event)":
                bail("add_event: observer loop changed: " + src)
            stages.append("StObservers")
            i += 1
        elif src == "d1 = self.buffers.get(facility)":
            want = ["d1 = self.buffers.get(facility)",
                    "if not d1:\n    d1 = self.buffers[facility] = {}",
                    "buffer = d1.get(level)",
                    "if not buffer:\n    buffer = d1[level] = collections.deque()",
                    "buffer.append(event)"]
            got = [U(x) for x in body[i:i + 5]]
            if got != want:
                bail("add_event: buffer lookup/append changed: %r" % got)
            stages.append("StAppend")
            i += 5
        elif src == "d2 = self.buffer_sizes.get(facility)":
            want_if = "if d2:\n    sizelimit = d2.get(level, self.DEFAULT_SIZELIMIT)\nelse:\n    sizelimit = self.DEFAULT_SIZELIMIT"
            if i + 2 >= len(body) or U(body[i + 1]) != want_if:
                bail("add_event: size-limit lookup changed")
            loop = body[i + 2]
            if isinstance(loop, ast.While):
                facts["trim_kind"] = "TrimWhile"
            elif isinstance(loop, ast.If) and not loop.orelse:
                facts["trim_kind"] = "TrimIf"
            else:
                bail("add_event: trimming statement is neither while nor if: " + U(loop))
            l, op, r = cmp1(loop.test, "add_event trim test")
            if (l, r) != ("len(buffer)", "sizelimit"):
                bail("add_event: trim test compares %s with %s" % (l, r))
            facts["trim_cmp"] = op
            if len(loop.body) != 1:
                bail("add_event: trim body changed")
            b = U(loop.body[0])
            if b == "buffer.popleft()":
                facts["trim_pop"] = "PopLeft"
            elif b == "buffer.pop()":
                facts["trim_pop"] = "PopRight"
            else:
                bail("add_event: trim body is " + b)
            stages.append("StTrim")
            i += 3
        elif isinstance(s, ast.If) and U(s.test) == "self.active_incident_qualifier":
            if [U(x) for x in s.body] != ["self.active_incident_qualifier.event(event)"] or s.orelse:
                bail("add_event: qualifier call changed")
            stages.append("StQualifier")
            i += 1
        else:
            bail("add_event: unrecognised statement: " + src)
    for k in ("trim_kind", "trim_cmp", "trim_pop"):
        if k not in facts:
            bail("add_event: no trimming stage found")
    return stages, facts


def msg_numbering_ok(st):
    """the first statement of FoolscapLogger.msg (accepted forms F1 of the module docstring)"""
    if not (isinstance(st, ast.If) and st.orelse):
        return False
    t = U(st.test)
    if t == "'num' not in kwargs":
        auto, given = st.body, st.orelse
    elif t == "'num' in kwargs":
        given, auto = st.body, st.orelse
    else:
        return False
    if [U(x) for x in given] != ["num = kwargs['num']"]:
        return False
    return [U(x) for x in auto] in (["num = self.seqnum.next()", "kwargs['num'] = num"],
                                    ["num = kwargs['num'] = self.seqnum.next()"])


def inline_tail_return_helper(mod, st, target, argname):
    """`<target> = H(<argname>)` where H is a module-level helper -> H's body with `return E` turned into
    `<target> = E` (see the module docstring, accepted form F2); any other statement is returned unchanged."""
    if not (isinstance(st, ast.Assign) and len(st.targets) == 1 and U(st.targets[0]) == target
            and isinstance(st.value, ast.Call) and isinstance(st.value.func, ast.Name) and not st.value.keywords
            and len(st.value.args) == 1 and U(st.value.args[0]) == argname):
        return st
    defs = [n for n in mod.body if isinstance(n, ast.FunctionDef) and n.name == st.value.func.id]
    if len(defs) != 1:
        return st
    h = defs[0]
    a = h.args
    if h.decorator_list or a.vararg or a.kwarg or a.kwonlyargs or a.defaults or a.posonlyargs or len(a.args) != 1:
        return st
    param = a.args[0].arg
    body = [x for x in h.body if not (isinstance(x, ast.Expr) and isinstance(x.value, ast.Constant))]
    for n in ast.walk(ast.Module(body=body, type_ignores=[])):
        if isinstance(n, (ast.FunctionDef, ast.Lambda, ast.ClassDef, ast.Global, ast.Nonlocal, ast.Yield, ast.YieldFrom,
                          ast.For, ast.While, ast.With, ast.Assign, ast.AugAssign, ast.AnnAssign, ast.NamedExpr, ast.Delete,
                          ast.Import, ast.ImportFrom, ast.comprehension)):
            return st
        if isinstance(n, ast.Name) and n.id == target:
            return st
        if isinstance(n, ast.ExceptHandler) and n.name:
            return st

    def conv(stmts):
        """every path through stmts ends in `return E` as its last statement -> same with `target = E`"""
        if len(stmts) != 1:
            raise ValueError
        x = stmts[0]
        if isinstance(x, ast.Return) and x.value is not None:
            return [ast.Assign(targets=[ast.Name(id=target, ctx=ast.Store())], value=x.value, lineno=x.lineno)]
        if isinstance(x, ast.Try) and not x.finalbody and not x.orelse:
            return [ast.Try(body=conv(x.body), handlers=[ast.ExceptHandler(type=hd.type, name=None, body=conv(hd.body))
                                                         for hd in x.handlers], orelse=[], finalbody=[])]
        if isinstance(x, ast.If) and x.orelse:
            return [ast.If(test=x.test, body=conv(x.body), orelse=conv(x.orelse))]
        raise ValueError
    try:
        new = conv(body)
    except ValueError:
        return st

    class Ren(ast.NodeTransformer):
        def visit_Name(self, n):
            return ast.Name(id=argname, ctx=n.ctx) if n.id == param else n
    out = [ast.fix_missing_locations(Ren().visit(x)) for x in new]
    return out[0]


def generate():
    out = [P.PRELUDE % dict(src="logging/log.py, logging/levels.py, logging/incident.py, logging/publish.py")]
    out.append("Inductive lcmp := LGt | LGe | LLt | LLe | LEq | LNe.")
    out.append("Inductive popside := PopLeft | PopRight.")
    out.append("Inductive trimkind := TrimWhile | TrimIf.")
    out.append("Inductive add_stage := StImmediate | StObservers | StAppend | StTrim | StQualifier.")
    out.append("Inductive inc_stage := IsHeader | IsSubscribe | IsSnapshot | IsFinish.")
    out.append("Inductive f1_op := F1Magic | F1Header | F1Snapshot | F1Flush.")

    # ---- levels
    lv = level_consts()
    for k in LEVELS:
        out.append("Definition %s : Z := %d." % (k, lv[k]))

    # ---- log.py
    mod = P.load("logging/log.py")
    cls = P.find_class(mod, "FoolscapLogger")
    consts = P.module_consts(mod, body=cls.body, names=["DEFAULT_SIZELIMIT", "MAX_RECORDED_INCIDENTS"])
    for k, v in consts.items():
        if not isinstance(v, int) or isinstance(v, bool):
            bail("FoolscapLogger.%s is not an integer literal" % k)
        out.append("Definition %s : Z := %d." % (k, v))
    thr = [s for s in cls.body if isinstance(s, ast.Assign) and U(s.targets[0]) == "DEFAULT_THRESHOLD"]
    if len(thr) != 1 or not isinstance(thr[0].value, ast.Name) or thr[0].value.id not in lv:
        bail("FoolscapLogger.DEFAULT_THRESHOLD is not a level name")
    out.append("Definition DEFAULT_THRESHOLD : Z := %s." % thr[0].value.id)

    # Count (through PyLite): __init__(firstval=0): n = firstval - 1 ; next(): n += 1; return n
    ccls = P.find_class(mod, "Count")
    init = P.find_def(mod, "Count.__init__")
    if len(init.args.defaults) != 1 or not isinstance(init.args.defaults[0], ast.Constant) \
            or not isinstance(init.args.defaults[0].value, int):
        bail("Count.__init__: default of firstval is not an integer literal")
    out.append("Definition count_firstval_default : Z := %d." % init.args.defaults[0].value)
    out.append(P.translate_function("logging/log.py", "Count.__init__", "count_init",
                                    dict(params=dict(firstval=P.Z), attrs=dict(n=P.Z), returns_attrs=["n"], ret=P.U)))
    out.append(P.translate_function("logging/log.py", "Count.next", "count_next",
                                    dict(params={}, attrs=dict(n=P.Z), returns_attrs=["n"], ret=P.Z)))
    linit = P.find_def(mod, "FoolscapLogger.__init__")
    if "self.seqnum = Count()" not in U(linit):
        bail("FoolscapLogger.__init__ no longer creates seqnum = Count()")

    # msg: number taken from the counter unless supplied; catch-all around _msg; fallback in a bare except; returns num
    msg = P.find_def(mod, "FoolscapLogger.msg")
    body = [s for s in msg.body if not (isinstance(s, ast.Expr) and isinstance(s.value, ast.Constant))]
    if len(body) != 3:
        bail("msg: expected `if num..; try..; return num`, found %d statements" % len(body))
    first, tr, ret = body
    want_first = "if 'num' not in kwargs:\n    num = self.seqnum.next()\n    kwargs['num'] = num\nelse:\n    num = kwargs['num']"
    if not msg_numbering_ok(first):
        bail("msg: numbering changed: " + U(first))
    if U(ret) != "return num":
        bail("msg: no longer returns num")
    ok = isinstance(tr, ast.Try) and [U(x) for x in tr.body] == ["self._msg(*args, **kwargs)"] and len(tr.handlers) == 1 \
        and not tr.finalbody and not tr.orelse
    if ok:
        h = tr.handlers[0]
        ok = h.type is not None and U(h.type) in ("Exception", "BaseException") and len(h.body) == 1 \
            and isinstance(h.body[0], ast.Try)
    if ok:
        inner = h.body[0]
        ok = len(inner.handlers) == 1 and (inner.handlers[0].type is None or U(inner.handlers[0].type) in
                                           ("Exception", "BaseException")) \
            and [U(x) for x in inner.handlers[0].body] == ["pass"] and not inner.finalbody and not inner.orelse
        calls = [U(x) for x in inner.body if isinstance(x, ast.Expr)]
        ok = ok and calls == ["self._msg(errormsg, num=num, level=WEIRD, facility='foolscap/internal-error')"]
    if not ok:
        bail("msg: the catch-all around _msg / the guarded fallback event changed")
    out.append("Definition msg_catch_all : bool := true.   (* try: _msg(..) except Exception: try: _msg(errormsg, num=num, level=WEIRD, facility=internal) except: pass *)")
    out.append("Definition fallback_level : Z := WEIRD.")

    # _msg: generation threshold
    m2 = P.find_def(mod, "FoolscapLogger._msg")
    ths = [s for s in m2.body if isinstance(s, ast.If) and "threshold" in U(s.test)]
    if len(ths) != 1 or [U(x) for x in ths[0].body] != ["return"] or ths[0].orelse:
        bail("_msg: threshold test changed")
    l, op, r = cmp1(ths[0].test, "_msg threshold test")
    if (l, r) != ("level", "threshold"):
        bail("_msg: threshold test compares %s with %s" % (l, r))
    out.append("Definition threshold_drop_cmp : lcmp := %s.   (* if level %s threshold: return *)" % (op, op))
    src2 = U(m2)
    for frag in ("threshold = self.get_generation_threshold(facility)", "self.add_event(facility, level, event)",
                 "kwargs['level'] = OPERATIONAL"):
        if frag not in src2:
            bail("_msg no longer contains " + frag)
    idx_thr = m2.body.index(ths[0])
    idx_add = [i for i, s in enumerate(m2.body) if U(s) == "self.add_event(facility, level, event)"]
    if len(idx_add) != 1 or idx_add[0] < idx_thr:
        bail("_msg: add_event is not called exactly once, after the threshold test")
    out.append("Definition default_level : Z := OPERATIONAL.")
    gt = P.find_def(mod, "FoolscapLogger.get_generation_threshold")
    if "return self.thresholds.get(facility, self.DEFAULT_THRESHOLD)" not in U(gt):
        bail("get_generation_threshold changed")
    sb = P.find_def(mod, "FoolscapLogger.set_buffer_size")
    if "self.buffer_sizes[facility][level] = sizelimit" not in U(sb) or len(sb.body) != 2:
        bail("set_buffer_size changed")
    out.append("Definition set_buffer_size_trims : bool := false.   (* set_buffer_size only records the limit *)")

    # add_event
    stages, facts = classify_add_event(P.find_def(mod, "FoolscapLogger.add_event"))
    out.append("Definition add_event_stages : list add_stage := [%s]." % "; ".join(stages))
    out.append("Definition trim_kind : trimkind := %s." % facts["trim_kind"])
    out.append("Definition trim_cmp : lcmp := %s.   (* len(buffer) %s sizelimit *)" % (facts["trim_cmp"], facts["trim_cmp"]))
    out.append("Definition trim_pop : popside := %s." % facts["trim_pop"])

    # declare_incident
    di = P.find_def(mod, "FoolscapLogger.declare_incident")
    want_di = ["self.incidents_declared += 1", "ir = self.get_active_incident_reporter()",
               "if ir:\n    ir.new_trigger(triggering_event)\n    return",
               "if self.logdir:\n    ir = self.incident_reporter_factory(self.logdir, self, 'local')\n"
               "    self.active_incident_reporter_weakref = weakref.ref(ir)\n    ir.incident_declared(triggering_event)"]
    if [U(x) for x in di.body] != want_di:
        bail("declare_incident changed: %r" % [U(x) for x in di.body])
    out.append("Definition one_reporter_at_a_time : bool := true.   (* declare_incident defers to an active reporter *)")

    # ---- incident.py
    im = P.load("logging/incident.py")
    ce = P.find_def(im, "IncidentQualifier.check_event")
    if len(ce.body) != 2 or not isinstance(ce.body[0], ast.If) or U(ce.body[0].body[0]) != "return True" \
            or U(ce.body[1]) != "return False":
        bail("IncidentQualifier.check_event changed")
    l, op, r = cmp1(ce.body[0].test, "check_event")
    if l != "ev['level']" or not r.startswith("levels.") or r[7:] not in lv:
        bail("check_event compares %s with %s" % (l, r))
    out.append("Definition incident_cmp : lcmp := %s." % op)
    out.append("Definition incident_level : Z := %s." % r[7:])
    evm = P.find_def(im, "IncidentQualifier.event")
    if [U(x) for x in evm.body] != ["if self.check_event(ev) and self.handler:\n    self.handler.declare_incident(ev)"]:
        bail("IncidentQualifier.event changed")

    rc = P.find_class(im, "IncidentReporter")
    rconsts = P.module_consts(im, body=rc.body)
    td, tl = rconsts.get("TRAILING_DELAY"), rconsts.get("TRAILING_EVENT_LIMIT")
    if not isinstance(td, (int, float)) or isinstance(td, bool) or td <= 0 or td * 1000 != int(td * 1000):
        bail("IncidentReporter.TRAILING_DELAY is not a positive literal with millisecond precision")
    if not isinstance(tl, int) or isinstance(tl, bool):
        bail("IncidentReporter.TRAILING_EVENT_LIMIT is not an integer literal")
    out.append("Definition TRAILING_DELAY_ms : Z := %d." % int(td * 1000))
    out.append("Definition TRAILING_EVENT_LIMIT : Z := %d." % tl)
    nt = P.find_class(im, "NonTrailingIncidentReporter")
    if [U(b) for b in nt.bases] != ["IncidentReporter"] or [U(s) for s in nt.body] != ["TRAILING_DELAY = None"]:
        bail("NonTrailingIncidentReporter changed")

    # incident_declared: order of header / subscribe / snapshot / finish
    idf = P.find_def(im, "IncidentReporter.incident_declared")
    order = []
    for s in idf.body:
        src = U(s)
        if src.startswith("flogfile.serialize_header(self.f1, 'incident', trigger=triggering_event") and "IsHeader" not in order:
            order.append("IsHeader")
        elif isinstance(s, ast.If) and U(s.test) == "self.TRAILING_DELAY is not None":
            want = ["self.still_recording = True", "self.remaining_events = self.TRAILING_EVENT_LIMIT",
                    "self.logger.addObserver(self.trailing_event)"]
            if [U(x) for x in s.body] != want or s.orelse:
                bail("incident_declared: trailing subscription changed")
            order.append("IsSubscribe")
        elif src == "events = list(self.logger.get_buffered_events())":
            j = idf.body.index(s)
            want = ["events = list(self.logger.get_buffered_events())", None,
                    "for e in events:\n    flogfile.serialize_wrapper(self.f1, e, from_=self.tubid_s, rx_time=now)\n"
                    "    flogfile.serialize_wrapper(self.f2, e, from_=self.tubid_s, rx_time=now)"]
            got = [U(x) for x in idf.body[j:j + 3]]
            if len(got) != 3 or got[0] != want[0] or got[2] != want[2]:
                bail("incident_declared: snapshot of the buffered events changed")
            incident_key = sort_key_form(idf.body[j + 1], "incident_declared")
            order.append("IsSnapshot")
        elif isinstance(s, ast.If) and U(s.test) == "self.TRAILING_DELAY is None":
            want_t = ["self.active = False", "eventually(self.finished_recording)"]
            want_e = ["self.timer = reactor.callLater(self.TRAILING_DELAY, self.stop_recording)"]
            if [U(x) for x in s.body] != want_t or [U(x) for x in s.orelse] != want_e:
                bail("incident_declared: completion changed")
            order.append("IsFinish")
    if sorted(order) != sorted(["IsHeader", "IsSubscribe", "IsSnapshot", "IsFinish"]):
        bail("incident_declared: stages found: %r" % order)
    out.append("Definition incident_stages : list inc_stage := [%s]." % "; ".join(order))
    # the key the snapshot (and, below, the catch-up batch) is sorted by: log.msg(num=..) buffers ANY object as the number
    out.append("Inductive numkey := KeyRaw | KeyIntElse (d : Z).")
    out.append("Definition incident_sort_key : numkey := %s.   (* incident_declared: events.sort(key=...) *)" % incident_key)
    # round 7: what incident_declared does with the UNCOMPRESSED file (the only copy that exists while a trailing reporter
    # waits), statement by statement in source order: writes and flushes.  The model (lib/LogDisk.v) interprets the list:
    # what is guaranteed to be on disk when the triggering msg() returns is what was written before the last flush.  Any
    # other top-level statement that mentions the file fails closed.
    f1_ops = []
    opened = False
    for s in idf.body:
        src = U(s)
        if src == "self.f1 = open(self.abs_filename, 'wb')":
            if f1_ops:
                bail("incident_declared: the uncompressed file is opened after it is used")
            opened = True
        elif src == "self.f1.write(flogfile.MAGIC)":
            f1_ops.append("F1Magic")
        elif src.startswith("flogfile.serialize_header(self.f1, 'incident', trigger=triggering_event"):
            f1_ops.append("F1Header")
        elif isinstance(s, ast.For) and "self.f1" in src:
            # (the loop's exact shape was checked with the snapshot above)
            if src != ("for e in events:\n    flogfile.serialize_wrapper(self.f1, e, from_=self.tubid_s, rx_time=now)\n"
                       "    flogfile.serialize_wrapper(self.f2, e, from_=self.tubid_s, rx_time=now)"):
                bail("incident_declared: unrecognised loop over the uncompressed file")
            f1_ops.append("F1Snapshot")
        elif src == "self.f1.flush()":
            f1_ops.append("F1Flush")
        elif "f1" in src:
            bail("incident_declared: unrecognised use of the uncompressed file: %r" % src[:120])
    if not opened:
        bail("incident_declared no longer opens the uncompressed file")
    out.append("Definition incident_f1_ops : list f1_op := [%s].   (* incident_declared: writes / flushes of self.f1 *)"
               % "; ".join(f1_ops))
    srcid = U(idf)
    for frag in ("self.f1.write(flogfile.MAGIC)", "self.f2.write(flogfile.MAGIC)",
                 "self.f2 = bz2.BZ2File(self.abs_filename_bz2_tmp, 'wb')", "self.f1 = open(self.abs_filename, 'wb')"):
        if frag not in srcid:
            bail("incident_declared no longer contains " + frag)

    # trailing_event:  remaining -= 1 ; if remaining >= 0: write, return ; stop_recording
    te = P.find_def(im, "IncidentReporter.trailing_event")
    tb = [U(x) for x in te.body]
    if len(te.body) != 4 or tb[0] != "if not self.still_recording:\n    return" or tb[1] != "self.remaining_events -= 1" \
            or tb[3] != "self.stop_recording()" or not isinstance(te.body[2], ast.If):
        bail("trailing_event changed: %r" % tb)
    l, op, r = cmp1(te.body[2].test, "trailing_event")
    if (l, r) != ("self.remaining_events", "0"):
        bail("trailing_event compares %s with %s" % (l, r))
    wb = [U(x) for x in te.body[2].body]
    if wb != ["now = time.time()", "flogfile.serialize_wrapper(self.f1, ev, from_=self.tubid_s, rx_time=now)",
              "flogfile.serialize_wrapper(self.f2, ev, from_=self.tubid_s, rx_time=now)", "return"]:
        bail("trailing_event: write branch changed")
    out.append("Definition trailing_cmp : lcmp := %s.   (* remaining_events (after decrement) %s 0 -> write *)" % (op, op))
    out.append("Definition trailing_decrement : Z := 1.")
    # where a trailing reporter stops claiming to be active: in stop_recording (at the moment it unsubscribes) or only in
    # finished_recording (one eventual turn later, after the files are closed).  The model interprets the value: while a
    # stopped-but-still-active reporter exists, declare_incident hands every trigger to its new_trigger() (a no-op).
    sr = P.find_def(im, "IncidentReporter.stop_recording")
    fr = P.find_def(im, "IncidentReporter.finished_recording")
    srb = [U(x) for x in sr.body]
    frb = [U(x) for x in fr.body]
    clear = "self.active = False"
    where = [n for n, b in (("AtStop", srb), ("AtFinish", frb)) if clear in b]
    if len(where) != 1 or (srb + frb).count(clear) != 1:
        bail("the trailing reporter does not clear self.active exactly once in stop_recording / finished_recording")
    want_sr = ["self.still_recording = False", "if self.timer and self.timer.active():\n    self.timer.cancel()",
               "self.logger.removeObserver(self.trailing_event)", "eventually(self.finished_recording)"]
    if [x for x in srb if x != clear] != want_sr:
        bail("stop_recording changed: %r" % srb)
    want_fr = ["self.f2.close()", "move_into_place(self.abs_filename_bz2_tmp, self.abs_filename_bz2)", "self.f1.close()",
               "os.unlink(self.abs_filename)",
               "eventually(self.logger.incident_recorded, self.abs_filename_bz2, self.name, self.trigger)"]
    if [x for x in frb if x != clear] != want_fr:
        bail("finished_recording changed: %r" % frb)
    out.append("Inductive clear_point := AtStop | AtFinish.")
    out.append("Definition active_cleared_at : clear_point := %s.   (* `self.active = False` sits in %s *)"
               % (where[0], "stop_recording" if where[0] == "AtStop" else "finished_recording"))
    ia = P.find_def(im, "IncidentReporter.is_active")
    if [U(x) for x in ia.body] != ["return self.active"]:
        bail("IncidentReporter.is_active changed")
    if "self.active = True" not in U(P.find_def(im, "IncidentReporter.__init__")):
        bail("IncidentReporter.__init__ no longer sets active = True")
    gar = P.find_def(mod, "FoolscapLogger.get_active_incident_reporter")
    want_gar = ["if self.active_incident_reporter_weakref:\n    ir = self.active_incident_reporter_weakref()\n"
                "    if ir and ir.is_active():\n        return ir", "return None"]
    if [U(x) for x in gar.body] != want_gar:
        bail("get_active_incident_reporter changed: %r" % [U(x) for x in gar.body])
    nt_ = P.find_def(im, "IncidentReporter.new_trigger")
    if [U(x) for x in nt_.body if not (isinstance(x, ast.Expr) and isinstance(x.value, ast.Constant))] != ["pass"]:
        bail("IncidentReporter.new_trigger is no longer a no-op")
    out.append("Definition new_trigger_is_noop : bool := true.")
    out.append("Definition publish_by_rename_after_close : bool := true.")

    # ---- flogfile.py: one JSON line per event, nothing written when encoding fails
    fm = P.load("logging/flogfile.py")
    sj = P.find_def(fm, "serialize_to_json_utf8")
    sjb = [x for x in sj.body if not (isinstance(x, ast.Expr) and isinstance(x.value, ast.Constant))]
    dumps = "s = json.dumps(obj, cls=ExtendedEncoder)"
    if len(sjb) != 2 or U(sjb[1]) != "f.write(six.ensure_binary(s))":
        bail("serialize_to_json_utf8: the line is no longer written by one f.write after the encoding")
    if len(sjb) == 2:
        sjb = [inline_tail_return_helper(fm, sjb[0], "s", "obj"), sjb[1]]
    total = "false"
    if U(sjb[0]) == dumps:
        stages = 1
    elif isinstance(sjb[0], ast.Try) and [U(x) for x in sjb[0].body] == [dumps] and len(sjb[0].handlers) == 1 \
            and not sjb[0].finalbody and not sjb[0].orelse:
        stages = 2
        h1 = sjb[0].handlers[0]
        # total form: except Exception: try: s = dumps(_make_jsonable(obj)) except Exception: s = json.dumps(_last_resort(obj))
        if h1.type is not None and U(h1.type) == "Exception" and len(h1.body) == 1 and isinstance(h1.body[0], ast.Try):
            t2 = h1.body[0]
            if [U(x) for x in t2.body] == ["s = json.dumps(_make_jsonable(obj), cls=ExtendedEncoder)"] and len(t2.handlers) == 1 \
                    and not t2.finalbody and not t2.orelse and t2.handlers[0].type is not None \
                    and U(t2.handlers[0].type) == "Exception" \
                    and [U(x) for x in t2.handlers[0].body] == ["s = json.dumps(_last_resort(obj))"]:
                lr = P.find_def(fm, "_last_resort")
                if any(isinstance(n, ast.Raise) for n in ast.walk(lr)):
                    bail("_last_resort contains a raise")
                stages = 3
                total = "true"
    else:
        bail("serialize_to_json_utf8 changed: " + U(sjb[0]))
    out.append("Definition serialize_stages : Z := %d." % stages)
    out.append("Definition serialize_total : bool := %s.   (* json.dumps -> sanitised copy -> last-resort record, each under `except Exception` *)" % total)
    sw = P.find_def(fm, "serialize_wrapper")
    if [U(x) for x in sw.body] != ["wrapper = {'from': from_, 'rx_time': rx_time, 'd': ev}", "serialize_to_json_utf8(f, wrapper)",
                                   "f.write(b'\\n')"]:
        bail("serialize_wrapper changed: %r" % [U(x) for x in sw.body])
    out.append("Definition line_written_after_encoding : bool := true.   (* nothing is written for an event whose encoding raises *)")

    # ---- publish.py
    pm = P.load("logging/publish.py")
    sc = P.find_class(pm, "Subscription")
    sconsts = P.module_consts(pm, body=sc.body, names=["MAX_QUEUE_SIZE", "MAX_IN_FLIGHT"])
    for k, v in sconsts.items():
        if not isinstance(v, int) or isinstance(v, bool):
            bail("Subscription.%s is not an integer literal" % k)
        out.append("Definition %s : Z := %d." % (k, v))
    send = P.find_def(pm, "Subscription.send")
    if len(send.body) != 2 or not isinstance(send.body[0], ast.If):
        bail("Subscription.send changed")
    l, op, r = cmp1(send.body[0].test, "Subscription.send")
    if (l, r) != ("len(self.queue)", "self.MAX_QUEUE_SIZE"):
        bail("Subscription.send compares %s with %s" % (l, r))
    if [U(x) for x in send.body[0].body] != ["self.queue.append(event)"]:
        bail("Subscription.send: accept branch changed")
    # `else: pass` and no else branch at all are the same statement: nothing is executed when the test is false
    if [U(x) for x in send.body[0].orelse] not in (["pass"], []):
        bail("Subscription.send: overflow branch no longer drops the new event")
    want_mark = "if not self.marked_for_sending:\n    self.marked_for_sending = True\n    eventually(self.start_sending)"
    if U(send.body[1]) != want_mark:
        bail("Subscription.send: scheduling of start_sending changed")
    out.append("Definition sub_accept_cmp : lcmp := %s.   (* len(queue) %s MAX_QUEUE_SIZE -> append, else drop the new event *)" % (op, op))
    ss = P.find_def(pm, "Subscription.start_sending")
    if len(ss.body) != 2 or U(ss.body[0]) != "self.marked_for_sending = False" or not isinstance(ss.body[1], ast.While):
        bail("start_sending changed")
    w = ss.body[1]
    t = w.test
    if not (isinstance(t, ast.BoolOp) and isinstance(t.op, ast.And) and len(t.values) == 2 and U(t.values[0]) == "self.queue"):
        bail("start_sending: loop condition changed: " + U(t))
    l, op, r = cmp1(t.values[1], "start_sending")
    if (l, r) != ("self.MAX_IN_FLIGHT - self.in_flight", "0"):
        bail("start_sending compares %s with %s" % (l, r))
    wb = [U(x) for x in w.body]
    if len(wb) != 5 or wb[1] != "self.in_flight += 1" or wb[2] != "d = self.observer.callRemote('msg', event)" \
            or wb[3] != "d.addCallback(self._event_received)" or wb[4] != "d.addErrback(self._error)":
        bail("start_sending: loop body changed: %r" % wb)
    if wb[0] == "event = self.queue.popleft()":
        pop = "PopLeft"
    elif wb[0] == "event = self.queue.pop()":
        pop = "PopRight"
    else:
        bail("start_sending takes events with " + wb[0])
    out.append("Definition sub_room_cmp : lcmp := %s.   (* MAX_IN_FLIGHT - in_flight %s 0 *)" % (op, op))
    out.append("Definition sub_pop : popside := %s." % pop)
    out.append("Definition sub_inflight_inc : Z := 1.")
    er = P.find_def(pm, "Subscription._event_received")
    erb = [U(x) for x in er.body]
    if erb != ["self.in_flight -= 1", want_mark]:
        bail("_event_received changed: %r" % erb)
    out.append("Definition sub_inflight_dec : Z := 1.")
    err = P.find_def(pm, "Subscription._error")
    if [U(x) for x in err.body] != ["self.unsubscribe()"]:
        bail("Subscription._error changed")
    sub = P.find_def(pm, "Subscription.subscribe")
    if "self.logger.addImmediateObserver(self.send)" not in U(sub):
        bail("Subscription.subscribe no longer registers send as an immediate observer")
    # catch-up: the buffered events, sorted by number, are handed to the observer directly (callRemoteOnly); the
    # bounded queue and the in-flight counter are not touched by subscribe()
    cu = [x for x in sub.body if isinstance(x, ast.If) and U(x.test) == "catch_up"]
    want_cu = ["events = list(self.logger.get_buffered_events())", None,
               "for e in events:\n    self.observer.callRemoteOnly('msg', e)"]
    if len(cu) != 1 or cu[0].orelse or len(cu[0].body) != 3 or U(cu[0].body[0]) != want_cu[0] or U(cu[0].body[2]) != want_cu[2]:
        bail("Subscription.subscribe: the catch-up batch is no longer sent directly with callRemoteOnly")
    out.append("Definition catchup_sort_key : numkey := %s.   (* Subscription.subscribe: events.sort(key=...) *)"
               % sort_key_form(cu[0].body[1], "Subscription.subscribe"))
    for n in ast.walk(sub):
        if isinstance(n, ast.Attribute) and isinstance(n.value, ast.Name) and n.value.id == "self" \
                and n.attr in ("queue", "in_flight", "marked_for_sending", "start_sending"):
            bail("Subscription.subscribe touches self.%s" % n.attr)
    out.append("Inductive catchup_path := CatchupDirect.")
    out.append("Definition catchup : catchup_path := CatchupDirect.   (* sorted(buffered) -> observer.callRemoteOnly, bypassing the queue *)")
    init = P.find_def(pm, "Subscription.__init__")
    for frag in ("self.queue = deque()", "self.in_flight = 0", "self.marked_for_sending = False"):
        if frag not in U(init):
            bail("Subscription.__init__ no longer contains " + frag)

    # ---- which name decides the compression of a written file
    out.append("Inductive name_used := FinalName | OpenedName.")

    def codec_choice(fn, what, names):
        """find `if X.endswith('.bz2'): f = bz2.BZ2File(Y, ..) else: f = open(Y, 'wb')` -> (X, Y)"""
        ifs = [x for x in ast.walk(fn) if isinstance(x, ast.If) and ".endswith('.bz2')" in U(x.test)]
        if len(ifs) != 1:
            bail("%s: expected exactly one `.endswith('.bz2')` test, found %d" % (what, len(ifs)))
        t = ifs[0]
        if not (isinstance(t.test, ast.Call) and isinstance(t.test.func, ast.Attribute) and t.test.func.attr == "endswith"
                and len(t.test.args) == 1 and U(t.test.args[0]) == "'.bz2'"):
            bail("%s: compression test changed: %s" % (what, U(t.test)))
        x = U(t.test.func.value)
        body = [b for b in t.body if not isinstance(b, ast.Import)]
        if len(body) != 1 or len(t.orelse) != 1 or not isinstance(body[0], ast.Assign) or not isinstance(t.orelse[0], ast.Assign):
            bail("%s: compression branches changed" % what)
        a, b = body[0].value, t.orelse[0].value
        if not (isinstance(a, ast.Call) and U(a.func) == "bz2.BZ2File" and isinstance(b, ast.Call) and U(b.func) == "open"
                and U(b.args[1]) == "'wb'" and U(a.args[1]) in ("'w'", "'wb'")):
            bail("%s: files are no longer opened with bz2.BZ2File(.., 'w') / open(.., 'wb')" % what)
        if U(a.args[0]) != U(b.args[0]) or U(body[0].targets[0]) != U(t.orelse[0].targets[0]):
            bail("%s: the two branches open different names" % what)
        if x not in names or U(a.args[0]) not in names:
            bail("%s: compression decided by %s, file opened as %s" % (what, x, U(a.args[0])))
        return x, U(a.args[0])
    lfo = P.find_def(mod, "LogFileObserver.__init__")
    x, y = codec_choice(lfo, "LogFileObserver.__init__", ["filename"])
    out.append("Definition logfile_codec_from : name_used := FinalName.   (* LogFileObserver: tested and opened name are both `filename` *)")
    flt = P.load("logging/filter.py")
    frun = P.find_def(flt, "Filter.run")
    x, y = codec_choice(frun, "Filter.run", ["options.newfile", "newfilename"])
    if y != "newfilename":
        bail("Filter.run opens %s" % y)
    src_f = U(frun)
    for frag in ("newfilename = options.newfile", "if options.newfile == options.oldfile:", "newfilename = newfilename + '.tmp'",
                 "move_into_place(newfilename, options.newfile)", "for e in flogfile.get_events(options.oldfile):",
                 "flogfile.serialize_raw_wrapper(newfile, e)", "newfile.close()", "newfile.write(flogfile.MAGIC)"):
        if frag not in src_f:
            bail("Filter.run no longer contains " + frag)
    out.append("Definition filter_codec_from : name_used := %s.   (* Filter.run: `%s.endswith('.bz2')` decides how `newfilename` is opened *)"
               % ("FinalName" if x == "options.newfile" else "OpenedName", x))
    # the selection of Filter.run: --above LEVEL drops `level < above`; --strip-facility drops a facility prefix
    ab = [n for n in ast.walk(frun) if isinstance(n, ast.If) and U(n.test).startswith("above is not None and")]
    if len(ab) != 1 or [U(b) for b in ab[0].body] != ["continue"]:
        bail("Filter.run: --above test changed")
    l, op, r = cmp1(ab[0].test.values[1], "Filter.run --above")
    if (l, r) != ("e['d']['level']", "above"):
        bail("Filter.run --above compares %s with %s" % (l, r))
    out.append("Definition filter_above_drop_cmp : lcmp := %s.   (* level %s above -> dropped *)" % (op, op))
    # --strip-facility PREFIX (27683fd): an event is dropped iff its facility is text and starts with the prefix
    #     if strip_facility is not None:
    #         facility = e['d'].get('facility', '')
    #         if isinstance(facility, str) and facility.startswith(strip_facility): continue
    # (the earlier form `e['d'].get('facility', '').startswith(..)` raised on facility=None / non-text: rejected)
    sf = [n for n in ast.walk(frun) if isinstance(n, ast.If) and U(n.test) == "strip_facility is not None"
          and not any(isinstance(x, ast.Expr) and "print" in U(x) for x in n.body)]
    if len(sf) != 1 or sf[0].orelse or len(sf[0].body) != 2:
        bail("Filter.run: --strip-facility test changed")
    s1, s2 = sf[0].body
    if U(s1) != "facility = e['d'].get('facility', '')" or not isinstance(s2, ast.If) or s2.orelse \
            or U(s2.test) != "isinstance(facility, str) and facility.startswith(strip_facility)" \
            or [U(b) for b in s2.body] != ["continue"]:
        bail("Filter.run: --strip-facility no longer drops exactly the events whose facility is text with that prefix")
    out.append("Definition filter_strip_text_only : bool := true.   (* non-text facilities (None, numbers, ..) are kept *)")
    ge = P.find_def(fm, "get_events")
    if "if fn.endswith('.bz2'):" not in U(ge) or "f = bz2.BZ2File(fn, 'r')" not in U(ge) or "f = open(fn, 'rb')" not in U(ge):
        bail("get_events no longer chooses the decompressor from the file name")
    return {"LogBufGen.v": "\n\n".join(out) + "\n"}
