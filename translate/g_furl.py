"""C20: the five FURL / connection-hint regular expressions, the base32 alphabet and the
shape facts of decode_furl / encode_furl / SturdyRef / convert_legacy_hint / get_endpoint,
translated from furl.py, base32.py, referenceable.py, connections/{tcp,tor,i2p}.py, connection.py.

The pattern strings are obtained by evaluating the module-level constant expressions
(string concatenation and %-formatting) with translate.pylite.const_expr; the final
pattern is parsed by Python's own `re._parser` and every node is turned into a
constructor of Verif.lib.Regex.re.  Any node kind that the Coq matcher does not model
raises Untranslatable (fail closed).

How the four small functions are read (decode_furl, encode_furl, convert_legacy_hint, DefaultTCP.hint_to_endpoint)
-----------------------------------------------------------------------------------------------------------------
They are not matched as text.  `Sym` executes the body symbolically (straight-line code, if/else, early return/raise,
tuple assignment, single-use or multi-use locals) into a decision tree
    do(effect, tree) | if(condition, tree, tree) | raise(exception class) | return(expression)
and the tree must UNIFY with the tree obtained in the same way from the reference text of the function kept below
(REFERENCE), whose holes K_... bind the constants that the Coq model takes from the source (the 32-character cut, the
separators, the prefix).  Two bodies with the same tree compute the same function, because the executor only does
the following, each valid for ALL inputs:
  * locals are substituted by the expression they were assigned (any number of uses, any names): sound because only
    PURE, TOTAL expressions are substituted -- operations on values whose type is fixed by the expression that built
    them, not by the caller: slicing / split / lstrip / rstrip / %-formatting / comparison / membership on the str
    results of six.ensure_str, of Match.group on a str subject and of str methods; base32.is_base32 on a str;
    PATTERN.search/match on a str; Match.group(i) / Match.groups() on a path where the match is known to exist.
    Every other call (six.ensure_str, int(), PATTERN.search on a parameter of unknown type, the list comprehension
    over a parameter, an endpoint constructor) is an EFFECT: it is kept as a do-node, in program order, on its path,
    so nothing that can raise or observe is reordered, duplicated or dropped.
  * `if X: A else: B ; rest`  ==  `if X: A; rest  else: B; rest` (continuation duplicated into both branches); this
    makes if/else, guard-with-early-raise and guard-with-early-return the same tree.
  * a test on a value m = PATTERN.search(..)/match(..) of a module-level re.compile pattern: `if m`, `if not m`,
    `m is None`, `m is not None` all become the condition matched(m) (branches swapped for the negative forms).
    Argument: Pattern.search/match return None or an re.Match; re.Match defines neither __bool__ nor __len__, so it
    is always true.  The type comes from the defining expression, whatever the function's arguments are.
  * `a, b, c = m.groups()` == `a = m.group(1); b = m.group(2); c = m.group(3)` when the pattern has exactly that many
    groups (known from the parsed pattern): both give the group's text or None, and both are pure.
  * a call h(a1..an) of a plain function h of the same module (defined once at module level, never rebound, imported
    over or declared global anywhere, no decorators / defaults / star-args) whose body is assignments followed by one
    return is replaced by that body with the parameters bound to the argument VALUES (beta-reduction: the arguments
    were already evaluated left to right, their effects recorded; the body's effects follow in order).
  * the message argument of a raised exception is evaluated (so effects in it would be kept) but not compared.
Not accepted (fails closed as before): loops, try, with, augmented assignment, attribute stores, calls the executor
does not know, a decorated function, delegation to a helper that normalize.py cannot inline."""
import ast, sys
from translate import pylite as P

try:
    import re._parser as sre_parse
    import re._constants as sre_c
except ImportError:                                   # Python < 3.11
    import sre_parse
    import sre_constants as sre_c

PROPERTIES = ["C20"]
OUTPUTS = ["FurlGen.v"]

UNI_MAX = 0x10FFFF


def U(msg):
    raise P.Untranslatable(msg)


# ---------------------------------------------------------------- runtime tables

def digit_blocks():
    """code points matched by \\d in a str pattern (str.isdecimal), as blocks of ten
    consecutive code points zero..nine (checked), so that int() of a digit is c - zero."""
    import unicodedata
    zeros = set()
    for c in range(UNI_MAX + 1):
        ch = chr(c)
        if ch.isdecimal():
            zeros.add(c - unicodedata.decimal(ch))
    zeros = sorted(zeros)
    for z in zeros:
        for d in range(10):
            ch = chr(z + d)
            if not ch.isdecimal() or unicodedata.decimal(ch) != d or int(ch) != d:
                U("unicode decimal digits are not organised in blocks of ten at U+%04X" % z)
    import re
    pat = re.compile(r"\d")
    n = sum(1 for c in range(UNI_MAX + 1) if pat.fullmatch(chr(c)))
    if n != 10 * len(zeros):
        U("re's \\d and str.isdecimal disagree")
    return zeros


def lower_table(alphabet):
    """code points whose str.lower() differs from themselves *and* consists only of
    characters of the alphabet (all others cannot become members by lowering)."""
    out = []
    for c in range(UNI_MAX + 1):
        ch = chr(c)
        lo = ch.lower()
        if lo != ch and all(x in alphabet for x in lo):
            out.append((c, [ord(x) for x in lo]))
    return out


# ---------------------------------------------------------------- regex -> Coq

class Rx:
    def __init__(self, digit_zeros):
        self.zeros = digit_zeros
        self.ngroups = 0

    def cset_items(self, items):
        """items of an IN node -> (neg, [range text])"""
        neg = False
        parts = []
        for op, av in items:
            if op is sre_c.NEGATE:
                neg = True
            elif op is sre_c.LITERAL:
                parts.append("[(%d, %d)]" % (av, av))
            elif op is sre_c.RANGE:
                parts.append("[(%d, %d)]" % (av[0], av[1]))
            elif op is sre_c.CATEGORY and av is sre_c.CATEGORY_DIGIT:
                parts.append("digit_ranges")
            else:
                U("character class item not modelled: %s %s" % (op, av))
        # merge adjacent literal lists for readability
        txt = " ++ ".join(parts) if parts else "[]"
        return neg, txt

    def cset(self, node):
        op, av = node
        if op is sre_c.LITERAL:
            return "(CS false [(%d, %d)])" % (av, av)
        if op is sre_c.NOT_LITERAL:
            return "(CS true [(%d, %d)])" % (av, av)
        if op is sre_c.ANY:
            return "(CS true [(10, 10)])"          # no DOTALL: everything but newline
        if op is sre_c.IN:
            neg, txt = self.cset_items(av)
            return "(CS %s (%s))" % ("true" if neg else "false", txt)
        return None

    def nullable(self, seq):
        for op, av in seq:
            if op in (sre_c.LITERAL, sre_c.NOT_LITERAL, sre_c.ANY, sre_c.IN):
                return False
            if op is sre_c.MAX_REPEAT:
                if av[0] > 0 and not self.nullable(av[2]):
                    return False
            elif op is sre_c.SUBPATTERN:
                if not self.nullable(av[3]):
                    return False
            elif op is sre_c.BRANCH:
                if all(not self.nullable(b) for b in av[1]):
                    return False
            elif op is sre_c.AT:
                pass
            else:
                U("node kind not modelled: %s" % (op,))
        return True

    def seq(self, nodes):
        parts = [self.node(n) for n in nodes]
        if not parts:
            return "Eps"
        out = parts[-1]
        for p in reversed(parts[:-1]):
            out = "(Cat %s %s)" % (p, out)
        return out

    def node(self, n):
        op, av = n
        cs = self.cset(n)
        if cs is not None:
            return "(Chr %s)" % cs
        if op is sre_c.MAX_REPEAT:
            lo, hi, body = av
            unbounded = hi is sre_c.MAXREPEAT
            if lo > 1000 or (not unbounded and hi > 1000):
                U("repeat bound too large to model as nat: {%s,%s}" % (lo, hi))
            body = list(body)
            if len(body) == 1 and self.cset(body[0]) is not None:
                return "(Star %s %d%%nat %s)" % (self.cset(body[0]), lo, "None" if unbounded else "(Some %d%%nat)" % hi)
            if unbounded:
                U("unbounded repeat of a multi-character body is not modelled")
            if self.nullable(body):
                U("repeat of a body that can match the empty string is not modelled")
            return "(Rep %s %d%%nat %d%%nat)" % (self.seq(body), lo, hi)
        if op is sre_c.MIN_REPEAT or op is getattr(sre_c, "POSSESSIVE_REPEAT", object()):
            U("lazy / possessive repeats are not modelled")
        if op is sre_c.BRANCH:
            _, branches = av
            parts = [self.seq(list(b)) for b in branches]
            out = parts[-1]
            for p in reversed(parts[:-1]):
                out = "(Alt %s %s)" % (p, out)
            return out
        if op is sre_c.SUBPATTERN:
            group, add_flags, del_flags, body = av
            if add_flags or del_flags:
                U("inline flags are not modelled")
            if group is None:
                return self.seq(list(body))
            self.ngroups = max(self.ngroups, group)
            return "(Grp %d%%nat %s)" % (group, self.seq(list(body)))
        if op is sre_c.AT and av is sre_c.AT_END:
            return "Eol"
        U("regex node kind not modelled: %s %s" % (op, av))

    def pattern(self, text):
        """-> (anchored, body text, ngroups)"""
        try:
            tree = sre_parse.parse(text, 0)
        except Exception as e:
            U("pattern does not parse: %r: %s" % (text, e))
        if tree.state.flags & ~sre_c.SRE_FLAG_UNICODE:
            U("pattern sets flags: %r" % text)
        nodes = list(tree)
        anchored = False
        if nodes and nodes[0] == (sre_c.AT, sre_c.AT_BEGINNING):
            anchored = True
            nodes = nodes[1:]
        self.ngroups = 0
        body = self.seq(nodes)
        if tree.state.groups - 1 != self.ngroups:
            U("group count mismatch in %r" % text)
        return anchored, body, self.ngroups

    def mandatory(self, nodes):
        """groups that take part in EVERY match (not under an alternative or a repeat that may be skipped)"""
        out = set()
        for op, av in nodes:
            if op is sre_c.SUBPATTERN:
                if av[0] is not None:
                    out.add(av[0])
                out |= self.mandatory(list(av[3]))
            elif op is sre_c.MAX_REPEAT and av[0] >= 1:
                out |= self.mandatory(list(av[2]))
        return out


def compiled_pattern(mod, env, name):
    """NAME = re.compile(<const string expr>) at module level -> the pattern string"""
    found = [st for st in mod.body if isinstance(st, ast.Assign) and len(st.targets) == 1
             and isinstance(st.targets[0], ast.Name) and st.targets[0].id == name]
    if len(found) != 1:
        U("expected exactly one module-level assignment of %s" % name)
    v = found[0].value
    if not (isinstance(v, ast.Call) and ast.unparse(v.func) == "re.compile"):
        U("%s is not re.compile(...)" % name)
    if len(v.args) != 1 or v.keywords:
        U("%s: re.compile is called with flags" % name)
    s = P.const_expr(v.args[0], env)
    if not isinstance(s, str):
        U("%s: pattern is not a str" % name)
    return s


def uses(fn, rename):
    """the single `<rename>.<method>(x)` call in function fn -> method name"""
    cs = [x for x in ast.walk(fn) if isinstance(x, ast.Call) and isinstance(x.func, ast.Attribute)
          and isinstance(x.func.value, ast.Name) and x.func.value.id == rename]
    if len(cs) != 1 or len(cs[0].args) != 1 or cs[0].keywords:
        U("expected exactly one call %s.<method>(x) in %s" % (rename, fn.name))
    meth = cs[0].func.attr
    if meth not in ("search", "match"):
        U("%s.%s is not modelled" % (rename, meth))
    return {"search": "MSearch", "match": "MMatch"}[meth]


def need(fn, frags, where):
    norm = lambda t: "".join(t.replace("(", " ").replace(")", " ").replace('"', "'").split())
    src = norm(ast.unparse(fn))                       # layout, quoting and redundant parentheses ignored
    for f in frags:
        if norm(f) not in src:
            U("%s no longer contains: %s" % (where, f))


# ---------------------------------------------------------------- symbolic execution of the small functions

class Sym:
    """see the module docstring.  Expressions are nested tuples; kinds: 'str', 'optmatch', 'liststr', 'int', 'bool',
    'tuple', 'obj', 'param' (unknown type), 'none'."""

    def __init__(self, fname, patterns, holes=False, module=None):
        self.fname = fname
        self.patterns = patterns          # pattern name -> (number of groups, groups that take part in every match)
        self.holes = holes
        self.module = module              # for calls to straight-line helper functions of the same module

    def helper(self, name):
        """a plain module-level function `name` (defined once, never rebound, no decorators / defaults / star-args)"""
        if self.module is None:
            return None
        defs = [st for st in self.module.body if isinstance(st, (ast.FunctionDef, ast.AsyncFunctionDef, ast.ClassDef)) and st.name == name]
        rebound = [n for n in ast.walk(self.module) if isinstance(n, ast.Name) and n.id == name and isinstance(n.ctx, (ast.Store, ast.Del))]
        rebound += [n for n in ast.walk(self.module) if isinstance(n, (ast.Global, ast.Nonlocal)) and name in n.names]
        rebound += [n for n in ast.walk(self.module) if isinstance(n, (ast.Import, ast.ImportFrom))
                    and any((a.asname or a.name.split(".")[0]) == name for a in n.names)]
        if len(defs) != 1 or rebound or not isinstance(defs[0], ast.FunctionDef):
            return None
        d = defs[0]
        if d.decorator_list or d.args.vararg or d.args.kwarg or d.args.kwonlyargs or d.args.defaults or d.args.posonlyargs:
            return None
        return d

    def inline(self, d, args, env, eff, facts, depth=0):
        """value of helper d applied to already evaluated arguments: its body must be assignments followed by one
        return (beta-reduction: the arguments were evaluated first, left to right, as Python does; the body's
        effects follow, in order, on the caller's path)"""
        if len(args) != len(d.args.args) or depth > 3:
            self.bail(d.name, "helper arity / nesting")
        henv = {a.arg: v for a, v in zip(d.args.args, args)}
        for k2 in list(env):
            if k2.startswith("__"):
                henv[k2] = env[k2]
        result = None
        body = [st for st in d.body if not (isinstance(st, ast.Expr) and isinstance(st.value, ast.Constant))]
        for i, st in enumerate(body):
            if isinstance(st, ast.Assign) and len(st.targets) == 1 and i < len(body) - 1:
                k, t = self.ev(st.value, henv, eff, facts)
                tgt = st.targets[0]
                if isinstance(tgt, ast.Name):
                    henv[tgt.id] = (k, t)
                elif isinstance(tgt, ast.Tuple) and all(isinstance(x, ast.Name) for x in tgt.elts) and k == "tuple" \
                        and len(t[1]) == len(tgt.elts):
                    for x, item in zip(tgt.elts, t[1]):
                        henv[x.id] = item
                else:
                    self.bail(st, "assignment target in helper")
            elif isinstance(st, ast.Return) and st.value is not None and i == len(body) - 1:
                result = self.ev(st.value, henv, eff, facts)
            else:
                self.bail(st, "helper %s is not assignments followed by one return" % d.name)
        for k2 in henv:
            if k2.startswith("__"):
                env[k2] = henv[k2]
        if result is None:
            self.bail(d.name, "helper without return")
        return result

    def bail(self, node, why):
        U("%s: %s: %s" % (self.fname, why, ast.unparse(node) if isinstance(node, ast.AST) else node))

    def fresh(self, eff, text, env):
        env["__n"] = env.get("__n", 0) + 1                    # path-local numbering (env is copied at every branch)
        sym = ("eff%d" % env["__n"],)
        eff.append((sym[0],) + text)
        if text[0] == "apply":
            env["__pat:" + sym[0]] = text[1]
        return sym

    # -- expressions: -> (kind, term); effects appended to `eff` in evaluation order
    def ev(self, e, env, eff, facts):
        if isinstance(e, ast.Constant):
            v = e.value
            if isinstance(v, str):
                return "str", ("lit", v)
            if isinstance(v, bool) or v is None:
                return ("none" if v is None else "bool"), ("lit", v)
            if isinstance(v, int):
                return "int", ("lit", v)
            self.bail(e, "constant")
        if isinstance(e, ast.Name):
            if e.id in env:
                return env[e.id]
            if self.holes and e.id.startswith("K_"):
                return "hole", ("hole", e.id)
            if e.id == "reactor":
                return "obj", ("global", "reactor")
            self.bail(e, "unbound name")
        if isinstance(e, ast.Tuple):
            items = [self.ev(x, env, eff, facts) for x in e.elts]
            return "tuple", ("tuple", items)
        if isinstance(e, ast.List) and not e.elts:
            return "liststr", ("emptylist",)
        if isinstance(e, ast.List) and all(isinstance(x, ast.Constant) and isinstance(x.value, str) for x in e.elts):
            return "liststr", ("listlit", tuple(x.value for x in e.elts))
        if isinstance(e, ast.Subscript) and isinstance(e.slice, ast.Slice) and e.slice.lower is None and e.slice.step is None \
                and e.slice.upper is not None:
            k, t = self.ev(e.value, env, eff, facts)
            ku, tu = self.ev(e.slice.upper, env, eff, facts)
            if k != "str" or ku not in ("int", "hole") or (ku == "int" and (tu[0] != "lit" or tu[1] < 0)):
                self.bail(e, "slice of a non-str / by a non-literal")
            return "str", ("prefix", t, tu)
        if isinstance(e, ast.BinOp) and isinstance(e.op, ast.Add):
            kl, tl = self.ev(e.left, env, eff, facts)
            kr, tr = self.ev(e.right, env, eff, facts)
            if kl not in ("str", "hole") or kr not in ("str", "hole"):
                self.bail(e, "+ on non-str")
            flat = (list(tl[1]) if tl[0] == "concat" else [tl]) + (list(tr[1]) if tr[0] == "concat" else [tr])
            return "str", ("concat", tuple(flat))
        if isinstance(e, ast.BinOp) and isinstance(e.op, ast.Mod):
            kl, tl = self.ev(e.left, env, eff, facts)
            kr, tr = self.ev(e.right, env, eff, facts)
            if kl != "str" or tl[0] != "lit":
                self.bail(e, "% with a non-literal format")
            args = tr[1] if kr == "tuple" else [(kr, tr)]
            if any(k not in ("str", "int") for k, _ in args):
                self.bail(e, "%-formatting of a value that is not a str / int")
            return "str", ("format", tl[1], tuple(t for _, t in args))
        if isinstance(e, ast.ListComp):
            if ast.unparse(e.elt) == "six.ensure_str(%s)" % ast.unparse(e.generators[0].target) and len(e.generators) == 1 \
                    and not e.generators[0].ifs and isinstance(e.generators[0].target, ast.Name):
                k, t = self.ev(e.generators[0].iter, env, eff, facts)
                return "liststr", self.fresh(eff, ("map-ensure_str", t), env)
            self.bail(e, "list comprehension")
        if isinstance(e, ast.Call):
            return self.call(e, env, eff, facts)
        self.bail(e, "expression")

    def call(self, e, env, eff, facts):
        if e.keywords:
            self.bail(e, "keyword arguments")
        f = e.func
        fu = ast.unparse(f)
        on_pattern = isinstance(f, ast.Attribute) and isinstance(f.value, ast.Name) and f.value.id in self.patterns \
            and f.value.id not in env
        on_literal = isinstance(f, ast.Attribute) and (
            (isinstance(f.value, ast.Constant) and isinstance(f.value.value, str))
            or (self.holes and isinstance(f.value, ast.Name) and f.value.id.startswith("K_")))
        if fu in ("six.ensure_str", "int", "base32.is_base32", "HostnameEndpoint") or on_pattern or on_literal:
            args = [self.ev(a, env, eff, facts) for a in e.args]
            if fu == "six.ensure_str" and len(args) == 1:
                return "str", self.fresh(eff, ("ensure_str", args[0][1]), env)
            if fu == "int" and len(args) == 1 and args[0][0] in ("str", "optstr"):
                return "int", self.fresh(eff, ("int", args[0][1]), env)
            if fu == "base32.is_base32" and len(args) == 1 and args[0][0] == "str":
                return "bool", ("is_base32", args[0][1])
            if fu == "HostnameEndpoint":
                return "obj", self.fresh(eff, ("HostnameEndpoint", tuple(t for _, t in args)), env)
            if on_pattern and f.attr in ("search", "match") and len(args) == 1:
                term = ("apply", f.value.id, f.attr, args[0][1])
                if args[0][0] == "str":
                    return "optmatch", term
                return "optmatch", self.fresh(eff, term, env)          # argument of unknown type: may raise
            if on_literal and f.attr == "join" and len(args) == 1 and args[0][0] == "liststr":
                sep = ("lit", f.value.value) if isinstance(f.value, ast.Constant) else ("hole", f.value.id)
                return "str", ("join", sep, args[0][1])
            self.bail(e, "call")
        if isinstance(f, ast.Name) and f.id not in env and self.helper(f.id) is not None:
            args = [self.ev(a, env, eff, facts) for a in e.args]
            return self.inline(self.helper(f.id), args, env, eff, facts)
        if isinstance(f, ast.Attribute):
            ko, to = self.ev(f.value, env, eff, facts)                 # Python evaluates the object, then the arguments
            args = [self.ev(a, env, eff, facts) for a in e.args]
            if ko == "optmatch":
                if ("matched", to) not in facts:
                    self.bail(e, "method of a match object on a path where the match is not known to exist")
                pat = to[1] if to[0] == "apply" else env.get("__pat:" + to[0])
                ng, mandatory = self.patterns[pat]
                if f.attr == "group" and len(args) == 1 and args[0][1][0] == "lit" and isinstance(args[0][1][1], int) \
                        and 0 < args[0][1][1] <= ng:
                    i = args[0][1][1]
                    return ("str" if i in mandatory else "optstr"), ("group", to, i)
                if f.attr == "groups" and not args:
                    return "tuple", ("tuple", [(("str" if i in mandatory else "optstr"), ("group", to, i)) for i in range(1, ng + 1)])
                self.bail(e, "match method")
            if ko == "str" and f.attr == "split" and len(args) == 1 and args[0][1][0] in ("lit", "hole") \
                    and (args[0][1][0] == "hole" or isinstance(args[0][1][1], str)):
                return "liststr", ("split", to, args[0][1])
            if ko == "str" and f.attr in ("lstrip", "rstrip") and len(args) == 1 and args[0][0] == "str" and args[0][1][0] == "lit":
                return "str", (f.attr, to, args[0][1])
        self.bail(e, "call")

    # -- conditions: -> (positive condition term, polarity)
    def cond(self, e, env, eff, facts):
        if isinstance(e, ast.UnaryOp) and isinstance(e.op, ast.Not):
            c, pol = self.cond(e.operand, env, eff, facts)
            return c, not pol
        if isinstance(e, ast.Compare) and len(e.ops) == 1:
            op = e.ops[0]
            kl, tl = self.ev(e.left, env, eff, facts)
            kr, tr = self.ev(e.comparators[0], env, eff, facts)
            if isinstance(op, (ast.Is, ast.IsNot)) and kl == "optmatch" and kr == "none":
                return ("matched", tl), isinstance(op, ast.IsNot)
            if isinstance(op, (ast.Eq, ast.NotEq)) and kl == "liststr" and kr == "liststr":
                return ("eq", tl, tr), isinstance(op, ast.Eq)
            if isinstance(op, (ast.In, ast.NotIn)) and kl == "str" and kr == "liststr":
                return ("in", tl, tr), isinstance(op, ast.In)
            self.bail(e, "comparison")
        k, t = self.ev(e, env, eff, facts)
        if k == "optmatch":
            return ("matched", t), True
        if k == "bool":
            return t, True
        self.bail(e, "truth value of a %s" % k)

    # -- statements
    def block(self, stmts, env, facts):
        if not stmts:
            return ("return", ("lit", None))
        st, rest = stmts[0], stmts[1:]
        eff = []

        def wrap(tree):
            for x in reversed(eff):
                tree = ("do", x, tree)
            return tree
        if isinstance(st, ast.Expr) and isinstance(st.value, ast.Constant) and isinstance(st.value.value, str):
            return self.block(rest, env, facts)
        if isinstance(st, ast.Pass):
            return self.block(rest, env, facts)
        if isinstance(st, ast.Assign) and len(st.targets) == 1:
            k, t = self.ev(st.value, env, eff, facts)
            env2 = dict(env)
            tgt = st.targets[0]
            if isinstance(tgt, ast.Name):
                env2[tgt.id] = (k, t)
            elif isinstance(tgt, ast.Tuple) and all(isinstance(x, ast.Name) for x in tgt.elts) and k == "tuple" \
                    and len(t[1]) == len(tgt.elts):
                for x, item in zip(tgt.elts, t[1]):
                    env2[x.id] = item
            else:
                self.bail(st, "assignment target")
            return wrap(self.block(rest, env2, facts))
        if isinstance(st, ast.If):
            c, pol = self.cond(st.test, env, eff, facts)
            yes, no = (st.body, st.orelse) if pol else (st.orelse, st.body)
            return wrap(("if", c, self.block(list(yes) + rest, dict(env), facts | {c}),
                         self.block(list(no) + rest, dict(env), facts)))
        if isinstance(st, ast.Return):
            if st.value is None:
                return ("return", ("lit", None))
            k, t = self.ev(st.value, env, eff, facts)
            return wrap(("return", self.strip(t)))
        if isinstance(st, ast.Raise) and st.exc is not None:
            exc = st.exc
            if isinstance(exc, ast.Call):
                for a in exc.args:
                    self.ev(a, env, eff, facts)
                exc = exc.func
            return wrap(("raise", ast.unparse(exc)))
        self.bail(st, "statement")

    def strip(self, t):
        """drop the kind tags of tuple items"""
        if isinstance(t, tuple) and t and t[0] == "tuple":
            return ("tuple", tuple(self.strip(x[1]) for x in t[1]))
        return t

    def run(self, fdef):
        if fdef.decorator_list or fdef.args.vararg or fdef.args.kwarg or fdef.args.kwonlyargs or fdef.args.defaults:
            self.bail(fdef.name, "decorated / star-args / defaults")
        env = {a.arg: ("param", ("param", i)) for i, a in enumerate(x for x in fdef.args.args if x.arg != "self")}
        return self.block(list(fdef.body), env, frozenset())


def unify(ref, cur, binds, where):
    """ref may contain ('hole', name): it matches a literal and binds it (consistently)"""
    if isinstance(ref, tuple) and len(ref) == 2 and ref[0] == "hole":
        if not (isinstance(cur, tuple) and len(cur) == 2 and cur[0] == "lit"):
            U("%s: a literal was expected for %s, found %r" % (where, ref[1], cur))
        if binds.setdefault(ref[1], cur[1]) != cur[1]:
            U("%s: %s is used with two different values" % (where, ref[1]))
        return
    if isinstance(ref, (tuple, list)) and isinstance(cur, (tuple, list)) and len(ref) == len(cur):
        for a, b in zip(ref, cur):
            unify(a, b, binds, where)
        return
    if ref != cur:
        U("%s no longer computes what the model assumes: expected %r, found %r" % (where, ref, cur))


REFERENCE = {
    "decode_furl": '''
def decode_furl(furl):
    furl = six.ensure_str(furl)
    mo_auth_furl = AUTH_STURDYREF_RE.METHOD(furl)
    if mo_auth_furl:
        tubID_s = mo_auth_furl.group(1)
        tubID = tubID_s[:K_TUBID_CUT]
        if not base32.is_base32(tubID):
            raise BadFURLError("x")
        hints = mo_auth_furl.group(2)
        location_hints = hints.split(K_HINT_SEP)
        if location_hints == [""]:
            location_hints = []
        if "" in location_hints:
            raise BadFURLError("x")
        name = mo_auth_furl.group(3)
    else:
        raise ValueError("x")
    return (tubID, location_hints, name)
''',
    "encode_furl": '''
def encode_furl(tubID, location_hints, name):
    location_hints_s = K_ENC_SEP.join([six.ensure_str(hint) for hint in location_hints])
    return K_ENC_PREFIX + six.ensure_str(tubID) + K_ENC_AT + location_hints_s + K_ENC_SLASH + six.ensure_str(name)
''',
    "convert_legacy_hint": '''
def convert_legacy_hint(location):
    mo = OLD_STYLE_HINT_RE.METHOD(location)
    if mo:
        host, port = mo.group(1), int(mo.group(2))
        return "tcp:%s:%d" % (host, port)
    return location
''',
    "DefaultTCP.hint_to_endpoint": '''
def hint_to_endpoint(self, hint, reactor, update_status):
    mo = NEW_STYLE_HINT_RE.METHOD(hint)
    if not mo:
        raise InvalidHintError("unrecognized TCP hint")
    host, port = mo.group(1), int(mo.group(2))
    host = host.lstrip("[").rstrip("]")
    return HostnameEndpoint(reactor, host, port), host
''',
}


def same_function(fdef, key, method, patterns, where, module=None):
    """the body of fdef computes what REFERENCE[key] computes; -> the literals bound to the K_ holes"""
    ref_src = REFERENCE[key].replace("METHOD", method)
    ref = Sym("reference " + key, patterns, holes=True).run(ast.parse(ref_src).body[0])
    cur = Sym(where, patterns, module=module).run(fdef)
    binds = {}
    unify(ref, cur, binds, where)
    return binds


def codes(s):
    return "[" + "; ".join(str(ord(c)) for c in s) + "]"


def generate():
    out = ["(* GENERATED by /verif/translate/g_furl.py from furl.py, base32.py, referenceable.py, "
           "connections/tcp.py, connections/tor.py, connections/i2p.py, connection.py -- do not edit *)\n"
           "From Coq Require Import ZArith List String Bool.\nImport ListNotations.\n"
           "Require Import Verif.lib.Regex.\nLocal Open Scope Z_scope.\n"]
    zeros = digit_blocks()
    out.append("(* runtime fact (unicodedata of the interpreter): \\d = str.isdecimal, %d blocks of ten *)" % len(zeros))
    out.append("Definition digit_zeros : list Z := [%s]." % "; ".join(str(z) for z in zeros))
    out.append("Definition digit_ranges : list (Z * Z) := map (fun z => (z, z + 9)) digit_zeros.")
    out.append("Definition INT_MAX_STR_DIGITS : Z := %d." % (sys.get_int_max_str_digits() if hasattr(sys, "get_int_max_str_digits") else 0))

    rx = Rx(zeros)

    def emit_pattern(cname, text, meth):
        anchored, body, ng = rx.pattern(text)
        shown = repr(text).replace("*)", "* )").replace("(*", "( *").replace('"', "''")
        out.append("(* %s = %s *)" % (cname, shown))
        out.append("Definition %s : pattern := {| p_anch := %s; p_body := %s; p_groups := %d%%nat |}."
                   % (cname, "true" if anchored else "false", body, ng))
        out.append("Definition %s_method : method := %s." % (cname, meth))
        return ng, rx.mandatory(list(sre_parse.parse(text, 0)))

    # ---- furl.py
    fm = P.load("furl.py")
    fenv = P.module_consts(fm)
    dec = P.find_def(fm, "decode_furl")
    for fname in ("decode_furl", "encode_furl"):
        if P.find_def(fm, fname).decorator_list:
            U("furl.%s is decorated (cached / wrapped): its body is no longer what runs" % fname)
    meth = uses(dec, "AUTH_STURDYREF_RE")
    pats = {"AUTH_STURDYREF_RE": emit_pattern("AUTH_STURDYREF_RE", compiled_pattern(fm, fenv, "AUTH_STURDYREF_RE"), meth)}
    pymeth = {"MSearch": "search", "MMatch": "match"}
    # decode_furl / encode_furl compute what the model assumes (symbolic execution, see the module docstring)
    k = same_function(dec, "decode_furl", pymeth[meth], pats, "decode_furl", fm)
    if not isinstance(k.get("K_TUBID_CUT"), int) or isinstance(k["K_TUBID_CUT"], bool) or k["K_TUBID_CUT"] < 0:
        U("decode_furl: the tub id cut is not a non-negative integer literal")
    if not isinstance(k.get("K_HINT_SEP"), str) or len(k["K_HINT_SEP"]) != 1:
        U("decode_furl: hints are not split at a one-character string")
    out.append("Definition TUBID_CUT : nat := %d%%nat." % k["K_TUBID_CUT"])
    out.append("Definition HINT_SEP : Z := %d." % ord(k["K_HINT_SEP"]))
    enc = P.find_def(fm, "encode_furl")
    k = same_function(enc, "encode_furl", "search", pats, "encode_furl", fm)
    if not isinstance(k.get("K_ENC_SEP"), str) or len(k["K_ENC_SEP"]) != 1:
        U("encode_furl: hints are not joined by a one-character string")
    for name in ("K_ENC_PREFIX", "K_ENC_AT", "K_ENC_SLASH"):
        if not isinstance(k.get(name), str):
            U("encode_furl: %s is not a string literal" % name)
    out.append("Definition ENC_SEP : Z := %d." % ord(k["K_ENC_SEP"]))
    out.append("Definition ENC_PREFIX : list Z := %s." % codes(k["K_ENC_PREFIX"]))
    out.append("Definition ENC_AT : list Z := %s." % codes(k["K_ENC_AT"]))
    out.append("Definition ENC_SLASH : list Z := %s." % codes(k["K_ENC_SLASH"]))

    # ---- base32.py
    bm = P.load("base32.py")
    benv = P.module_consts(bm, ["BASE32_ALPHABET"])
    alpha = benv["BASE32_ALPHABET"]
    if not isinstance(alpha, str):
        U("BASE32_ALPHABET is not a str")
    isb = P.find_def(bm, "is_base32")
    need(isb, ["for c in s.lower():\n        if c not in BASE32_ALPHABET:\n            return False\n    return True"], "is_base32")
    out.append("Definition BASE32_ALPHABET : list Z := %s." % codes(alpha))
    lt = lower_table(alpha)
    out.append("(* runtime fact: code points whose str.lower() differs from themselves and lies inside the alphabet *)")
    out.append("Definition py_lower_table : list (Z * list Z) := [%s]." %
               "; ".join("(%d, [%s])" % (c, "; ".join(map(str, lo))) for c, lo in lt))

    # ---- referenceable.py: identity of SturdyRef / TubRef
    rm = P.load("referenceable.py")
    out.append("Inductive idfield := FTubID | FName | FHints | FUrl.")
    fieldname = {"self.tubID": "FTubID", "self.name": "FName", "self.locationHints": "FHints", "self.url": "FUrl"}
    for cls, cname in (("SturdyRef", "sturdyref_distinguishers"), ("TubRef", "tubref_distinguishers")):
        d = P.find_def(rm, cls + "._distinguishers")
        rets = [n for n in ast.walk(d) if isinstance(n, ast.Return)]
        if len(rets) != 1 or not isinstance(rets[0].value, ast.Tuple):
            U("%s._distinguishers no longer returns a tuple" % cls)
        fields = []
        for e in rets[0].value.elts:
            if isinstance(e, ast.Constant):
                continue                      # the constant tag `True`
            t = ast.unparse(e)
            if t not in fieldname:
                U("%s._distinguishers uses %s" % (cls, t))
            fields.append(fieldname[t])
        out.append("Definition %s : list idfield := [%s]." % (cname, "; ".join(fields)))
        need(P.find_def(rm, cls + ".__eq__"), ["type(self) is type(them) and self.__class__ == them.__class__ and "
                                               "(self._distinguishers() == them._distinguishers())"], cls + ".__eq__")
        need(P.find_def(rm, cls + ".__hash__"), ["return hash(self._distinguishers())"], cls + ".__hash__")
        need(P.find_def(rm, cls + ".__ne__"), ["return not self == them"], cls + ".__ne__")
        need(P.find_def(rm, cls + ".__lt__"), ["return self._distinguishers() < them._distinguishers()"], cls + ".__lt__")
    # the copy path (a SturdyRef that ARRIVES): only the four attributes of the model's record are taken from the state
    scs = P.find_def(rm, "SturdyRef.setCopyableState")
    loops = [n for n in scs.body if isinstance(n, ast.For)]
    if len(loops) != 1 or len([n for n in scs.body if not (isinstance(n, ast.Expr) and isinstance(n.value, ast.Constant))]) != 1 \
            or scs.decorator_list:
        U("SturdyRef.setCopyableState is no longer a single loop over the accepted attribute names")
    try:
        accepted = P.const_expr(loops[0].iter)
    except P.Untranslatable:
        U("SturdyRef.setCopyableState: the accepted attribute names are not a literal tuple")
    if " ".join(ast.unparse(loops[0]).split()) != " ".join(
            ("for k in %s:\n    if k in state:\n        setattr(self, k, state[k])" % ast.unparse(loops[0].iter)).split()):
        U("SturdyRef.setCopyableState no longer copies exactly the accepted attributes")
    attr_field = {"url": "FUrl", "tubID": "FTubID", "locationHints": "FHints", "name": "FName"}
    if sorted(accepted) != sorted(attr_field):
        U("SturdyRef.setCopyableState accepts %r; the model's record has url, tubID, locationHints, name" % (accepted,))
    out.append("Definition sturdyref_copied_fields : list idfield := [%s]." % "; ".join(attr_field[a] for a in accepted))
    need(P.find_def(rm, "SturdyRef.__init__"), ["self.tubID, self.locationHints, self.name = decode_furl(url)"],
         "SturdyRef.__init__")

    # ---- connections/tcp.py
    tm = P.load("connections/tcp.py")
    tenv = P.module_consts(tm)
    clh = P.find_def(tm, "convert_legacy_hint")
    meth = uses(clh, "OLD_STYLE_HINT_RE")
    tp = {"OLD_STYLE_HINT_RE": emit_pattern("OLD_STYLE_HINT_RE", compiled_pattern(tm, tenv, "OLD_STYLE_HINT_RE"), meth)}
    same_function(clh, "convert_legacy_hint", pymeth[meth], tp, "convert_legacy_hint", tm)
    h2e = P.find_def(tm, "DefaultTCP.hint_to_endpoint")
    meth = uses(h2e, "NEW_STYLE_HINT_RE")
    tp = {"NEW_STYLE_HINT_RE": emit_pattern("NEW_STYLE_HINT_RE", compiled_pattern(tm, tenv, "NEW_STYLE_HINT_RE"), meth)}
    same_function(h2e, "DefaultTCP.hint_to_endpoint", pymeth[meth], tp, "DefaultTCP.hint_to_endpoint", tm)

    # ---- connections/tor.py (imports the two building blocks from .tcp)
    om = P.load("connections/tor.py")
    imported = set()
    for st in om.body:
        if isinstance(st, ast.ImportFrom) and st.module == "tcp" and st.level == 1:
            imported |= {a.name for a in st.names if a.asname is None}
    oenv = {k: tenv[k] for k in imported if k in tenv}
    oenv.update(P.module_consts(om))
    oh = P.find_def(om, "_Common.hint_to_endpoint")
    emit_pattern("TOR_HINT_RE", compiled_pattern(om, oenv, "HINT_RE"), uses(oh, "HINT_RE"))
    need(oh, ["if not mo:\n        raise InvalidHintError(",
              "(host, portnum) = (mo.group(1), int(mo.group(2)))",
              "if is_non_public_numeric_address(host):\n        raise InvalidHintError(",
              "ep = txtorcon.TorClientEndpoint(host, portnum, socks_endpoint=socks_endpoint)",
              "return (ep, host)"], "tor hint_to_endpoint")

    # ---- connections/i2p.py
    im = P.load("connections/i2p.py")
    ienv = P.module_consts(im)
    ih = P.find_def(im, "_RunningI2P.hint_to_endpoint")
    emit_pattern("I2P_HINT_RE", compiled_pattern(im, ienv, "HINT_RE"), uses(ih, "HINT_RE"))
    need(ih, ["if not mo:\n        raise InvalidHintError(",
              "(host, portnum) = (mo.group(1), int(mo.group(3)) if mo.group(3) else None)",
              "ep = SAMI2PStreamClientEndpoint.new(self._sam_endpoint, host, portnum, **kwargs)",
              "return (ep, host)"], "i2p hint_to_endpoint")
    # how the handler's own keyword arguments (a default port=...) meet the port of the hint: the statements between
    # the kwargs copy and the endpoint constructor, statement by statement
    body = [st for st in ih.body if not (isinstance(st, ast.Expr) and isinstance(st.value, ast.Constant))]
    texts = [" ".join(ast.unparse(st).replace('"', "'").split()) for st in body]
    try:
        i0 = texts.index("kwargs = self._kwargs.copy()")
        i1 = [i for i, t in enumerate(texts) if t.startswith("ep = SAMI2PStreamClientEndpoint.new(")][0]
    except (ValueError, IndexError):
        U("i2p hint_to_endpoint: the kwargs copy / endpoint constructor statements were not found")
    between = texts[i0 + 1:i1]
    current = ["if not portnum and 'port' in kwargs: portnum = kwargs.pop('port')"]
    import re as _re
    mrep = _re.fullmatch(r"(\w+) = kwargs\.pop\('port', None\)", between[0]) if len(between) == 2 else None
    if between == current:
        pops = False                 # the form before 733f931: 'port' stays in the kwargs when the hint has its own port
    elif mrep and mrep.group(1) not in ("portnum", "kwargs", "host", "self", "mo") and between[1] == "if not portnum: portnum = %s" % mrep.group(1):
        pops = True                  # 'port' always removed; the hint's own non-zero port wins, else the default (or None)
    else:
        U("i2p hint_to_endpoint: the handling of a default port= keyword argument is no longer one of the known forms: %r" % (between,))
    if [t for t in texts[:i0] if "kwargs" in t] or i1 != len(texts) - 2:
        U("i2p hint_to_endpoint: kwargs are used outside the modelled statements")
    out.append("(* does _RunningI2P.hint_to_endpoint remove 'port' from its keyword arguments on every path? *)")
    out.append("Definition I2P_POPS_PORT : bool := %s." % ("true" if pops else "false"))

    # ---- connection.py: how a handler is chosen
    cm = P.load("connection.py")
    ge = P.find_def(cm, "get_endpoint")
    need(ge, ["hint = convert_legacy_hint(location)",
              "if ':' not in hint:\n            raise InvalidHintError(",
              "hint_type = hint.split(':', 1)[0]",
              "plugin = connectionPlugins.get(hint_type)",
              "if not plugin:\n            connectionInfo._describe_connection_handler(location, None)\n            raise InvalidHintError(",
              "d = defer.maybeDeferred(plugin.hint_to_endpoint, hint, reactor, _update_status)",
              "return defer.maybeDeferred(_try)"], "get_endpoint")
    out.append("Definition HINT_TYPE_SEP : Z := %d." % ord(":"))

    # ---- pb.py Tub.getBrokerForTubRef / connectionFailed: the connector table (model: lib/Connector.v)
    pm = P.load("pb.py")
    gb = P.find_def(pm, "Tub.getBrokerForTubRef")
    guards = [n for n in ast.walk(gb) if isinstance(n, ast.If) and ast.unparse(n.test) == "tubref not in self.tubConnectors"]
    if len(guards) != 1 or guards[0].orelse:
        U("getBrokerForTubRef: expected exactly one `if tubref not in self.tubConnectors:` without else")
    body = guards[0].body
    stores = [i for i, st in enumerate(body) if isinstance(st, ast.Assign) and ast.unparse(st.targets[0]) == "self.tubConnectors[tubref]"
              and ast.unparse(st.value) == "c"]
    connects = [i for i, st in enumerate(body) if isinstance(st, ast.Expr) and ast.unparse(st.value) == "c.connect()"]
    makes = [i for i, st in enumerate(body) if isinstance(st, ast.Assign) and ast.unparse(st.targets[0]) == "c"
             and ast.unparse(st.value) == "connection.TubConnector(self, tubref, self._connectionHandlers)"]
    if len(stores) != 1 or len(connects) != 1 or len(makes) != 1 or len(body) != 3:
        U("getBrokerForTubRef: the new-connector branch is no longer {c = TubConnector(..); store; c.connect()} in some order")
    out.append("(* is the new connector stored in tubConnectors before connect() can fail synchronously? *)")
    out.append("Definition connector_stored_before_connect : bool := %s." % ("true" if stores[0] < connects[0] else "false"))
    need(gb, ["if tubref in self.brokers: return defer.succeed(self.brokers[tubref])",
              "d = defer.Deferred()",
              "self.waitingForBrokers[tubref].append(d)",
              "return d"], "Tub.getBrokerForTubRef")
    cf = P.find_def(pm, "Tub.connectionFailed")
    need(cf, ["if tubref in self.tubConnectors: del self.tubConnectors[tubref]",
              "if tubref in self.waitingForBrokers:",
              "del self.waitingForBrokers[tubref]"], "Tub.connectionFailed")
    ccls = P.find_class(cm, "TubConnector")
    cconsts = P.module_consts(cm, body=ccls.body)
    if not isinstance(cconsts.get("CONNECTION_TIMEOUT"), int) or cconsts["CONNECTION_TIMEOUT"] <= 0:
        U("TubConnector.CONNECTION_TIMEOUT is not a positive integer literal")
    out.append("Definition CONNECTION_TIMEOUT : Z := %d." % cconsts["CONNECTION_TIMEOUT"])
    need(P.find_def(cm, "TubConnector.connect"), ["self.timer = reactor.callLater(timeout, self.connectionTimedOut)",
                                                   "self.active = True", "self.connectToAll()"], "TubConnector.connect")
    return {"FurlGen.v": "\n".join(out) + "\n"}
