"""C20: the five FURL / connection-hint regular expressions, the base32 alphabet and the
shape facts of decode_furl / encode_furl / SturdyRef / convert_legacy_hint / get_endpoint,
translated from furl.py, base32.py, referenceable.py, connections/{tcp,tor,i2p}.py, connection.py.

The pattern strings are obtained by evaluating the module-level constant expressions
(string concatenation and %-formatting) with translate.pylite.const_expr; the final
pattern is parsed by Python's own `re._parser` and every node is turned into a
constructor of Verif.lib.Regex.re.  Any node kind that the Coq matcher does not model
raises Untranslatable (fail closed)."""
import ast, sys
from translate import pylite as P

try:
    import re._parser as sre_parse
    import re._constants as sre_c
except ImportError:                                   # Python < 3.11
    import sre_parse
    import sre_constants as sre_c

PROPERTIES = ["C20"]
OUTPUTS = ["FurlGen.v"]

UNI_MAX = 0x10FFFF


def U(msg):
    raise P.Untranslatable(msg)


# ---------------------------------------------------------------- runtime tables

def digit_blocks():
    """code points matched by \\d in a str pattern (str.isdecimal), as blocks of ten
    consecutive code points zero..nine (checked), so that int() of a digit is c - zero."""
    import unicodedata
    zeros = set()
    for c in range(UNI_MAX + 1):
        ch = chr(c)
        if ch.isdecimal():
            zeros.add(c - unicodedata.decimal(ch))
    zeros = sorted(zeros)
    for z in zeros:
        for d in range(10):
            ch = chr(z + d)
            if not ch.isdecimal() or unicodedata.decimal(ch) != d or int(ch) != d:
                U("unicode decimal digits are not organised in blocks of ten at U+%04X" % z)
    import re
    pat = re.compile(r"\d")
    n = sum(1 for c in range(UNI_MAX + 1) if pat.fullmatch(chr(c)))
    if n != 10 * len(zeros):
        U("re's \\d and str.isdecimal disagree")
    return zeros


def lower_table(alphabet):
    """code points whose str.lower() differs from themselves *and* consists only of
    characters of the alphabet (all others cannot become members by lowering)."""
    out = []
    for c in range(UNI_MAX + 1):
        ch = chr(c)
        lo = ch.lower()
        if lo != ch and all(x in alphabet for x in lo):
            out.append((c, [ord(x) for x in lo]))
    return out


# ---------------------------------------------------------------- regex -> Coq

class Rx:
    def __init__(self, digit_zeros):
        self.zeros = digit_zeros
        self.ngroups = 0

    def cset_items(self, items):
        """items of an IN node -> (neg, [range text])"""
        neg = False
        parts = []
        for op, av in items:
            if op is sre_c.NEGATE:
                neg = True
            elif op is sre_c.LITERAL:
                parts.append("[(%d, %d)]" % (av, av))
            elif op is sre_c.RANGE:
                parts.append("[(%d, %d)]" % (av[0], av[1]))
            elif op is sre_c.CATEGORY and av is sre_c.CATEGORY_DIGIT:
                parts.append("digit_ranges")
            else:
                U("character class item not modelled: %s %s" % (op, av))
        # merge adjacent literal lists for readability
        txt = " ++ ".join(parts) if parts else "[]"
        return neg, txt

    def cset(self, node):
        op, av = node
        if op is sre_c.LITERAL:
            return "(CS false [(%d, %d)])" % (av, av)
        if op is sre_c.NOT_LITERAL:
            return "(CS true [(%d, %d)])" % (av, av)
        if op is sre_c.ANY:
            return "(CS true [(10, 10)])"          # no DOTALL: everything but newline
        if op is sre_c.IN:
            neg, txt = self.cset_items(av)
            return "(CS %s (%s))" % ("true" if neg else "false", txt)
        return None

    def nullable(self, seq):
        for op, av in seq:
            if op in (sre_c.LITERAL, sre_c.NOT_LITERAL, sre_c.ANY, sre_c.IN):
                return False
            if op is sre_c.MAX_REPEAT:
                if av[0] > 0 and not self.nullable(av[2]):
                    return False
            elif op is sre_c.SUBPATTERN:
                if not self.nullable(av[3]):
                    return False
            elif op is sre_c.BRANCH:
                if all(not self.nullable(b) for b in av[1]):
                    return False
            elif op is sre_c.AT:
                pass
            else:
                U("node kind not modelled: %s" % (op,))
        return True

    def seq(self, nodes):
        parts = [self.node(n) for n in nodes]
        if not parts:
            return "Eps"
        out = parts[-1]
        for p in reversed(parts[:-1]):
            out = "(Cat %s %s)" % (p, out)
        return out

    def node(self, n):
        op, av = n
        cs = self.cset(n)
        if cs is not None:
            return "(Chr %s)" % cs
        if op is sre_c.MAX_REPEAT:
            lo, hi, body = av
            unbounded = hi is sre_c.MAXREPEAT
            if lo > 1000 or (not unbounded and hi > 1000):
                U("repeat bound too large to model as nat: {%s,%s}" % (lo, hi))
            body = list(body)
            if len(body) == 1 and self.cset(body[0]) is not None:
                return "(Star %s %d%%nat %s)" % (self.cset(body[0]), lo, "None" if unbounded else "(Some %d%%nat)" % hi)
            if unbounded:
                U("unbounded repeat of a multi-character body is not modelled")
            if self.nullable(body):
                U("repeat of a body that can match the empty string is not modelled")
            return "(Rep %s %d%%nat %d%%nat)" % (self.seq(body), lo, hi)
        if op is sre_c.MIN_REPEAT or op is getattr(sre_c, "POSSESSIVE_REPEAT", object()):
            U("lazy / possessive repeats are not modelled")
        if op is sre_c.BRANCH:
            _, branches = av
            parts = [self.seq(list(b)) for b in branches]
            out = parts[-1]
            for p in reversed(parts[:-1]):
                out = "(Alt %s %s)" % (p, out)
            return out
        if op is sre_c.SUBPATTERN:
            group, add_flags, del_flags, body = av
            if add_flags or del_flags:
                U("inline flags are not modelled")
            if group is None:
                return self.seq(list(body))
            self.ngroups = max(self.ngroups, group)
            return "(Grp %d%%nat %s)" % (group, self.seq(list(body)))
        if op is sre_c.AT and av is sre_c.AT_END:
            return "Eol"
        U("regex node kind not modelled: %s %s" % (op, av))

    def pattern(self, text):
        """-> (anchored, body text, ngroups)"""
        try:
            tree = sre_parse.parse(text, 0)
        except Exception as e:
            U("pattern does not parse: %r: %s" % (text, e))
        if tree.state.flags & ~sre_c.SRE_FLAG_UNICODE:
            U("pattern sets flags: %r" % text)
        nodes = list(tree)
        anchored = False
        if nodes and nodes[0] == (sre_c.AT, sre_c.AT_BEGINNING):
            anchored = True
            nodes = nodes[1:]
        self.ngroups = 0
        body = self.seq(nodes)
        if tree.state.groups - 1 != self.ngroups:
            U("group count mismatch in %r" % text)
        return anchored, body, self.ngroups


def compiled_pattern(mod, env, name):
    """NAME = re.compile(<const string expr>) at module level -> the pattern string"""
    found = [st for st in mod.body if isinstance(st, ast.Assign) and len(st.targets) == 1
             and isinstance(st.targets[0], ast.Name) and st.targets[0].id == name]
    if len(found) != 1:
        U("expected exactly one module-level assignment of %s" % name)
    v = found[0].value
    if not (isinstance(v, ast.Call) and ast.unparse(v.func) == "re.compile"):
        U("%s is not re.compile(...)" % name)
    if len(v.args) != 1 or v.keywords:
        U("%s: re.compile is called with flags" % name)
    s = P.const_expr(v.args[0], env)
    if not isinstance(s, str):
        U("%s: pattern is not a str" % name)
    return s


def uses(fn, rename):
    """the single `<rename>.<method>(x)` call in function fn -> method name"""
    cs = [x for x in ast.walk(fn) if isinstance(x, ast.Call) and isinstance(x.func, ast.Attribute)
          and isinstance(x.func.value, ast.Name) and x.func.value.id == rename]
    if len(cs) != 1 or len(cs[0].args) != 1 or cs[0].keywords:
        U("expected exactly one call %s.<method>(x) in %s" % (rename, fn.name))
    meth = cs[0].func.attr
    if meth not in ("search", "match"):
        U("%s.%s is not modelled" % (rename, meth))
    return {"search": "MSearch", "match": "MMatch"}[meth]


def need(fn, frags, where):
    norm = lambda t: "".join(t.replace("(", " ").replace(")", " ").replace('"', "'").split())
    src = norm(ast.unparse(fn))                       # layout, quoting and redundant parentheses ignored
    for f in frags:
        if norm(f) not in src:
            U("%s no longer contains: %s" % (where, f))


def codes(s):
    return "[" + "; ".join(str(ord(c)) for c in s) + "]"


def generate():
    out = ["(* GENERATED by /verif/translate/g_furl.py from furl.py, base32.py, referenceable.py, "
           "connections/tcp.py, connections/tor.py, connections/i2p.py, connection.py -- do not edit *)\n"
           "From Coq Require Import ZArith List String Bool.\nImport ListNotations.\n"
           "Require Import Verif.lib.Regex.\nLocal Open Scope Z_scope.\n"]
    zeros = digit_blocks()
    out.append("(* runtime fact (unicodedata of the interpreter): \\d = str.isdecimal, %d blocks of ten *)" % len(zeros))
    out.append("Definition digit_zeros : list Z := [%s]." % "; ".join(str(z) for z in zeros))
    out.append("Definition digit_ranges : list (Z * Z) := map (fun z => (z, z + 9)) digit_zeros.")
    out.append("Definition INT_MAX_STR_DIGITS : Z := %d." % (sys.get_int_max_str_digits() if hasattr(sys, "get_int_max_str_digits") else 0))

    rx = Rx(zeros)

    def emit_pattern(cname, text, meth):
        anchored, body, ng = rx.pattern(text)
        shown = repr(text).replace("*)", "* )").replace("(*", "( *").replace('"', "''")
        out.append("(* %s = %s *)" % (cname, shown))
        out.append("Definition %s : pattern := {| p_anch := %s; p_body := %s; p_groups := %d%%nat |}."
                   % (cname, "true" if anchored else "false", body, ng))
        out.append("Definition %s_method : method := %s." % (cname, meth))

    # ---- furl.py
    fm = P.load("furl.py")
    fenv = P.module_consts(fm)
    dec = P.find_def(fm, "decode_furl")
    for fname in ("decode_furl", "encode_furl"):
        if P.find_def(fm, fname).decorator_list:
            U("furl.%s is decorated (cached / wrapped): its body is no longer what runs" % fname)
    emit_pattern("AUTH_STURDYREF_RE", compiled_pattern(fm, fenv, "AUTH_STURDYREF_RE"), uses(dec, "AUTH_STURDYREF_RE"))
    # shape facts of decode_furl
    need(dec, ["furl = six.ensure_str(furl)",
               "if mo_auth_furl:",
               "tubID_s = mo_auth_furl.group(1)",
               "if not base32.is_base32(tubID):\n        raise BadFURLError(",
               "hints = mo_auth_furl.group(2)",
               "if location_hints == ['']:\n        location_hints = []",
               "if '' in location_hints:\n        raise BadFURLError(",
               "name = mo_auth_furl.group(3)",
               "else:\n    raise ValueError(",
               "return (tubID, location_hints, name)"], "decode_furl")
    cut = [n for n in ast.walk(dec) if isinstance(n, ast.Assign) and ast.unparse(n.targets[0]) == "tubID"]
    if len(cut) != 1 or not (isinstance(cut[0].value, ast.Subscript) and ast.unparse(cut[0].value.value) == "tubID_s"
                             and isinstance(cut[0].value.slice, ast.Slice) and cut[0].value.slice.lower is None
                             and cut[0].value.slice.step is None
                             and isinstance(cut[0].value.slice.upper, ast.Constant)
                             and isinstance(cut[0].value.slice.upper.value, int)
                             and cut[0].value.slice.upper.value >= 0):
        U("decode_furl: tubID is no longer tubID_s[:N]")
    out.append("Definition TUBID_CUT : nat := %d%%nat." % cut[0].value.slice.upper.value)
    sp = [n for n in ast.walk(dec) if isinstance(n, ast.Assign) and ast.unparse(n.targets[0]) == "location_hints"
          and isinstance(n.value, ast.Call)]
    if len(sp) != 1 or ast.unparse(sp[0].value.func) != "hints.split" or len(sp[0].value.args) != 1 \
            or not isinstance(sp[0].value.args[0], ast.Constant) or not isinstance(sp[0].value.args[0].value, str) \
            or len(sp[0].value.args[0].value) != 1:
        U("decode_furl: location_hints is no longer hints.split(<one char>)")
    out.append("Definition HINT_SEP : Z := %d." % ord(sp[0].value.args[0].value))
    enc = P.find_def(fm, "encode_furl")
    ret = [n for n in ast.walk(enc) if isinstance(n, ast.Return)]
    joins = [n for n in ast.walk(enc) if isinstance(n, ast.Assign) and ast.unparse(n.targets[0]) == "location_hints_s"]
    if len(ret) != 1 or len(joins) != 1:
        U("encode_furl changed shape")
    j = joins[0].value
    if not (isinstance(j, ast.Call) and isinstance(j.func, ast.Attribute) and j.func.attr == "join"
            and isinstance(j.func.value, ast.Constant) and isinstance(j.func.value.value, str)
            and len(j.func.value.value) == 1
            and ast.unparse(j.args[0]) == "[six.ensure_str(hint) for hint in location_hints]"):
        U("encode_furl: hints are no longer joined by a one-character string")
    out.append("Definition ENC_SEP : Z := %d." % ord(j.func.value.value))
    r = ret[0].value
    # 'pb://' + ensure_str(tubID) + '@' + location_hints_s + '/' + ensure_str(name)
    terms = []
    while isinstance(r, ast.BinOp) and isinstance(r.op, ast.Add):
        terms.append(r.right)
        r = r.left
    terms.append(r)
    terms.reverse()
    if len(terms) != 6 or [type(t) for t in (terms[0], terms[2], terms[4])] != [ast.Constant] * 3 \
            or ast.unparse(terms[1]) != "six.ensure_str(tubID)" or ast.unparse(terms[3]) != "location_hints_s" \
            or ast.unparse(terms[5]) != "six.ensure_str(name)" \
            or not all(isinstance(terms[i].value, str) for i in (0, 2, 4)):
        U("encode_furl: return expression is no longer prefix + tubID + sep + hints + sep + name")
    out.append("Definition ENC_PREFIX : list Z := %s." % codes(terms[0].value))
    out.append("Definition ENC_AT : list Z := %s." % codes(terms[2].value))
    out.append("Definition ENC_SLASH : list Z := %s." % codes(terms[4].value))

    # ---- base32.py
    bm = P.load("base32.py")
    benv = P.module_consts(bm, ["BASE32_ALPHABET"])
    alpha = benv["BASE32_ALPHABET"]
    if not isinstance(alpha, str):
        U("BASE32_ALPHABET is not a str")
    isb = P.find_def(bm, "is_base32")
    need(isb, ["for c in s.lower():\n        if c not in BASE32_ALPHABET:\n            return False\n    return True"], "is_base32")
    out.append("Definition BASE32_ALPHABET : list Z := %s." % codes(alpha))
    lt = lower_table(alpha)
    out.append("(* runtime fact: code points whose str.lower() differs from themselves and lies inside the alphabet *)")
    out.append("Definition py_lower_table : list (Z * list Z) := [%s]." %
               "; ".join("(%d, [%s])" % (c, "; ".join(map(str, lo))) for c, lo in lt))

    # ---- referenceable.py: identity of SturdyRef / TubRef
    rm = P.load("referenceable.py")
    out.append("Inductive idfield := FTubID | FName | FHints | FUrl.")
    fieldname = {"self.tubID": "FTubID", "self.name": "FName", "self.locationHints": "FHints", "self.url": "FUrl"}
    for cls, cname in (("SturdyRef", "sturdyref_distinguishers"), ("TubRef", "tubref_distinguishers")):
        d = P.find_def(rm, cls + "._distinguishers")
        rets = [n for n in ast.walk(d) if isinstance(n, ast.Return)]
        if len(rets) != 1 or not isinstance(rets[0].value, ast.Tuple):
            U("%s._distinguishers no longer returns a tuple" % cls)
        fields = []
        for e in rets[0].value.elts:
            if isinstance(e, ast.Constant):
                continue                      # the constant tag `True`
            t = ast.unparse(e)
            if t not in fieldname:
                U("%s._distinguishers uses %s" % (cls, t))
            fields.append(fieldname[t])
        out.append("Definition %s : list idfield := [%s]." % (cname, "; ".join(fields)))
        need(P.find_def(rm, cls + ".__eq__"), ["type(self) is type(them) and self.__class__ == them.__class__ and "
                                               "(self._distinguishers() == them._distinguishers())"], cls + ".__eq__")
        need(P.find_def(rm, cls + ".__hash__"), ["return hash(self._distinguishers())"], cls + ".__hash__")
        need(P.find_def(rm, cls + ".__ne__"), ["return not self == them"], cls + ".__ne__")
    # the copy path (a SturdyRef that ARRIVES): only the four attributes of the model's record are taken from the state
    scs = P.find_def(rm, "SturdyRef.setCopyableState")
    loops = [n for n in scs.body if isinstance(n, ast.For)]
    if len(loops) != 1 or len([n for n in scs.body if not (isinstance(n, ast.Expr) and isinstance(n.value, ast.Constant))]) != 1 \
            or scs.decorator_list:
        U("SturdyRef.setCopyableState is no longer a single loop over the accepted attribute names")
    try:
        accepted = P.const_expr(loops[0].iter)
    except P.Untranslatable:
        U("SturdyRef.setCopyableState: the accepted attribute names are not a literal tuple")
    if " ".join(ast.unparse(loops[0]).split()) != " ".join(
            ("for k in %s:\n    if k in state:\n        setattr(self, k, state[k])" % ast.unparse(loops[0].iter)).split()):
        U("SturdyRef.setCopyableState no longer copies exactly the accepted attributes")
    attr_field = {"url": "FUrl", "tubID": "FTubID", "locationHints": "FHints", "name": "FName"}
    if sorted(accepted) != sorted(attr_field):
        U("SturdyRef.setCopyableState accepts %r; the model's record has url, tubID, locationHints, name" % (accepted,))
    out.append("Definition sturdyref_copied_fields : list idfield := [%s]." % "; ".join(attr_field[a] for a in accepted))
    need(P.find_def(rm, "SturdyRef.__init__"), ["self.tubID, self.locationHints, self.name = decode_furl(url)"],
         "SturdyRef.__init__")

    # ---- connections/tcp.py
    tm = P.load("connections/tcp.py")
    tenv = P.module_consts(tm)
    clh = P.find_def(tm, "convert_legacy_hint")
    emit_pattern("OLD_STYLE_HINT_RE", compiled_pattern(tm, tenv, "OLD_STYLE_HINT_RE"), uses(clh, "OLD_STYLE_HINT_RE"))
    need(clh, ["if mo:\n        (host, port) = (mo.group(1), int(mo.group(2)))\n        return 'tcp:%s:%d' % (host, port)\n    return location"],
         "convert_legacy_hint")
    h2e = P.find_def(tm, "DefaultTCP.hint_to_endpoint")
    emit_pattern("NEW_STYLE_HINT_RE", compiled_pattern(tm, tenv, "NEW_STYLE_HINT_RE"), uses(h2e, "NEW_STYLE_HINT_RE"))
    need(h2e, ["if not mo:\n        raise InvalidHintError(",
               "(host, port) = (mo.group(1), int(mo.group(2)))",
               "host = host.lstrip('[').rstrip(']')",
               "return (HostnameEndpoint(reactor, host, port), host)"], "DefaultTCP.hint_to_endpoint")

    # ---- connections/tor.py (imports the two building blocks from .tcp)
    om = P.load("connections/tor.py")
    imported = set()
    for st in om.body:
        if isinstance(st, ast.ImportFrom) and st.module == "tcp" and st.level == 1:
            imported |= {a.name for a in st.names if a.asname is None}
    oenv = {k: tenv[k] for k in imported if k in tenv}
    oenv.update(P.module_consts(om))
    oh = P.find_def(om, "_Common.hint_to_endpoint")
    emit_pattern("TOR_HINT_RE", compiled_pattern(om, oenv, "HINT_RE"), uses(oh, "HINT_RE"))
    need(oh, ["if not mo:\n        raise InvalidHintError(",
              "(host, portnum) = (mo.group(1), int(mo.group(2)))",
              "if is_non_public_numeric_address(host):\n        raise InvalidHintError(",
              "ep = txtorcon.TorClientEndpoint(host, portnum, socks_endpoint=socks_endpoint)",
              "return (ep, host)"], "tor hint_to_endpoint")

    # ---- connections/i2p.py
    im = P.load("connections/i2p.py")
    ienv = P.module_consts(im)
    ih = P.find_def(im, "_RunningI2P.hint_to_endpoint")
    emit_pattern("I2P_HINT_RE", compiled_pattern(im, ienv, "HINT_RE"), uses(ih, "HINT_RE"))
    need(ih, ["if not mo:\n        raise InvalidHintError(",
              "(host, portnum) = (mo.group(1), int(mo.group(3)) if mo.group(3) else None)",
              "ep = SAMI2PStreamClientEndpoint.new(self._sam_endpoint, host, portnum, **kwargs)",
              "return (ep, host)"], "i2p hint_to_endpoint")

    # ---- connection.py: how a handler is chosen
    cm = P.load("connection.py")
    ge = P.find_def(cm, "get_endpoint")
    need(ge, ["hint = convert_legacy_hint(location)",
              "if ':' not in hint:\n            raise InvalidHintError(",
              "hint_type = hint.split(':', 1)[0]",
              "plugin = connectionPlugins.get(hint_type)",
              "if not plugin:\n            connectionInfo._describe_connection_handler(location, None)\n            raise InvalidHintError(",
              "d = defer.maybeDeferred(plugin.hint_to_endpoint, hint, reactor, _update_status)",
              "return defer.maybeDeferred(_try)"], "get_endpoint")
    out.append("Definition HINT_TYPE_SEP : Z := %d." % ord(":"))

    # ---- pb.py Tub.getBrokerForTubRef / connectionFailed: the connector table (model: lib/Connector.v)
    pm = P.load("pb.py")
    gb = P.find_def(pm, "Tub.getBrokerForTubRef")
    guards = [n for n in ast.walk(gb) if isinstance(n, ast.If) and ast.unparse(n.test) == "tubref not in self.tubConnectors"]
    if len(guards) != 1 or guards[0].orelse:
        U("getBrokerForTubRef: expected exactly one `if tubref not in self.tubConnectors:` without else")
    body = guards[0].body
    stores = [i for i, st in enumerate(body) if isinstance(st, ast.Assign) and ast.unparse(st.targets[0]) == "self.tubConnectors[tubref]"
              and ast.unparse(st.value) == "c"]
    connects = [i for i, st in enumerate(body) if isinstance(st, ast.Expr) and ast.unparse(st.value) == "c.connect()"]
    makes = [i for i, st in enumerate(body) if isinstance(st, ast.Assign) and ast.unparse(st.targets[0]) == "c"
             and ast.unparse(st.value) == "connection.TubConnector(self, tubref, self._connectionHandlers)"]
    if len(stores) != 1 or len(connects) != 1 or len(makes) != 1 or len(body) != 3:
        U("getBrokerForTubRef: the new-connector branch is no longer {c = TubConnector(..); store; c.connect()} in some order")
    out.append("(* is the new connector stored in tubConnectors before connect() can fail synchronously? *)")
    out.append("Definition connector_stored_before_connect : bool := %s." % ("true" if stores[0] < connects[0] else "false"))
    need(gb, ["if tubref in self.brokers: return defer.succeed(self.brokers[tubref])",
              "d = defer.Deferred()",
              "self.waitingForBrokers[tubref].append(d)",
              "return d"], "Tub.getBrokerForTubRef")
    cf = P.find_def(pm, "Tub.connectionFailed")
    need(cf, ["if tubref in self.tubConnectors: del self.tubConnectors[tubref]",
              "if tubref in self.waitingForBrokers:",
              "del self.waitingForBrokers[tubref]"], "Tub.connectionFailed")
    ccls = P.find_class(cm, "TubConnector")
    cconsts = P.module_consts(cm, body=ccls.body)
    if not isinstance(cconsts.get("CONNECTION_TIMEOUT"), int) or cconsts["CONNECTION_TIMEOUT"] <= 0:
        U("TubConnector.CONNECTION_TIMEOUT is not a positive integer literal")
    out.append("Definition CONNECTION_TIMEOUT : Z := %d." % cconsts["CONNECTION_TIMEOUT"])
    need(P.find_def(cm, "TubConnector.connect"), ["self.timer = reactor.callLater(timeout, self.connectionTimedOut)",
                                                   "self.active = True", "self.connectToAll()"], "TubConnector.connect")
    return {"FurlGen.v": "\n".join(out) + "\n"}
