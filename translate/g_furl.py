"""C20: the five FURL / connection-hint regular expressions, the base32 alphabet and the
shape facts of decode_furl / encode_furl / SturdyRef / convert_legacy_hint / get_endpoint,
translated from furl.py, base32.py, referenceable.py, connections/{tcp,tor,i2p}.py, connection.py.

The pattern strings are obtained by evaluating the module-level constant expressions
(string concatenation and %-formatting) with translate.pylite.const_expr; the final
pattern is parsed by Python's own `re._parser` and every node is turned into a
constructor of Verif.lib.Regex.re.  Any node kind that the Coq matcher does not model
raises Untranslatable (fail closed).

How the four small functions are read (decode_furl, encode_furl, convert_legacy_hint, DefaultTCP.hint_to_endpoint)
-----------------------------------------------------------------------------------------------------------------
They are not matched as text.  `Sym` executes the body symbolically (straight-line code, if/else, early return/raise,
tuple assignment, single-use or multi-use locals) into a decision tree
    do(effect, tree) | if(condition, tree, tree) | raise(exception class) | return(expression)
and the tree must UNIFY with the tree obtained in the same way from the reference text of the function kept below
(REFERENCE), whose holes K_... bind the constants that the Coq model takes from the source (the 32-character cut, the
separators, the prefix).  Two bodies with the same tree compute the same function, because the executor only does
the following, each valid for ALL inputs:
  * locals are substituted by the expression they were assigned (any number of uses, any names): sound because only
    PURE, TOTAL expressions are substituted -- operations on values whose type is fixed by the expression that built
    them, not by the caller: slicing / split / lstrip / rstrip / %-formatting / comparison / membership on the str
    results of six.ensure_str, of Match.group on a str subject and of str methods; base32.is_base32 on a str;
    PATTERN.search/match on a str; Match.group(i) / Match.groups() on a path where the match is known to exist.
    Every other call (six.ensure_str, int(), PATTERN.search on a parameter of unknown type, the list comprehension
    over a parameter, an endpoint constructor) is an EFFECT: it is kept as a do-node, in program order, on its path,
    so nothing that can raise or observe is reordered, duplicated or dropped.
  * `if X: A else: B ; rest`  ==  `if X: A; rest  else: B; rest` (continuation duplicated into both branches); this
    makes if/else, guard-with-early-raise and guard-with-early-return the same tree.
  * a test on a value m = PATTERN.search(..)/match(..) of a module-level re.compile pattern: `if m`, `if not m`,
    `m is None`, `m is not None` all become the condition matched(m) (branches swapped for the negative forms).
    Argument: Pattern.search/match return None or an re.Match; re.Match defines neither __bool__ nor __len__, so it
    is always true.  The type comes from the defining expression, whatever the function's arguments are.
  * `a, b, c = m.groups()` == `a = m.group(1); b = m.group(2); c = m.group(3)` when the pattern has exactly that many
    groups (known from the parsed pattern): both give the group's text or None, and both are pure.
  * a call h(a1..an) of a plain function h of the same module (defined once at module level, never rebound, imported
    over or declared global anywhere, no decorators / defaults / star-args) whose body is assignments followed by one
    return is replaced by that body with the parameters bound to the argument VALUES (beta-reduction: the arguments
    were already evaluated left to right, their effects recorded; the body's effects follow in order).
  * the message argument of a raised exception is evaluated (so effects in it would be kept) but not compared.
Not accepted (fails closed as before): loops, try, with, augmented assignment, attribute stores, calls the executor
does not know, a decorated function, delegation to a helper that normalize.py cannot inline."""
import ast, sys
import re as re_
from translate import pylite as P

try:
    import re._parser as sre_parse
    import re._constants as sre_c
except ImportError:                                   # Python < 3.11
    import sre_parse
    import sre_constants as sre_c

PROPERTIES = ["C20"]
OUTPUTS = ["FurlGen.v"]

UNI_MAX = 0x10FFFF


def U(msg):
    raise P.Untranslatable(msg)


# ---------------------------------------------------------------- runtime tables

def digit_blocks():
    """code points matched by \\d in a str pattern (str.isdecimal), as blocks of ten
    consecutive code points zero..nine (checked), so that int() of a digit is c - zero."""
    import unicodedata
    zeros = set()
    for c in range(UNI_MAX + 1):
        ch = chr(c)
        if ch.isdecimal():
            zeros.add(c - unicodedata.decimal(ch))
    zeros = sorted(zeros)
    for z in zeros:
        for d in range(10):
            ch = chr(z + d)
            if not ch.isdecimal() or unicodedata.decimal(ch) != d or int(ch) != d:
                U("unicode decimal digits are not organised in blocks of ten at U+%04X" % z)
    import re
    pat = re.compile(r"\d")
    n = sum(1 for c in range(UNI_MAX + 1) if pat.fullmatch(chr(c)))
    if n != 10 * len(zeros):
        U("re's \\d and str.isdecimal disagree")
    return zeros


def lower_table(alphabet):
    """code points whose str.lower() differs from themselves *and* consists only of
    characters of the alphabet (all others cannot become members by lowering)."""
    out = []
    for c in range(UNI_MAX + 1):
        ch = chr(c)
        lo = ch.lower()
        if lo != ch and all(x in alphabet for x in lo):
            out.append((c, [ord(x) for x in lo]))
    return out


# ---------------------------------------------------------------- regex -> Coq

class Rx:
    def __init__(self, digit_zeros):
        self.zeros = digit_zeros
        self.ngroups = 0

    def cset_items(self, items):
        """items of an IN node -> (neg, [range text])"""
        neg = False
        parts = []
        for op, av in items:
            if op is sre_c.NEGATE:
                neg = True
            elif op is sre_c.LITERAL:
                parts.append("[(%d, %d)]" % (av, av))
            elif op is sre_c.RANGE:
                parts.append("[(%d, %d)]" % (av[0], av[1]))
            elif op is sre_c.CATEGORY and av is sre_c.CATEGORY_DIGIT:
                parts.append("digit_ranges")
            else:
                U("character class item not modelled: %s %s" % (op, av))
        # merge adjacent literal lists for readability
        txt = " ++ ".join(parts) if parts else "[]"
        return neg, txt

    def cset(self, node):
        op, av = node
        if op is sre_c.LITERAL:
            return "(CS false [(%d, %d)])" % (av, av)
        if op is sre_c.NOT_LITERAL:
            return "(CS true [(%d, %d)])" % (av, av)
        if op is sre_c.ANY:
            return "(CS true [(10, 10)])"          # no DOTALL: everything but newline
        if op is sre_c.IN:
            neg, txt = self.cset_items(av)
            return "(CS %s (%s))" % ("true" if neg else "false", txt)
        return None

    def nullable(self, seq):
        for op, av in seq:
            if op in (sre_c.LITERAL, sre_c.NOT_LITERAL, sre_c.ANY, sre_c.IN):
                return False
            if op is sre_c.MAX_REPEAT:
                if av[0] > 0 and not self.nullable(av[2]):
                    return False
            elif op is sre_c.SUBPATTERN:
                if not self.nullable(av[3]):
                    return False
            elif op is sre_c.BRANCH:
                if all(not self.nullable(b) for b in av[1]):
                    return False
            elif op is sre_c.AT:
                pass
            else:
                U("node kind not modelled: %s" % (op,))
        return True

    def seq(self, nodes):
        parts = [self.node(n) for n in nodes]
        if not parts:
            return "Eps"
        out = parts[-1]
        for p in reversed(parts[:-1]):
            out = "(Cat %s %s)" % (p, out)
        return out

    def node(self, n):
        op, av = n
        cs = self.cset(n)
        if cs is not None:
            return "(Chr %s)" % cs
        if op is sre_c.MAX_REPEAT:
            lo, hi, body = av
            unbounded = hi is sre_c.MAXREPEAT
            if lo > 1000 or (not unbounded and hi > 1000):
                U("repeat bound too large to model as nat: {%s,%s}" % (lo, hi))
            body = list(body)
            if len(body) == 1 and self.cset(body[0]) is not None:
                return "(Star %s %d%%nat %s)" % (self.cset(body[0]), lo, "None" if unbounded else "(Some %d%%nat)" % hi)
            if unbounded:
                U("unbounded repeat of a multi-character body is not modelled")
            if self.nullable(body):
                U("repeat of a body that can match the empty string is not modelled")
            return "(Rep %s %d%%nat %d%%nat)" % (self.seq(body), lo, hi)
        if op is sre_c.MIN_REPEAT or op is getattr(sre_c, "POSSESSIVE_REPEAT", object()):
            U("lazy / possessive repeats are not modelled")
        if op is sre_c.BRANCH:
            _, branches = av
            parts = [self.seq(list(b)) for b in branches]
            out = parts[-1]
            for p in reversed(parts[:-1]):
                out = "(Alt %s %s)" % (p, out)
            return out
        if op is sre_c.SUBPATTERN:
            group, add_flags, del_flags, body = av
            if add_flags or del_flags:
                U("inline flags are not modelled")
            if group is None:
                return self.seq(list(body))
            self.ngroups = max(self.ngroups, group)
            return "(Grp %d%%nat %s)" % (group, self.seq(list(body)))
        if op is sre_c.AT and av is sre_c.AT_END:
            return "Eol"
        U("regex node kind not modelled: %s %s" % (op, av))

    def pattern(self, text):
        """-> (anchored, body text, ngroups)"""
        try:
            tree = sre_parse.parse(text, 0)
        except Exception as e:
            U("pattern does not parse: %r: %s" % (text, e))
        if tree.state.flags & ~sre_c.SRE_FLAG_UNICODE:
            U("pattern sets flags: %r" % text)
        nodes = list(tree)
        anchored = False
        if nodes and nodes[0] == (sre_c.AT, sre_c.AT_BEGINNING):
            anchored = True
            nodes = nodes[1:]
        self.ngroups = 0
        body = self.seq(nodes)
        if tree.state.groups - 1 != self.ngroups:
            U("group count mismatch in %r" % text)
        return anchored, body, self.ngroups

    def mandatory(self, nodes):
        """groups that take part in EVERY match (not under an alternative or a repeat that may be skipped)"""
        out = set()
        for op, av in nodes:
            if op is sre_c.SUBPATTERN:
                if av[0] is not None:
                    out.add(av[0])
                out |= self.mandatory(list(av[3]))
            elif op is sre_c.MAX_REPEAT and av[0] >= 1:
                out |= self.mandatory(list(av[2]))
        return out


def compiled_pattern(mod, env, name):
    """NAME = re.compile(<const string expr>) at module level -> the pattern string"""
    found = [st for st in mod.body if isinstance(st, ast.Assign) and len(st.targets) == 1
             and isinstance(st.targets[0], ast.Name) and st.targets[0].id == name]
    if len(found) != 1:
        U("expected exactly one module-level assignment of %s" % name)
    v = found[0].value
    if not (isinstance(v, ast.Call) and ast.unparse(v.func) == "re.compile"):
        U("%s is not re.compile(...)" % name)
    if len(v.args) != 1 or v.keywords:
        U("%s: re.compile is called with flags" % name)
    s = P.const_expr(v.args[0], env)
    if not isinstance(s, str):
        U("%s: pattern is not a str" % name)
    return s


def uses(fn, rename):
    """the single `<rename>.<method>(x)` call in function fn -> method name"""
    cs = [x for x in ast.walk(fn) if isinstance(x, ast.Call) and isinstance(x.func, ast.Attribute)
          and isinstance(x.func.value, ast.Name) and x.func.value.id == rename]
    if len(cs) != 1 or len(cs[0].args) != 1 or cs[0].keywords:
        U("expected exactly one call %s.<method>(x) in %s" % (rename, fn.name))
    meth = cs[0].func.attr
    if meth not in ("search", "match"):
        U("%s.%s is not modelled" % (rename, meth))
    return {"search": "MSearch", "match": "MMatch"}[meth]


def tor_steps(fn):
    """tor._Common.hint_to_endpoint read statement by statement: the ORDER of its five steps (pattern match, rejection of
    a hint that does not match, binding of host / port, rejection of a non-public numeric address, waiting for the
    handler's Tor) -> list of constructor names of FurlGen.tor_step; the last two statements must be the endpoint
    constructor and the return.  Anything else fails closed.  Whether the order is a good one is for the theorems
    (lib/TorStateProofs.v) to say, not for the translator."""
    norm = lambda n: " ".join((ast.unparse(n) if not isinstance(n, str) else n).replace('"', "'").split())
    if [norm(d) for d in fn.decorator_list] != ["inlineCallbacks"]:
        U("tor hint_to_endpoint is no longer decorated with exactly @inlineCallbacks")
    if [a.arg for a in fn.args.args] != ["self", "hint", "reactor", "update_status"] or fn.args.vararg or fn.args.kwarg \
            or fn.args.kwonlyargs or fn.args.defaults:
        U("tor hint_to_endpoint: signature")
    body = [st for st in fn.body if not (isinstance(st, ast.Expr) and isinstance(st.value, ast.Constant))]
    flat = lambda n: "".join(norm(n).replace("(", " ").replace(")", " ").split())       # redundant parentheses ignored

    def raises_invalid(st):
        """`raise InvalidHintError(<text>)` whose argument cannot itself raise: a literal, or a literal % host"""
        if not (isinstance(st, ast.Raise) and st.cause is None and isinstance(st.exc, ast.Call) and norm(st.exc.func) == "InvalidHintError"
                and len(st.exc.args) == 1 and not st.exc.keywords):
            return False
        a = st.exc.args[0]
        if isinstance(a, ast.Constant) and isinstance(a.value, str):
            return True
        return (isinstance(a, ast.BinOp) and isinstance(a.op, ast.Mod) and isinstance(a.left, ast.Constant) and isinstance(a.left.value, str)
                and a.left.value.count("%") == 1 and a.left.value.count("%s") == 1 and norm(a.right) in ("host", "(host,)", "hint", "(hint,)"))

    def wait(st):
        return (isinstance(st, ast.Assign) and isinstance(st.value, ast.Yield)
                and flat(st) == flat("socks_endpoint = yield self._maybe_connect(reactor, update_status)"))

    def kind(st):
        t = norm(st)
        if re_.fullmatch(r"mo = HINT_RE\.(search|match)\(hint\)", t):
            return "TsMatch"
        if isinstance(st, ast.If) and not st.orelse and len(st.body) == 1 and raises_invalid(st.body[0]):
            c = norm(st.test)
            if c in ("not mo", "mo is None"):
                return "TsRejectNoMatch"
            if c == "is_non_public_numeric_address(host)":
                return "TsRejectNonPublic"
        if isinstance(st, ast.Assign) and flat(st) == flat("host, portnum = mo.group(1), int(mo.group(2))"):
            return "TsBind"
        if wait(st):
            return "TsWaitTor"
        if isinstance(st, ast.With) and len(st.items) == 1 and st.items[0].optional_vars is None and len(st.body) == 1 and wait(st.body[0]):
            c = st.items[0].context_expr           # add_context(update_status, 'text'): a status effect, dropped
            if isinstance(c, ast.Call) and norm(c.func) == "add_context" and len(c.args) == 2 and not c.keywords \
                    and norm(c.args[0]) == "update_status" and isinstance(c.args[1], ast.Constant) and isinstance(c.args[1].value, str):
                return "TsWaitTor"
        U("tor hint_to_endpoint: statement not modelled: %s" % t[:160])

    if len(body) < 2 or norm(body[-2]) != "ep = txtorcon.TorClientEndpoint(host, portnum, socks_endpoint=socks_endpoint)" \
            or not isinstance(body[-1], ast.Return) or flat(body[-1]) != flat("return ep, host"):
        U("tor hint_to_endpoint no longer ends in the endpoint constructor and `return ep, host`")
    steps = [kind(st) for st in body[:-2]]
    for k in ("TsMatch", "TsRejectNoMatch", "TsBind", "TsRejectNonPublic", "TsWaitTor"):
        if steps.count(k) != 1:
            U("tor hint_to_endpoint: expected exactly one %s step, found %d" % (k, steps.count(k)))
    return steps


def need_ordered(fn, frags, where):
    """like need(), and the fragments occur in this order"""
    norm = lambda t: "".join(t.replace("(", " ").replace(")", " ").replace('"', "'").split())
    src = norm(ast.unparse(fn))
    pos = 0
    for f in frags:
        i = src.find(norm(f), pos)
        if i < 0:
            U("%s no longer contains (in this order): %s" % (where, f))
        pos = i + len(norm(f))


def need(fn, frags, where):
    norm = lambda t: "".join(t.replace("(", " ").replace(")", " ").replace('"', "'").split())
    src = norm(ast.unparse(fn))                       # layout, quoting and redundant parentheses ignored
    for f in frags:
        if norm(f) not in src:
            U("%s no longer contains: %s" % (where, f))


# ---------------------------------------------------------------- symbolic execution of the small functions

class Sym:
    """see the module docstring.  Expressions are nested tuples; kinds: 'str', 'optmatch', 'liststr', 'int', 'bool',
    'tuple', 'obj', 'param' (unknown type), 'none'."""

    def __init__(self, fname, patterns, holes=False, module=None):
        self.fname = fname
        self.patterns = patterns          # pattern name -> (number of groups, groups that take part in every match)
        self.holes = holes
        self.module = module              # for calls to straight-line helper functions of the same module

    def helper(self, name):
        """a plain module-level function `name` (defined once, never rebound, no decorators / defaults / star-args)"""
        if self.module is None:
            return None
        defs = [st for st in self.module.body if isinstance(st, (ast.FunctionDef, ast.AsyncFunctionDef, ast.ClassDef)) and st.name == name]
        rebound = [n for n in ast.walk(self.module) if isinstance(n, ast.Name) and n.id == name and isinstance(n.ctx, (ast.Store, ast.Del))]
        rebound += [n for n in ast.walk(self.module) if isinstance(n, (ast.Global, ast.Nonlocal)) and name in n.names]
        rebound += [n for n in ast.walk(self.module) if isinstance(n, (ast.Import, ast.ImportFrom))
                    and any((a.asname or a.name.split(".")[0]) == name for a in n.names)]
        if len(defs) != 1 or rebound or not isinstance(defs[0], ast.FunctionDef):
            return None
        d = defs[0]
        if d.decorator_list or d.args.vararg or d.args.kwarg or d.args.kwonlyargs or d.args.defaults or d.args.posonlyargs:
            return None
        return d

    def inline(self, d, args, env, eff, facts, depth=0):
        """value of helper d applied to already evaluated arguments: its body must be assignments followed by one
        return (beta-reduction: the arguments were evaluated first, left to right, as Python does; the body's
        effects follow, in order, on the caller's path)"""
        if len(args) != len(d.args.args) or depth > 3:
            self.bail(d.name, "helper arity / nesting")
        henv = {a.arg: v for a, v in zip(d.args.args, args)}
        for k2 in list(env):
            if k2.startswith("__"):
                henv[k2] = env[k2]
        result = None
        body = [st for st in d.body if not (isinstance(st, ast.Expr) and isinstance(st.value, ast.Constant))]
        for i, st in enumerate(body):
            if isinstance(st, ast.Assign) and len(st.targets) == 1 and i < len(body) - 1:
                k, t = self.ev(st.value, henv, eff, facts)
                tgt = st.targets[0]
                if isinstance(tgt, ast.Name):
                    henv[tgt.id] = (k, t)
                elif isinstance(tgt, ast.Tuple) and all(isinstance(x, ast.Name) for x in tgt.elts) and k == "tuple" \
                        and len(t[1]) == len(tgt.elts):
                    for x, item in zip(tgt.elts, t[1]):
                        henv[x.id] = item
                else:
                    self.bail(st, "assignment target in helper")
            elif isinstance(st, ast.For) and i < len(body) - 1:
                lc = self.loop_as_comprehension(st, henv, eff, facts)
                if lc is None:
                    self.bail(st, "loop in helper %s is not a list-building loop" % d.name)
                henv[lc[0]] = lc[1]
            elif isinstance(st, ast.Return) and st.value is not None and i == len(body) - 1:
                result = self.ev(st.value, henv, eff, facts)
            else:
                self.bail(st, "helper %s is not assignments followed by one return" % d.name)
        for k2 in henv:
            if k2.startswith("__"):
                env[k2] = henv[k2]
        if result is None:
            self.bail(d.name, "helper without return")
        return result

    def bail(self, node, why):
        U("%s: %s: %s" % (self.fname, why, ast.unparse(node) if isinstance(node, ast.AST) else node))

    def loop_as_comprehension(self, st, env, eff, facts):
        """`for v in ITER: acc.append(ELT)` where acc is bound to the empty list built just before and ELT does not mention
        acc  ==  acc = [ELT for v in ITER]  (same elements, same order of evaluation, same exceptions; the loop variable
        is not bound afterwards here, so a later use of it fails closed).  -> (acc name, value) or None"""
        if not (isinstance(st, ast.For) and not st.orelse and isinstance(st.target, ast.Name) and len(st.body) == 1):
            return None
        b = st.body[0]
        if not (isinstance(b, ast.Expr) and isinstance(b.value, ast.Call) and isinstance(b.value.func, ast.Attribute)
                and b.value.func.attr == "append" and isinstance(b.value.func.value, ast.Name)
                and len(b.value.args) == 1 and not b.value.keywords):
            return None
        acc = b.value.func.value.id
        if env.get(acc) != ("liststr", ("emptylist",)) or any(isinstance(n, ast.Name) and n.id == acc for n in ast.walk(b.value.args[0])):
            return None
        comp = ast.ListComp(elt=b.value.args[0], generators=[ast.comprehension(target=st.target, iter=st.iter, ifs=[], is_async=0)])
        return acc, self.ev(ast.fix_missing_locations(ast.copy_location(comp, st)), env, eff, facts)

    def fresh(self, eff, text, env):
        env["__n"] = env.get("__n", 0) + 1                    # path-local numbering (env is copied at every branch)
        sym = ("eff%d" % env["__n"],)
        eff.append((sym[0],) + text)
        if text[0] == "apply":
            env["__pat:" + sym[0]] = text[1]
        return sym

    # -- expressions: -> (kind, term); effects appended to `eff` in evaluation order
    def ev(self, e, env, eff, facts):
        if isinstance(e, ast.Constant):
            v = e.value
            if isinstance(v, str):
                return "str", ("lit", v)
            if isinstance(v, bool) or v is None:
                return ("none" if v is None else "bool"), ("lit", v)
            if isinstance(v, int):
                return "int", ("lit", v)
            self.bail(e, "constant")
        if isinstance(e, ast.Name):
            if e.id in env:
                return env[e.id]
            if self.holes and e.id.startswith("K_"):
                return "hole", ("hole", e.id)
            if e.id == "reactor":
                return "obj", ("global", "reactor")
            self.bail(e, "unbound name")
        if isinstance(e, ast.Tuple):
            items = [self.ev(x, env, eff, facts) for x in e.elts]
            return "tuple", ("tuple", items)
        if isinstance(e, ast.List) and not e.elts:
            return "liststr", ("emptylist",)
        if isinstance(e, ast.List) and all(isinstance(x, ast.Constant) and isinstance(x.value, str) for x in e.elts):
            return "liststr", ("listlit", tuple(x.value for x in e.elts))
        if isinstance(e, ast.Subscript) and isinstance(e.slice, ast.Slice) and e.slice.lower is None and e.slice.step is None \
                and e.slice.upper is not None:
            k, t = self.ev(e.value, env, eff, facts)
            ku, tu = self.ev(e.slice.upper, env, eff, facts)
            if k != "str" or ku not in ("int", "hole") or (ku == "int" and (tu[0] != "lit" or tu[1] < 0)):
                self.bail(e, "slice of a non-str / by a non-literal")
            return "str", ("prefix", t, tu)
        if isinstance(e, ast.BinOp) and isinstance(e.op, ast.Add):
            kl, tl = self.ev(e.left, env, eff, facts)
            kr, tr = self.ev(e.right, env, eff, facts)
            if kl not in ("str", "hole") or kr not in ("str", "hole"):
                self.bail(e, "+ on non-str")
            flat = (list(tl[1]) if tl[0] == "concat" else [tl]) + (list(tr[1]) if tr[0] == "concat" else [tr])
            return "str", ("concat", tuple(flat))
        if isinstance(e, ast.BinOp) and isinstance(e.op, ast.Mod):
            kl, tl = self.ev(e.left, env, eff, facts)
            kr, tr = self.ev(e.right, env, eff, facts)
            if kl != "str" or tl[0] != "lit":
                self.bail(e, "% with a non-literal format")
            args = tr[1] if kr == "tuple" else [(kr, tr)]
            if any(k not in ("str", "int") for k, _ in args):
                self.bail(e, "%-formatting of a value that is not a str / int")
            return "str", ("format", tl[1], tuple(t for _, t in args))
        if isinstance(e, ast.ListComp):
            if ast.unparse(e.elt) == "six.ensure_str(%s)" % ast.unparse(e.generators[0].target) and len(e.generators) == 1 \
                    and not e.generators[0].ifs and isinstance(e.generators[0].target, ast.Name):
                k, t = self.ev(e.generators[0].iter, env, eff, facts)
                return "liststr", self.fresh(eff, ("map-ensure_str", t), env)
            self.bail(e, "list comprehension")
        if isinstance(e, ast.Call):
            return self.call(e, env, eff, facts)
        self.bail(e, "expression")

    def call(self, e, env, eff, facts):
        if e.keywords:
            self.bail(e, "keyword arguments")
        f = e.func
        fu = ast.unparse(f)
        on_pattern = isinstance(f, ast.Attribute) and isinstance(f.value, ast.Name) and f.value.id in self.patterns \
            and f.value.id not in env
        on_literal = isinstance(f, ast.Attribute) and (
            (isinstance(f.value, ast.Constant) and isinstance(f.value.value, str))
            or (self.holes and isinstance(f.value, ast.Name) and f.value.id.startswith("K_")))
        if fu in ("six.ensure_str", "int", "base32.is_base32", "HostnameEndpoint") or on_pattern or on_literal:
            args = [self.ev(a, env, eff, facts) for a in e.args]
            if fu == "six.ensure_str" and len(args) == 1:
                return "str", self.fresh(eff, ("ensure_str", args[0][1]), env)
            if fu == "int" and len(args) == 1 and args[0][0] in ("str", "optstr"):
                return "int", self.fresh(eff, ("int", args[0][1]), env)
            if fu == "base32.is_base32" and len(args) == 1 and args[0][0] == "str":
                return "bool", ("is_base32", args[0][1])
            if fu == "HostnameEndpoint":
                return "obj", self.fresh(eff, ("HostnameEndpoint", tuple(t for _, t in args)), env)
            if on_pattern and f.attr in ("search", "match") and len(args) == 1:
                term = ("apply", f.value.id, f.attr, args[0][1])
                if args[0][0] == "str":
                    return "optmatch", term
                return "optmatch", self.fresh(eff, term, env)          # argument of unknown type: may raise
            if on_literal and f.attr == "join" and len(args) == 1 and args[0][0] == "liststr":
                sep = ("lit", f.value.value) if isinstance(f.value, ast.Constant) else ("hole", f.value.id)
                return "str", ("join", sep, args[0][1])
            self.bail(e, "call")
        if isinstance(f, ast.Name) and f.id not in env and self.helper(f.id) is not None:
            args = [self.ev(a, env, eff, facts) for a in e.args]
            return self.inline(self.helper(f.id), args, env, eff, facts)
        if isinstance(f, ast.Attribute):
            ko, to = self.ev(f.value, env, eff, facts)                 # Python evaluates the object, then the arguments
            args = [self.ev(a, env, eff, facts) for a in e.args]
            if ko == "optmatch":
                if ("matched", to) not in facts:
                    self.bail(e, "method of a match object on a path where the match is not known to exist")
                pat = to[1] if to[0] == "apply" else env.get("__pat:" + to[0])
                ng, mandatory = self.patterns[pat]
                if f.attr == "group" and len(args) == 1 and args[0][1][0] == "lit" and isinstance(args[0][1][1], int) \
                        and 0 < args[0][1][1] <= ng:
                    i = args[0][1][1]
                    return ("str" if i in mandatory else "optstr"), ("group", to, i)
                if f.attr == "groups" and not args:
                    return "tuple", ("tuple", [(("str" if i in mandatory else "optstr"), ("group", to, i)) for i in range(1, ng + 1)])
                self.bail(e, "match method")
            if ko == "str" and f.attr == "split" and len(args) == 1 and args[0][1][0] in ("lit", "hole") \
                    and (args[0][1][0] == "hole" or isinstance(args[0][1][1], str)):
                return "liststr", ("split", to, args[0][1])
            if ko == "str" and f.attr in ("lstrip", "rstrip") and len(args) == 1 and args[0][0] == "str" and args[0][1][0] == "lit":
                return "str", (f.attr, to, args[0][1])
        self.bail(e, "call")

    # -- conditions: -> (positive condition term, polarity)
    def cond(self, e, env, eff, facts):
        if isinstance(e, ast.UnaryOp) and isinstance(e.op, ast.Not):
            c, pol = self.cond(e.operand, env, eff, facts)
            return c, not pol
        if isinstance(e, ast.Compare) and len(e.ops) == 1:
            op = e.ops[0]
            kl, tl = self.ev(e.left, env, eff, facts)
            kr, tr = self.ev(e.comparators[0], env, eff, facts)
            if isinstance(op, (ast.Is, ast.IsNot)) and kl == "optmatch" and kr == "none":
                return ("matched", tl), isinstance(op, ast.IsNot)
            if isinstance(op, (ast.Eq, ast.NotEq)) and kl == "liststr" and kr == "liststr":
                return ("eq", tl, tr), isinstance(op, ast.Eq)
            if isinstance(op, (ast.In, ast.NotIn)) and kl == "str" and kr == "liststr":
                return ("in", tl, tr), isinstance(op, ast.In)
            self.bail(e, "comparison")
        k, t = self.ev(e, env, eff, facts)
        if k == "optmatch":
            return ("matched", t), True
        if k == "bool":
            return t, True
        self.bail(e, "truth value of a %s" % k)

    # -- statements
    def block(self, stmts, env, facts):
        if not stmts:
            return ("return", ("lit", None))
        st, rest = stmts[0], stmts[1:]
        eff = []

        def wrap(tree):
            for x in reversed(eff):
                tree = ("do", x, tree)
            return tree
        if isinstance(st, ast.Expr) and isinstance(st.value, ast.Constant) and isinstance(st.value.value, str):
            return self.block(rest, env, facts)
        if isinstance(st, ast.Pass):
            return self.block(rest, env, facts)
        if isinstance(st, ast.Assign) and len(st.targets) == 1:
            k, t = self.ev(st.value, env, eff, facts)
            env2 = dict(env)
            tgt = st.targets[0]
            if isinstance(tgt, ast.Name):
                env2[tgt.id] = (k, t)
            elif isinstance(tgt, ast.Tuple) and all(isinstance(x, ast.Name) for x in tgt.elts) and k == "tuple" \
                    and len(t[1]) == len(tgt.elts):
                for x, item in zip(tgt.elts, t[1]):
                    env2[x.id] = item
            else:
                self.bail(st, "assignment target")
            return wrap(self.block(rest, env2, facts))
        if isinstance(st, ast.For):
            lc = self.loop_as_comprehension(st, env, eff, facts)
            if lc is None:
                self.bail(st, "loop")
            env2 = dict(env)
            env2[lc[0]] = lc[1]
            return wrap(self.block(rest, env2, facts))
        if isinstance(st, ast.If):
            c, pol = self.cond(st.test, env, eff, facts)
            yes, no = (st.body, st.orelse) if pol else (st.orelse, st.body)
            return wrap(("if", c, self.block(list(yes) + rest, dict(env), facts | {c}),
                         self.block(list(no) + rest, dict(env), facts)))
        if isinstance(st, ast.Return):
            if st.value is None:
                return ("return", ("lit", None))
            k, t = self.ev(st.value, env, eff, facts)
            return wrap(("return", self.strip(t)))
        if isinstance(st, ast.Raise) and st.exc is not None:
            exc = st.exc
            if isinstance(exc, ast.Call):
                for a in exc.args:
                    self.ev(a, env, eff, facts)
                exc = exc.func
            return wrap(("raise", ast.unparse(exc)))
        self.bail(st, "statement")

    def strip(self, t):
        """drop the kind tags of tuple items"""
        if isinstance(t, tuple) and t and t[0] == "tuple":
            return ("tuple", tuple(self.strip(x[1]) for x in t[1]))
        return t

    def run(self, fdef):
        if fdef.decorator_list or fdef.args.vararg or fdef.args.kwarg or fdef.args.kwonlyargs or fdef.args.defaults:
            self.bail(fdef.name, "decorated / star-args / defaults")
        env = {a.arg: ("param", ("param", i)) for i, a in enumerate(x for x in fdef.args.args if x.arg != "self")}
        return self.block(list(fdef.body), env, frozenset())



# ---------------------------------------------------------------- connection.get_endpoint: the dispatch, read statement by statement
class Dispatch:
    """Symbolic execution of connection.get_endpoint into a decision tree, emitted as ONE Coq term (get_endpoint_shape).

    Outer function: nested defs (kept by name) and `return defer.maybeDeferred(<nested def>)`: whatever the nested
    function raises or returns becomes the outcome of the Deferred, so the tree of the nested body IS the outcome.
    Terms:  ('loc',)                         the location parameter
            ('hint',)                        convert_legacy_hint(location)            [do-node: may raise]
            ('before', t, sep)               t.split(sep, 1)[0] / t.partition(sep)[0]  (text before the first sep)
            ('sepfound', t, sep)             t.partition(sep)[1]   (true iff sep occurs)
            ('lookup', t)                    connectionPlugins.get(t)
            ('call', plugin, t)              defer.maybeDeferred(plugin.hint_to_endpoint, t, reactor, <status fn>)
            ('opaque',)                      result of a status / logging effect
    Conditions: ('hassep', t, sep) | ('found', lookup-term), with polarity; locals are substituted (pure terms only; the
    one call that can raise, convert_legacy_hint, is a do-node at its place; status / log effects are checked against a
    whitelist and dropped -- they are assumed not to raise, see ctx.assumptions).
    Tree: ('do-conv', tree) | ('if', cond, yes, no) | ('raise', class) | ('return-call', plugin, hint)."""
    STATUS_CALLS = ("connectionInfo._describe_connection_handler", "connectionInfo._set_connection_status",
                    "log.msg", "log.err", "describe_handler")

    def __init__(self, fdef, module=None):
        self.f = fdef
        self.nested = {}
        self.did_conv = False
        self.module = module

    def module_fn(self, name):
        """a plain function defined exactly once at module level and never rebound"""
        if self.module is None:
            return None
        defs = [st for st in self.module.body if isinstance(st, (ast.FunctionDef, ast.ClassDef)) and st.name == name]
        rebound = [n for n in ast.walk(self.module) if isinstance(n, ast.Name) and n.id == name and isinstance(n.ctx, (ast.Store, ast.Del))]
        rebound += [n for n in ast.walk(self.module) if isinstance(n, (ast.Global, ast.Nonlocal)) and name in n.names]
        if len(defs) == 1 and isinstance(defs[0], ast.FunctionDef) and not rebound and not defs[0].decorator_list:
            return defs[0]
        return None

    def bail(self, node, why):
        U("get_endpoint: %s: %s" % (why, ast.unparse(node) if isinstance(node, ast.AST) else node))

    def run(self):
        f = self.f
        if f.decorator_list or [a.arg for a in f.args.args] != ["location", "connectionPlugins", "connectionInfo"]:
            self.bail(f.name, "signature")
        body = [st for st in f.body if not (isinstance(st, ast.Expr) and isinstance(st.value, ast.Constant))]
        for st in body[:-1]:
            if not isinstance(st, ast.FunctionDef) or st.decorator_list:
                self.bail(st, "the outer body is not nested defs followed by one return")
            self.nested[st.name] = st
        last = body[-1]
        if not (isinstance(last, ast.Return) and isinstance(last.value, ast.Call) and ast.unparse(last.value.func) == "defer.maybeDeferred"
                and len(last.value.args) == 1 and not last.value.keywords and isinstance(last.value.args[0], ast.Name)
                and last.value.args[0].id in self.nested):
            self.bail(last, "not `return defer.maybeDeferred(<nested function>)`")
        inner = self.nested[last.value.args[0].id]
        if inner.args.args or inner.args.vararg or inner.args.kwarg:
            self.bail(inner.name, "the dispatched function takes arguments")
        env = {"location": ("loc",)}
        return self.block(list(inner.body), env)

    # ---- status effects
    def status_fn(self, name):
        """a nested def whose body consists of whitelisted status / logging calls only"""
        d = self.nested.get(name)
        if d is None:
            return False
        for st in d.body:
            if isinstance(st, ast.Expr) and isinstance(st.value, ast.Constant):
                continue
            if not (isinstance(st, ast.Expr) and isinstance(st.value, ast.Call) and ast.unparse(st.value.func) in self.STATUS_CALLS):
                return False
        return True

    def passthrough_errback(self, name):
        """a nested def f(x): <logging calls>; return x   -- the failure goes on unchanged"""
        d = self.nested.get(name) or self.module_fn(name)
        if d is None or len(d.args.args) != 1:
            return False
        body = [st for st in d.body if not (isinstance(st, ast.Expr) and isinstance(st.value, ast.Constant))]
        for st in body[:-1]:
            if not (isinstance(st, ast.Expr) and isinstance(st.value, ast.Call) and ast.unparse(st.value.func) in self.STATUS_CALLS):
                return False
        return bool(body) and isinstance(body[-1], ast.Return) and isinstance(body[-1].value, ast.Name) \
            and body[-1].value.id == d.args.args[0].arg

    def sep_of(self, e):
        if isinstance(e, ast.Constant) and isinstance(e.value, str) and len(e.value) == 1:
            return e.value
        self.bail(e, "separator is not a one-character literal")

    # ---- expressions
    def ev(self, e, env):
        if isinstance(e, ast.Name):
            if e.id in env:
                return env[e.id]
            if e.id in self.nested:
                return ("fn", e.id)
            if e.id == "reactor":
                return ("reactor",)
            self.bail(e, "unbound name")
        if isinstance(e, ast.Constant) and e.value is None:
            return ("none",)
        if isinstance(e, ast.Subscript) and isinstance(e.slice, ast.Constant) and e.slice.value in (0, 1, 2):
            v = self.ev(e.value, env)
            if v[0] == "split1" and e.slice.value == 0:
                return ("before", v[1], v[2])
            if v[0] == "tuple":
                return v[1][e.slice.value]
            self.bail(e, "subscript")
        if isinstance(e, ast.Call) and not e.keywords:
            fu = ast.unparse(e.func)
            if fu == "convert_legacy_hint" and len(e.args) == 1 and self.ev(e.args[0], env) == ("loc",):
                if self.did_conv:
                    self.bail(e, "convert_legacy_hint is called twice")
                self.did_conv = True
                return ("hint",)
            if isinstance(e.func, ast.Attribute):
                if fu == "connectionPlugins.get" and len(e.args) == 1:
                    return ("lookup", self.ev(e.args[0], env))
                if fu == "defer.maybeDeferred" and len(e.args) == 4 and isinstance(e.args[0], ast.Attribute) \
                        and e.args[0].attr == "hint_to_endpoint":
                    plugin = self.ev(e.args[0].value, env)
                    hint = self.ev(e.args[1], env)
                    st = self.ev(e.args[3], env)
                    if plugin[0] != "lookup" or self.ev(e.args[2], env) != ("reactor",) or st[0] != "fn" or not self.status_fn(st[1]):
                        self.bail(e, "handler call")
                    return ("call", plugin, hint)
                obj = self.ev(e.func.value, env) if not fu.startswith(("connectionInfo.", "log.")) else None
                if obj is not None and obj[0] in ("hint", "loc") and e.func.attr == "partition" and len(e.args) == 1:
                    sep = self.sep_of(e.args[0])
                    return ("tuple", [("before", obj, sep), ("sepfound", obj, sep), ("opaque-str",)])
                if obj is not None and obj[0] in ("hint", "loc") and e.func.attr == "split" and len(e.args) == 2 \
                        and isinstance(e.args[1], ast.Constant) and e.args[1].value == 1:
                    return ("split1", obj, self.sep_of(e.args[0]))
                if obj is not None and obj[0] in ("hint", "loc") and e.func.attr == "find" and len(e.args) == 1:
                    return ("find", obj, self.sep_of(e.args[0]))
            if fu in self.STATUS_CALLS or (isinstance(e.func, ast.Name) and self.status_fn(e.func.id)):
                for a in e.args:
                    if not (isinstance(a, ast.Constant) or self.ev(a, env)):
                        self.bail(a, "argument of a status call")
                return ("opaque",)
        if isinstance(e, ast.Tuple):
            return ("tuple", [self.ev(x, env) for x in e.elts])
        if isinstance(e, ast.Constant):
            return ("const", e.value)
        self.bail(e, "expression")

    def cond(self, e, env):
        if isinstance(e, ast.UnaryOp) and isinstance(e.op, ast.Not):
            c, pol = self.cond(e.operand, env)
            return c, not pol
        if isinstance(e, ast.Compare) and len(e.ops) == 1:
            op, l, r = e.ops[0], e.left, e.comparators[0]
            if isinstance(op, (ast.In, ast.NotIn)):
                t = self.ev(r, env)
                if t[0] in ("hint", "loc"):
                    return ("hassep", t, self.sep_of(l)), isinstance(op, ast.In)
            lv = self.ev(l, env)
            if lv[0] == "find" and isinstance(r, (ast.Constant, ast.UnaryOp)):
                try:
                    k = ast.literal_eval(r)
                except Exception:
                    k = None
                table = {(ast.Lt, 0): False, (ast.Eq, -1): False, (ast.GtE, 0): True, (ast.NotEq, -1): True, (ast.Gt, -1): True}
                if (type(op), k) in table:
                    return ("hassep", lv[1], lv[2]), table[(type(op), k)]
            self.bail(e, "comparison")
        v = self.ev(e, env)
        if v[0] == "lookup":
            return ("found", v), True          # a registered handler object is true, .get() gives None otherwise
        if v[0] == "sepfound":
            return ("hassep", v[1], v[2]), True
        self.bail(e, "truth value")

    # ---- statements
    def block(self, stmts, env):
        if not stmts:
            return ("return-none",)
        st, rest = stmts[0], stmts[1:]
        if isinstance(st, ast.Expr) and isinstance(st.value, ast.Constant):
            return self.block(rest, env)
        if isinstance(st, ast.FunctionDef) and not st.decorator_list:
            self.nested[st.name] = st
            return self.block(rest, env)
        if isinstance(st, ast.Assign) and len(st.targets) == 1:
            before = self.did_conv
            v = self.ev(st.value, env)
            env2 = dict(env)
            tgt = st.targets[0]
            if isinstance(tgt, ast.Name):
                env2[tgt.id] = v
            elif isinstance(tgt, ast.Tuple) and v[0] == "tuple" and len(v[1]) == len(tgt.elts) and all(isinstance(x, ast.Name) for x in tgt.elts):
                for x, item in zip(tgt.elts, v[1]):
                    env2[x.id] = item
            else:
                self.bail(st, "assignment")
            t = self.block(rest, env2)
            return ("do-conv", t) if (self.did_conv and not before) else t
        if isinstance(st, ast.Expr) and isinstance(st.value, ast.Call):
            c = st.value
            if isinstance(c.func, ast.Attribute) and c.func.attr == "addErrback" and len(c.args) == 1 and not c.keywords \
                    and isinstance(c.args[0], ast.Name) and c.args[0].id not in env and self.passthrough_errback(c.args[0].id) \
                    and self.ev(c.func.value, env)[0] == "call":
                return self.block(rest, env)            # the failure is logged and handed on unchanged
            if self.ev(c, env) == ("opaque",):
                return self.block(rest, env)
            self.bail(st, "statement")
        if isinstance(st, ast.If):
            c, pol = self.cond(st.test, env)
            yes, no = (st.body, st.orelse) if pol else (st.orelse, st.body)
            return ("if", c, self.block(list(yes) + rest, dict(env)), self.block(list(no) + rest, dict(env)))
        if isinstance(st, ast.Raise) and st.exc is not None:
            exc = st.exc.func if isinstance(st.exc, ast.Call) else st.exc
            return ("raise", ast.unparse(exc))
        if isinstance(st, ast.Return) and st.value is not None:
            v = self.ev(st.value, env)
            if v[0] == "call":
                return ("return-call", v[1], v[2])
        self.bail(st, "statement")

    # ---- tree -> Coq
    def coq(self, t, bound=None):
        k = t[0]
        if k == "do-conv":
            return "match conv loc with\n  | Exc e => Exc e\n  | Ok hint =>\n      %s\n  end" % self.coq(t[1], bound)
        if k == "raise":
            return 'Exc "%s"' % t[1].split(".")[-1]
        if k == "if" and t[1][0] == "hassep":
            return "(if zmem %d %s then %s else %s)" % (ord(t[1][2]), self.term(t[1][1]), self.coq(t[2], bound), self.coq(t[3], bound))
        if k == "if" and t[1][0] == "found" and bound is None:
            return "(match lookup %s with Some h => %s | None => %s end)" % (self.term(t[1][1][1]), self.coq(t[2], t[1][1]), self.coq(t[3], None))
        if k == "return-call" and bound is not None and t[1] == bound:
            return "call h %s" % self.term(t[2])
        U("get_endpoint: the decision tree has a node the model's term language does not cover: %r" % (t[:2],))

    def term(self, t):
        if t == ("hint",):
            return "hint"
        if t == ("loc",):
            return "loc"
        if t[0] == "before":
            return "(take_until %d %s)" % (ord(t[2]), self.term(t[1]))
        U("get_endpoint: term %r" % (t,))

    def seps(self, t, acc):
        if isinstance(t, tuple):
            if t and t[0] in ("hassep", "before") and isinstance(t[2], str):
                acc.add(t[2])
            for x in t:
                self.seps(x, acc)
        return acc


def inline_return(fdef):
    """the text of `return <expr>` of a function whose body is `name = <expr>` assignments (each name assigned once, used
    exactly once afterwards, in the order of the assignments -- so evaluation order is unchanged) followed by that return"""
    body = [st for st in fdef.body if not (isinstance(st, ast.Expr) and isinstance(st.value, ast.Constant))]
    if not body or not isinstance(body[-1], ast.Return) or body[-1].value is None:
        return None
    names, vals = [], {}
    for st in body[:-1]:
        if not (isinstance(st, ast.Assign) and len(st.targets) == 1 and isinstance(st.targets[0], ast.Name)) or st.targets[0].id in vals:
            return None
        names.append(st.targets[0].id)
        vals[st.targets[0].id] = st.value
    ret = body[-1].value
    used = [n.id for n in ast.walk(ret) if isinstance(n, ast.Name) and n.id in vals]
    loads = sorted((n.lineno, n.col_offset, n.id) for n in ast.walk(ret) if isinstance(n, ast.Name) and n.id in vals)
    if sorted(used) != sorted(names) or [x[2] for x in loads] != names:
        return None
    if any(isinstance(n, ast.Name) and n.id in vals for v in vals.values() for n in ast.walk(v)):
        return None

    class Sub(ast.NodeTransformer):
        def visit_Name(self, n):
            return vals[n.id] if n.id in vals else n
    return "return " + ast.unparse(Sub().visit(ast.parse(ast.unparse(ret), mode="eval").body))


def need_return(fdef, frag, where):
    """need() for a one-expression method, also accepted when operands were first bound to single-use locals"""
    norm = lambda t: "".join(t.replace("(", " ").replace(")", " ").replace('"', "'").split())
    got = inline_return(fdef)
    if got is None or norm(frag) not in norm(got):
        need(fdef, [frag], where)


def is_base32_shape(fn):
    """is_base32(s): every character of s.lower() is in BASE32_ALPHABET -- as the explicit loop with early `return False`
    or as all(<generator / list> over the same characters); s.lower() may first be bound to a local"""
    if fn.decorator_list or [a.arg for a in fn.args.args] != ["s"]:
        U("is_base32: signature")
    body = [st for st in fn.body if not (isinstance(st, ast.Expr) and isinstance(st.value, ast.Constant)) and not isinstance(st, ast.Assert)]
    norm = lambda n: "".join(ast.unparse(n).split())
    lowered = {"s.lower()"}
    if body and isinstance(body[0], ast.Assign) and len(body[0].targets) == 1 and isinstance(body[0].targets[0], ast.Name) \
            and norm(body[0].value) == "s.lower()" and body[0].targets[0].id != "s":
        lowered.add(body[0].targets[0].id)
        body = body[1:]
    if len(body) == 2 and isinstance(body[0], ast.For) and isinstance(body[0].target, ast.Name) and norm(body[0].iter) in lowered \
            and not body[0].orelse and len(body[0].body) == 1 \
            and norm(body[0].body[0]) == "if%snotinBASE32_ALPHABET:returnFalse" % body[0].target.id and norm(body[1]) == "returnTrue":
        return
    if len(body) == 1 and isinstance(body[0], ast.Return) and isinstance(body[0].value, ast.Call) and norm(body[0].value.func) == "all" \
            and len(body[0].value.args) == 1 and isinstance(body[0].value.args[0], (ast.GeneratorExp, ast.ListComp)):
        g = body[0].value.args[0]
        if len(g.generators) == 1 and not g.generators[0].ifs and isinstance(g.generators[0].target, ast.Name) \
                and norm(g.generators[0].iter) in lowered and norm(g.elt) == "%sinBASE32_ALPHABET" % g.generators[0].target.id:
            return
    U("is_base32 no longer tests every character of s.lower() against BASE32_ALPHABET in a recognised form")


def sturdyref_init_shape(fn):
    """SturdyRef.__init__(self, url=None): on the path where url is true the attributes end as
    tubID, locationHints, name = decode_furl(url) (one call) and url = six.ensure_str(url); on the other path
    locationHints = [] and url = url.  Read path by path: attribute / local assignments, tuple unpacking, `if url` /
    `if not url` with early return."""
    if fn.decorator_list or [a.arg for a in fn.args.args] != ["self", "url"]:
        U("SturdyRef.__init__: signature")

    def ev(e, env, attrs, calls):
        t = "".join(ast.unparse(e).split())
        if isinstance(e, ast.Name) and e.id in env:
            return env[e.id]
        if t == "url":
            return ("url",)
        if t == "[]":
            return ("empty",)
        if isinstance(e, ast.Attribute) and isinstance(e.value, ast.Name) and e.value.id == "self" and e.attr in attrs:
            return attrs[e.attr]
        if isinstance(e, ast.Call) and t.startswith("six.ensure_str(") and len(e.args) == 1 and not e.keywords:
            return ("ensure_str", ev(e.args[0], env, attrs, calls))
        if isinstance(e, ast.Call) and t.startswith("decode_furl(") and len(e.args) == 1 and not e.keywords \
                and ev(e.args[0], env, attrs, calls) in (("url",), ("ensure_str", ("url",))):
            calls.append("decode")
            return ("tuple", [("decode", 0), ("decode", 1), ("decode", 2)])
        if isinstance(e, ast.Tuple):
            return ("tuple", [ev(x, env, attrs, calls) for x in e.elts])
        U("SturdyRef.__init__: expression %s" % ast.unparse(e))

    def assign(tgt, v, env, attrs):
        if isinstance(tgt, ast.Name):
            env[tgt.id] = v
        elif isinstance(tgt, ast.Attribute) and isinstance(tgt.value, ast.Name) and tgt.value.id == "self":
            attrs[tgt.attr] = v
        elif isinstance(tgt, ast.Tuple) and v[0] == "tuple" and len(v[1]) == len(tgt.elts):
            for x, item in zip(tgt.elts, v[1]):
                assign(x, item, env, attrs)
        else:
            U("SturdyRef.__init__: assignment target %s" % ast.unparse(tgt))

    def run(stmts, env, attrs, calls, truthy):
        for i, st in enumerate(stmts):
            if isinstance(st, ast.Expr) and isinstance(st.value, ast.Constant):
                continue
            if isinstance(st, ast.Assign) and len(st.targets) == 1:
                assign(st.targets[0], ev(st.value, env, attrs, calls), env, attrs)
            elif isinstance(st, ast.If) and "".join(ast.unparse(st.test).split()) in ("url", "noturl"):
                pos = "".join(ast.unparse(st.test).split()) == "url"
                branch = st.body if pos == truthy else st.orelse
                return run(list(branch) + stmts[i + 1:], env, attrs, calls, truthy)
            elif isinstance(st, ast.Return) and st.value is None:
                return attrs
            else:
                U("SturdyRef.__init__: statement %s" % ast.unparse(st))
        return attrs

    calls = []
    yes = run(list(fn.body), {}, {}, calls, True)
    if calls != ["decode"] or yes != {"locationHints": ("decode", 1), "url": ("ensure_str", ("url",)), "tubID": ("decode", 0), "name": ("decode", 2)}:
        U("SturdyRef.__init__ no longer sets tubID, locationHints, name from one decode_furl(url): %r" % (yes,))
    calls = []
    no = run(list(fn.body), {}, {}, calls, False)
    if calls or no != {"locationHints": ("empty",), "url": ("url",)}:
        U("SturdyRef.__init__ without a url no longer leaves tubID / name at their class defaults: %r" % (no,))


def unify(ref, cur, binds, where):
    """ref may contain ('hole', name): it matches a literal and binds it (consistently)"""
    if isinstance(ref, tuple) and len(ref) == 2 and ref[0] == "hole":
        if not (isinstance(cur, tuple) and len(cur) == 2 and cur[0] == "lit"):
            U("%s: a literal was expected for %s, found %r" % (where, ref[1], cur))
        if binds.setdefault(ref[1], cur[1]) != cur[1]:
            U("%s: %s is used with two different values" % (where, ref[1]))
        return
    if isinstance(ref, (tuple, list)) and isinstance(cur, (tuple, list)) and len(ref) == len(cur):
        for a, b in zip(ref, cur):
            unify(a, b, binds, where)
        return
    if ref != cur:
        U("%s no longer computes what the model assumes: expected %r, found %r" % (where, ref, cur))


REFERENCE = {
    "decode_furl": '''
def decode_furl(furl):
    furl = six.ensure_str(furl)
    mo_auth_furl = AUTH_STURDYREF_RE.METHOD(furl)
    if mo_auth_furl:
        tubID_s = mo_auth_furl.group(1)
        tubID = tubID_s[:K_TUBID_CUT]
        if not base32.is_base32(tubID):
            raise BadFURLError("x")
        hints = mo_auth_furl.group(2)
        location_hints = hints.split(K_HINT_SEP)
        if location_hints == [""]:
            location_hints = []
        if "" in location_hints:
            raise BadFURLError("x")
        name = mo_auth_furl.group(3)
    else:
        raise ValueError("x")
    return (tubID, location_hints, name)
''',
    "encode_furl": '''
def encode_furl(tubID, location_hints, name):
    location_hints_s = K_ENC_SEP.join([six.ensure_str(hint) for hint in location_hints])
    return K_ENC_PREFIX + six.ensure_str(tubID) + K_ENC_AT + location_hints_s + K_ENC_SLASH + six.ensure_str(name)
''',
    "convert_legacy_hint": '''
def convert_legacy_hint(location):
    mo = OLD_STYLE_HINT_RE.METHOD(location)
    if mo:
        host, port = mo.group(1), int(mo.group(2))
        return "tcp:%s:%d" % (host, port)
    return location
''',
    "DefaultTCP.hint_to_endpoint": '''
def hint_to_endpoint(self, hint, reactor, update_status):
    mo = NEW_STYLE_HINT_RE.METHOD(hint)
    if not mo:
        raise InvalidHintError("unrecognized TCP hint")
    host, port = mo.group(1), int(mo.group(2))
    host = host.lstrip("[").rstrip("]")
    return HostnameEndpoint(reactor, host, port), host
''',
}


def same_function(fdef, key, method, patterns, where, module=None):
    """the body of fdef computes what REFERENCE[key] computes; -> the literals bound to the K_ holes"""
    ref_src = REFERENCE[key].replace("METHOD", method)
    ref = Sym("reference " + key, patterns, holes=True).run(ast.parse(ref_src).body[0])
    cur = Sym(where, patterns, module=module).run(fdef)
    binds = {}
    unify(ref, cur, binds, where)
    return binds


def codes(s):
    return "[" + "; ".join(str(ord(c)) for c in s) + "]"


def generate():
    out = ["(* GENERATED by /verif/translate/g_furl.py from furl.py, base32.py, referenceable.py, "
           "connections/tcp.py, connections/tor.py, connections/i2p.py, connection.py -- do not edit *)\n"
           "From Coq Require Import ZArith List String Bool.\nImport ListNotations.\n"
           "Require Import Verif.lib.PyLite Verif.lib.Regex Verif.lib.FurlPrim.\nLocal Open Scope Z_scope.\n"]
    zeros = digit_blocks()
    out.append("(* runtime fact (unicodedata of the interpreter): \\d = str.isdecimal, %d blocks of ten *)" % len(zeros))
    out.append("Definition digit_zeros : list Z := [%s]." % "; ".join(str(z) for z in zeros))
    out.append("Definition digit_ranges : list (Z * Z) := map (fun z => (z, z + 9)) digit_zeros.")
    out.append("Definition INT_MAX_STR_DIGITS : Z := %d." % (sys.get_int_max_str_digits() if hasattr(sys, "get_int_max_str_digits") else 0))

    rx = Rx(zeros)

    def emit_pattern(cname, text, meth):
        anchored, body, ng = rx.pattern(text)
        shown = repr(text).replace("*)", "* )").replace("(*", "( *").replace('"', "''")
        out.append("(* %s = %s *)" % (cname, shown))
        out.append("Definition %s : pattern := {| p_anch := %s; p_body := %s; p_groups := %d%%nat |}."
                   % (cname, "true" if anchored else "false", body, ng))
        out.append("Definition %s_method : method := %s." % (cname, meth))
        return ng, rx.mandatory(list(sre_parse.parse(text, 0)))

    # ---- furl.py
    fm = P.load("furl.py")
    fenv = P.module_consts(fm)
    dec = P.find_def(fm, "decode_furl")
    for fname in ("decode_furl", "encode_furl"):
        if P.find_def(fm, fname).decorator_list:
            U("furl.%s is decorated (cached / wrapped): its body is no longer what runs" % fname)
    meth = uses(dec, "AUTH_STURDYREF_RE")
    pats = {"AUTH_STURDYREF_RE": emit_pattern("AUTH_STURDYREF_RE", compiled_pattern(fm, fenv, "AUTH_STURDYREF_RE"), meth)}
    pymeth = {"MSearch": "search", "MMatch": "match"}
    # decode_furl / encode_furl compute what the model assumes (symbolic execution, see the module docstring)
    k = same_function(dec, "decode_furl", pymeth[meth], pats, "decode_furl", fm)
    if not isinstance(k.get("K_TUBID_CUT"), int) or isinstance(k["K_TUBID_CUT"], bool) or k["K_TUBID_CUT"] < 0:
        U("decode_furl: the tub id cut is not a non-negative integer literal")
    if not isinstance(k.get("K_HINT_SEP"), str) or len(k["K_HINT_SEP"]) != 1:
        U("decode_furl: hints are not split at a one-character string")
    out.append("Definition TUBID_CUT : nat := %d%%nat." % k["K_TUBID_CUT"])
    out.append("Definition HINT_SEP : Z := %d." % ord(k["K_HINT_SEP"]))
    enc = P.find_def(fm, "encode_furl")
    k = same_function(enc, "encode_furl", "search", pats, "encode_furl", fm)
    if not isinstance(k.get("K_ENC_SEP"), str) or len(k["K_ENC_SEP"]) != 1:
        U("encode_furl: hints are not joined by a one-character string")
    for name in ("K_ENC_PREFIX", "K_ENC_AT", "K_ENC_SLASH"):
        if not isinstance(k.get(name), str):
            U("encode_furl: %s is not a string literal" % name)
    out.append("Definition ENC_SEP : Z := %d." % ord(k["K_ENC_SEP"]))
    out.append("Definition ENC_PREFIX : list Z := %s." % codes(k["K_ENC_PREFIX"]))
    out.append("Definition ENC_AT : list Z := %s." % codes(k["K_ENC_AT"]))
    out.append("Definition ENC_SLASH : list Z := %s." % codes(k["K_ENC_SLASH"]))

    # ---- base32.py
    bm = P.load("base32.py")
    benv = P.module_consts(bm, ["BASE32_ALPHABET"])
    alpha = benv["BASE32_ALPHABET"]
    if not isinstance(alpha, str):
        U("BASE32_ALPHABET is not a str")
    isb = P.find_def(bm, "is_base32")
    is_base32_shape(isb)
    out.append("Definition BASE32_ALPHABET : list Z := %s." % codes(alpha))
    lt = lower_table(alpha)
    out.append("(* runtime fact: code points whose str.lower() differs from themselves and lies inside the alphabet *)")
    out.append("Definition py_lower_table : list (Z * list Z) := [%s]." %
               "; ".join("(%d, [%s])" % (c, "; ".join(map(str, lo))) for c, lo in lt))

    # ---- referenceable.py: identity of SturdyRef / TubRef
    rm = P.load("referenceable.py")
    out.append("Inductive idfield := FTubID | FName | FHints | FUrl.")
    fieldname = {"self.tubID": "FTubID", "self.name": "FName", "self.locationHints": "FHints", "self.url": "FUrl"}
    for cls, cname in (("SturdyRef", "sturdyref_distinguishers"), ("TubRef", "tubref_distinguishers")):
        d = P.find_def(rm, cls + "._distinguishers")
        rets = [n for n in ast.walk(d) if isinstance(n, ast.Return)]
        if len(rets) != 1 or not isinstance(rets[0].value, ast.Tuple):
            U("%s._distinguishers no longer returns a tuple" % cls)
        fields = []
        for e in rets[0].value.elts:
            if isinstance(e, ast.Constant):
                continue                      # the constant tag `True`
            t = ast.unparse(e)
            if t not in fieldname:
                U("%s._distinguishers uses %s" % (cls, t))
            fields.append(fieldname[t])
        out.append("Definition %s : list idfield := [%s]." % (cname, "; ".join(fields)))
        need(P.find_def(rm, cls + ".__eq__"), ["type(self) is type(them) and self.__class__ == them.__class__ and "
                                               "(self._distinguishers() == them._distinguishers())"], cls + ".__eq__")
        need_return(P.find_def(rm, cls + ".__hash__"), "return hash(self._distinguishers())", cls + ".__hash__")
        need_return(P.find_def(rm, cls + ".__ne__"), "return not self == them", cls + ".__ne__")
        need_return(P.find_def(rm, cls + ".__lt__"), "return self._distinguishers() < them._distinguishers()", cls + ".__lt__")
    # the copy path (a SturdyRef that ARRIVES): only the four attributes of the model's record are taken from the state
    scs = P.find_def(rm, "SturdyRef.setCopyableState")
    loops = [n for n in scs.body if isinstance(n, ast.For)]
    if len(loops) != 1 or len([n for n in scs.body if not (isinstance(n, ast.Expr) and isinstance(n.value, ast.Constant))]) != 1 \
            or scs.decorator_list:
        U("SturdyRef.setCopyableState is no longer a single loop over the accepted attribute names")
    try:
        accepted = P.const_expr(loops[0].iter, P.module_consts(rm))
    except P.Untranslatable:
        U("SturdyRef.setCopyableState: the accepted attribute names are not a constant tuple")
    it = ast.unparse(loops[0].iter)
    forms = ["for k in %s:\n    if k in state:\n        setattr(self, k, state[k])" % it,
             "for k in %s:\n    if k not in state:\n        continue\n    setattr(self, k, state[k])" % it]
    if " ".join(ast.unparse(loops[0]).split()) not in [" ".join(f.split()) for f in forms]:
        U("SturdyRef.setCopyableState no longer copies exactly the accepted attributes")
    attr_field = {"url": "FUrl", "tubID": "FTubID", "locationHints": "FHints", "name": "FName"}
    if sorted(accepted) != sorted(attr_field):
        U("SturdyRef.setCopyableState accepts %r; the model's record has url, tubID, locationHints, name" % (accepted,))
    out.append("Definition sturdyref_copied_fields : list idfield := [%s]." % "; ".join(attr_field[a] for a in accepted))
    sturdyref_init_shape(P.find_def(rm, "SturdyRef.__init__"))

    # ---- connections/tcp.py
    tm = P.load("connections/tcp.py")
    tenv = P.module_consts(tm)
    clh = P.find_def(tm, "convert_legacy_hint")
    meth = uses(clh, "OLD_STYLE_HINT_RE")
    tp = {"OLD_STYLE_HINT_RE": emit_pattern("OLD_STYLE_HINT_RE", compiled_pattern(tm, tenv, "OLD_STYLE_HINT_RE"), meth)}
    same_function(clh, "convert_legacy_hint", pymeth[meth], tp, "convert_legacy_hint", tm)
    h2e = P.find_def(tm, "DefaultTCP.hint_to_endpoint")
    meth = uses(h2e, "NEW_STYLE_HINT_RE")
    tp = {"NEW_STYLE_HINT_RE": emit_pattern("NEW_STYLE_HINT_RE", compiled_pattern(tm, tenv, "NEW_STYLE_HINT_RE"), meth)}
    same_function(h2e, "DefaultTCP.hint_to_endpoint", pymeth[meth], tp, "DefaultTCP.hint_to_endpoint", tm)

    # ---- connections/tor.py (imports the two building blocks from .tcp)
    om = P.load("connections/tor.py")
    imported = set()
    for st in om.body:
        if isinstance(st, ast.ImportFrom) and st.module == "tcp" and st.level == 1:
            imported |= {a.name for a in st.names if a.asname is None}
    oenv = {k: tenv[k] for k in imported if k in tenv}
    oenv.update(P.module_consts(om))
    oh = P.find_def(om, "_Common.hint_to_endpoint")
    emit_pattern("TOR_HINT_RE", compiled_pattern(om, oenv, "HINT_RE"), uses(oh, "HINT_RE"))
    # every statement of the handler and the ORDER of its steps: in particular where it starts to wait for its Tor
    # (a launch / a control connection that may take for ever or fail) relative to the two rejections
    out.append("(* tor._Common.hint_to_endpoint, statement by statement up to the endpoint constructor (translate/g_furl.py tor_steps) *)")
    out.append("Inductive tor_step := TsMatch | TsRejectNoMatch | TsBind | TsRejectNonPublic | TsWaitTor.")
    out.append("Definition TOR_STEPS : list tor_step := [%s]." % "; ".join(tor_steps(oh)))
    # _maybe_connect: the first caller starts _connect, everybody gets a Deferred of the one-shot observer list that
    # _connect's result fires (model: lib/TorState.v tor_state; compared with real handlers on every run)
    need_ordered(P.find_def(om, "_Common._maybe_connect"),
                 ["if not self._connected:", "self._connected = True", "d = self._connect(reactor, update_status)",
                  "d.addBoth(self._when_connected.fire)", "return self._when_connected.whenFired()"], "tor _maybe_connect")
    if P.find_def(om, "_Common._maybe_connect").decorator_list:
        U("tor _maybe_connect is decorated")

    # ---- connections/i2p.py
    im = P.load("connections/i2p.py")
    ienv = P.module_consts(im)
    ih = P.find_def(im, "_RunningI2P.hint_to_endpoint")
    emit_pattern("I2P_HINT_RE", compiled_pattern(im, ienv, "HINT_RE"), uses(ih, "HINT_RE"))
    need(ih, ["if not mo:\n        raise InvalidHintError(",
              "(host, portnum) = (mo.group(1), int(mo.group(3)) if mo.group(3) else None)",
              "ep = SAMI2PStreamClientEndpoint.new(self._sam_endpoint, host, portnum, **kwargs)",
              "return (ep, host)"], "i2p hint_to_endpoint")
    # how the handler's own keyword arguments (a default port=...) meet the port of the hint: the statements between
    # the kwargs copy and the endpoint constructor, statement by statement
    body = [st for st in ih.body if not (isinstance(st, ast.Expr) and isinstance(st.value, ast.Constant))]
    texts = [" ".join(ast.unparse(st).replace('"', "'").split()) for st in body]
    try:
        i0 = texts.index("kwargs = self._kwargs.copy()")
        i1 = [i for i, t in enumerate(texts) if t.startswith("ep = SAMI2PStreamClientEndpoint.new(")][0]
    except (ValueError, IndexError):
        U("i2p hint_to_endpoint: the kwargs copy / endpoint constructor statements were not found")
    between = texts[i0 + 1:i1]
    current = ["if not portnum and 'port' in kwargs: portnum = kwargs.pop('port')"]
    import re as _re
    mrep = _re.fullmatch(r"(\w+) = kwargs\.pop\('port', None\)", between[0]) if len(between) == 2 else None
    if between == current:
        pops = False                 # the form before 733f931: 'port' stays in the kwargs when the hint has its own port
    elif mrep and mrep.group(1) not in ("portnum", "kwargs", "host", "self", "mo") and between[1] == "if not portnum: portnum = %s" % mrep.group(1):
        pops = True                  # 'port' always removed; the hint's own non-zero port wins, else the default (or None)
    else:
        U("i2p hint_to_endpoint: the handling of a default port= keyword argument is no longer one of the known forms: %r" % (between,))
    if [t for t in texts[:i0] if "kwargs" in t] or i1 != len(texts) - 2:
        U("i2p hint_to_endpoint: kwargs are used outside the modelled statements")
    out.append("(* does _RunningI2P.hint_to_endpoint remove 'port' from its keyword arguments on every path? *)")
    out.append("Definition I2P_POPS_PORT : bool := %s." % ("true" if pops else "false"))

    # ---- connection.py: how a handler is chosen
    cm = P.load("connection.py")
    ge = P.find_def(cm, "get_endpoint")
    disp = Dispatch(ge, cm)
    gtree = disp.run()
    seps = disp.seps(gtree, set())
    if len(seps) != 1:
        U("get_endpoint: expected exactly one separator character, found %r" % (sorted(seps),))
    gterm = disp.coq(gtree)
    if not disp.did_conv:
        U("get_endpoint no longer passes the location through convert_legacy_hint")
    out.append("(* connection.get_endpoint: the body handed to defer.maybeDeferred, read statement by statement (translate/g_furl.py Dispatch);\n"
               "   conv = connections.tcp.convert_legacy_hint, lookup = connectionPlugins.get, call h x = the outcome of\n"
               "   defer.maybeDeferred(h.hint_to_endpoint, x, reactor, status) after the pass-through errback *)")
    out.append("Definition get_endpoint_shape {H E : Type} (conv : list Z -> res (list Z)) (lookup : list Z -> option H)\n"
               "    (call : H -> list Z -> res E) (loc : list Z) : res E :=\n  %s." % gterm)
    out.append("Definition HINT_TYPE_SEP : Z := %d." % ord(sorted(seps)[0]))

    # ---- pb.py Tub.getBrokerForTubRef / connectionFailed: the connector table (model: lib/Connector.v)
    pm = P.load("pb.py")
    gb = P.find_def(pm, "Tub.getBrokerForTubRef")
    guards = [n for n in ast.walk(gb) if isinstance(n, ast.If) and ast.unparse(n.test) == "tubref not in self.tubConnectors"]
    if len(guards) != 1 or guards[0].orelse:
        U("getBrokerForTubRef: expected exactly one `if tubref not in self.tubConnectors:` without else")
    body = guards[0].body
    stores = [i for i, st in enumerate(body) if isinstance(st, ast.Assign) and ast.unparse(st.targets[0]) == "self.tubConnectors[tubref]"
              and ast.unparse(st.value) == "c"]
    connects = [i for i, st in enumerate(body) if isinstance(st, ast.Expr) and ast.unparse(st.value) == "c.connect()"]
    makes = [i for i, st in enumerate(body) if isinstance(st, ast.Assign) and ast.unparse(st.targets[0]) == "c"
             and ast.unparse(st.value) == "connection.TubConnector(self, tubref, self._connectionHandlers)"]
    if len(stores) != 1 or len(connects) != 1 or len(makes) != 1 or len(body) != 3:
        U("getBrokerForTubRef: the new-connector branch is no longer {c = TubConnector(..); store; c.connect()} in some order")
    out.append("(* is the new connector stored in tubConnectors before connect() can fail synchronously? *)")
    out.append("Definition connector_stored_before_connect : bool := %s." % ("true" if stores[0] < connects[0] else "false"))
    need(gb, ["if tubref in self.brokers: return defer.succeed(self.brokers[tubref])",
              "d = defer.Deferred()",
              "self.waitingForBrokers[tubref].append(d)",
              "return d"], "Tub.getBrokerForTubRef")
    cf = P.find_def(pm, "Tub.connectionFailed")
    need(cf, ["if tubref in self.tubConnectors: del self.tubConnectors[tubref]",
              "if tubref in self.waitingForBrokers:",
              "del self.waitingForBrokers[tubref]"], "Tub.connectionFailed")
    ccls = P.find_class(cm, "TubConnector")
    cconsts = P.module_consts(cm, body=ccls.body)
    if not isinstance(cconsts.get("CONNECTION_TIMEOUT"), int) or cconsts["CONNECTION_TIMEOUT"] <= 0:
        U("TubConnector.CONNECTION_TIMEOUT is not a positive integer literal")
    out.append("Definition CONNECTION_TIMEOUT : Z := %d." % cconsts["CONNECTION_TIMEOUT"])
    # the hint loop and its failure handling (model: lib/ConnectAll.v; also compared with real TubConnectors on every run)
    need_ordered(P.find_def(cm, "TubConnector.connectToAll"),
                 ["while self.remainingLocations:", "location = self.remainingLocations.pop()",
                  "if location in self.attemptedLocations:\n continue", "self.attemptedLocations.append(location)",
                  "d = get_endpoint(location, self.connectionPlugins, self._connectionInfo)",
                  "self.validHints.append(location)", "return ep.connect(TubConnectorFactory(self, host, location, lp))",
                  "d.addCallback(_good_hint)", "self.pendingConnections.add(d)", "self.pendingConnections.remove(d)\n return res",
                  "d.addBoth(_remove)", "d.addCallback(self._connectionSuccess, location, lp)",
                  "d.addErrback(self._connectionFailed, location, lp)",
                  "if self.tub._test_options.get('debug_stall_second_connection'):", "self.checkForFailure()"], "TubConnector.connectToAll")
    need_ordered(P.find_def(cm, "TubConnector._connectionFailed"),
                 ["if reason.check(error.ConnectionRefusedError):", "elif reason.check(error.ConnectingCancelledError, defer.CancelledError):",
                  "elif reason.check(InvalidHintError):", "if not self.failureReason:\n self.failureReason = reason",
                  "self.checkForFailure()"], "TubConnector._connectionFailed")
    need_ordered(P.find_def(cm, "TubConnector.checkForFailure"),
                 ["if not self.active:\n return",
                  "if self.remainingLocations or self.pendingConnections or self.pendingNegotiations:\n return",
                  "if not self.validHints:\n self.failureReason = Failure(NoLocationHintsError())", "self.failed()"],
                 "TubConnector.checkForFailure")
    need_ordered(P.find_def(cm, "TubConnector.failed"),
                 ["self.stopConnectionTimer()", "self.active = False", "self.tub.connectionFailed(self.target, self.failureReason)"],
                 "TubConnector.failed")
    # the timer path (model: lib/ConnectAll.v timed_out / cancel_all): the reason is set before the Deferreds are cancelled, the
    # connector is inactive while _connectionFailed runs for them, failed() comes last
    need_ordered(P.find_def(cm, "TubConnector.connectionTimedOut"),
                 ["self.timer = None", "self.failureReason = Failure(NegotiationError(why))", "self.shutdown()", "self.failed()"],
                 "TubConnector.connectionTimedOut")
    need_ordered(P.find_def(cm, "TubConnector.shutdown"),
                 ["self.active = False", "self.remainingLocations = []", "self.stopConnectionTimer()", "self.cancelRemainingConnections()"],
                 "TubConnector.shutdown")
    need_ordered(P.find_def(cm, "TubConnector.cancelRemainingConnections"),
                 ["for d in list(self.pendingConnections):\n d.cancel()"], "TubConnector.cancelRemainingConnections")
    need_ordered(P.find_def(cm, "TubConnector.stopConnectionTimer"),
                 ["if self.timer:\n self.timer.cancel()"], "TubConnector.stopConnectionTimer")
    need(P.find_def(cm, "TubConnector.connect"), ["self.timer = reactor.callLater(timeout, self.connectionTimedOut)",
                                                   "self.active = True", "self.connectToAll()"], "TubConnector.connect")
    return {"FurlGen.v": "\n".join(out) + "\n"}
