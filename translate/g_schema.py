"""C02 / C12: translated parts of constraint.py, schema.py, slicers/*.py, remoteinterface.py, call.py, broker.py,
banana.py (integer branch of sendToken as (typebyte, size) pairs).

What is TRANSLATED (an edit of the source changes the generated text, and the proofs are re-checked against it):
  * IntegerConstraint.checkObject's numeric part  -> int_check        (pylite, both branches)
  * Banana.sendToken's integer branch              -> int_token        (conditions via pylite, per-branch type byte / size)
  * every length comparison of every checkObject    -> *_cmp : scmp     (operator read from the AST)
  * every "container is full" comparison of every Unslicer (checkToken / doOpen / receiveChild must agree) -> *_full_cmp
  * everythingTaster / openTaster tables, the tasters built in IntegerConstraint / NumberConstraint /
    ByteStringConstraint.__init__                   -> taster tables
  * Constraint.checkToken                           -> checkToken_base  (its size comparison operator + truthiness test)
  * strictTaster / opentypes class attributes       -> strict_* / opentypes_*
  * the isinstance assertion of every Unslicer.setConstraint -> sc_*   (shape fact, fail closed)
  * Broker._doCall: checkAllArgs(args, kwargs, True) dominates both invocations, same names -> doCall_shape
  * AnswerUnslicer: no object-level check before request.complete -> answer_checks_object
Everything not recognised raises Untranslatable (fail closed).

FORMS ACCEPTED BESIDES THE REFERENCE TEXT (each is equivalent to the reference form for all inputs, argument given):
  * module-level integer constants inside the translated numeric code (`obj >= _INT32_LIMIT`): module_int_consts() takes a
    name only if it is assigned exactly once, at module level, to a constant integer expression and is stored / declared
    global / imported / def'ed / used as a parameter name nowhere else in the module, so every load yields that integer.
  * a "container is full" test reached through `self.h()` (expression statement, no arguments): expand_self_helpers()
    replaces the call by h's body when h is a method of the same class taking only self, has no return/yield/nested
    def, shares no stored local with the caller, and no class of the package deriving from that class redefines h; the
    call then runs exactly that body on the same self and its value is discarded (beta-reduction without parameters).
  * PolyConstraint.checkToken / checkObject: poly_loop() accepts any local names, `flag = True` as the last statement of
    the try body (it cannot raise, so it runs iff the alternative's check returned) or after the try statement when the
    handler is `continue` (reached under exactly the same condition), and `pass` or `continue` as the handler when it is
    the last statement of the loop body.  The set of swallowed exceptions and "every alternative is consulted, no early
    return" are still required exactly.
  * Constraint.checkOpentype: read_checkOpentype() accepts the two loop tests as nested ifs or `and` conjunctions (same
    evaluations in the same order) and one local `n = len(opentype)` hoisted out of the loop: util.ensure_tuple_str is
    checked to return `tuple([...])`, so opentype is an exact immutable built-in tuple whose len() never changes.
NOT accepted (equivalence would need assumptions about types; such refactorings stay tie-broken): caching
self.argumentNames in a local and dict(zip(..)) instead of the enumerate loop in checkAllArgs; evaluating len(self.list)
once instead of twice in TupleUnslicer.checkToken (through a guard-and-return helper nested in an expression)."""
import ast
from translate import pylite as P

PROPERTIES = ["C02", "C12"]
OUTPUTS = ["SchemaGen.v"]

CMP = {ast.Gt: "SGt", ast.GtE: "SGe", ast.Lt: "SLt", ast.LtE: "SLe", ast.Eq: "SEq", ast.NotEq: "SNe"}
TOKNAMES = ["LIST", "INT", "STRING", "NEG", "FLOAT", "VOCAB", "OPEN", "CLOSE", "ABORT", "LONGINT", "LONGNEG", "ERROR",
            "PING", "PONG"]


def U(n):
    return Src(ast.unparse(n))


def flat(s):
    return " ".join(s.split())


class Src(str):
    """source text whose `in` test ignores layout"""
    def __contains__(self, frag):
        return flat(frag) in flat(str(self))


def need(cond, why):
    if not cond:
        raise P.Untranslatable(why)


def raises(body, exc):
    return any(isinstance(s, ast.Raise) and exc in U(s) for s in body)


def module_int_consts(mod):
    """NAME -> int for module-level names that are assigned exactly once, at module level, to a constant integer
    expression, and are stored to nowhere else in the module (no other assignment, augmented assignment, for target,
    `global`, import or def of that name).  A load of such a name anywhere in the module evaluates to that integer."""
    cand, count = {}, {}
    for st in mod.body:
        if isinstance(st, ast.Assign) and len(st.targets) == 1 and isinstance(st.targets[0], ast.Name):
            try:
                v = P.const_expr(st.value, dict(cand))
            except P.Untranslatable:
                continue
            if isinstance(v, int) and not isinstance(v, bool):
                cand[st.targets[0].id] = v
    for n in ast.walk(mod):
        if isinstance(n, ast.Name) and isinstance(n.ctx, (ast.Store, ast.Del)):
            count[n.id] = count.get(n.id, 0) + 1
        elif isinstance(n, (ast.Global, ast.Nonlocal)):
            for x in n.names:
                count[x] = count.get(x, 0) + 2
        elif isinstance(n, (ast.FunctionDef, ast.ClassDef)):
            count[n.name] = count.get(n.name, 0) + 2
        elif isinstance(n, (ast.Import, ast.ImportFrom)):
            for a in n.names:
                nm = (a.asname or a.name).split(".")[0]
                count[nm] = count.get(nm, 0) + 2
        elif isinstance(n, ast.arg):
            count[n.arg] = count.get(n.arg, 0) + 2          # shadowed by a parameter somewhere: do not use it
    return {k: v for k, v in cand.items() if count.get(k, 0) == 1}


def subclasses_in_package(cname):
    """names of classes of slicers/*.py, constraint.py, schema.py, call.py, referenceable.py, remoteinterface.py, copyable.py
    that (transitively, by base-class NAME) derive from cname"""
    import os
    edges = {}
    for root, _, files in os.walk(P.SRC):
        for fn in files:
            if fn.endswith(".py") and "/test" not in root:
                try:
                    mod = ast.parse(open(os.path.join(root, fn)).read())
                except SyntaxError:
                    continue
                for n in ast.walk(mod):
                    if isinstance(n, ast.ClassDef):
                        for b in n.bases:
                            base = b.attr if isinstance(b, ast.Attribute) else getattr(b, "id", None)
                            if base:
                                edges.setdefault(base, []).append(n)
    out, todo = [], [cname]
    while todo:
        for c in edges.get(todo.pop(), []):
            if c not in out:
                out.append(c)
                todo.append(c.name)
    return out


def expand_self_helpers(cls, fn):
    """the statement list of method fn of class cls, with every expression statement `self.h()` (no arguments) replaced by
    the body of h when: h is a method of cls taking only self, without decorators, whose body (docstring dropped)
    contains no return / yield / nested def, and no class of the package deriving from cls redefines h.
    Equivalence (all inputs): `self.h()` then runs exactly cls.h -- for instances of cls and of every subclass in the
    package -- its value (None) is discarded, and h's body executes the same statements on the same `self` with no
    parameters to bind and no locals that outlive it (locals of h that clash with fn's locals make it ineligible)."""
    meths = {n.name: n for n in cls.body if isinstance(n, ast.FunctionDef)}
    subs = subclasses_in_package(cls.name)
    fn_locals = {n.id for n in ast.walk(fn) if isinstance(n, ast.Name)} | {a.arg for a in fn.args.args}

    def eligible(h):
        if h.decorator_list or len(h.args.args) != 1 or h.args.vararg or h.args.kwarg or h.args.kwonlyargs:
            return False
        body = [x for x in h.body if not (isinstance(x, ast.Expr) and isinstance(x.value, ast.Constant))]
        for x in body:
            for n in ast.walk(x):
                if isinstance(n, (ast.Return, ast.Yield, ast.YieldFrom, ast.FunctionDef, ast.Lambda, ast.ClassDef)):
                    return False
                if isinstance(n, ast.Name) and isinstance(n.ctx, ast.Store) and n.id in fn_locals:
                    return False
        if any(any(isinstance(m, ast.FunctionDef) and m.name == h.name for m in c.body) for c in subs):
            return False
        return True

    def expand(stmts):
        out = []
        for st in stmts:
            if isinstance(st, ast.Expr) and isinstance(st.value, ast.Call) and not st.value.args and not st.value.keywords \
                    and isinstance(st.value.func, ast.Attribute) and isinstance(st.value.func.value, ast.Name) \
                    and st.value.func.value.id == "self" and st.value.func.attr in meths and eligible(meths[st.value.func.attr]):
                h = meths[st.value.func.attr]
                out += [x for x in h.body if not (isinstance(x, ast.Expr) and isinstance(x.value, ast.Constant))]
            else:
                out.append(st)
        return out
    return expand(fn.body)


def poly_loop(fn, qual, method, argnames, excs):
    """PolyConstraint.checkToken / checkObject: "accepted iff at least one alternative accepts, every alternative is
    consulted, exactly the exceptions `excs` of an alternative are swallowed".  Accepted forms (locals may have any names):
        flag = False
        for v in self.alternatives:
            try:
                v.<method>(<argnames>)
                flag = True                 # form A: the assignment cannot raise, so it runs iff the call returned
            except <excs>:
                pass | continue             # last statement of the loop body: `continue` == `pass`
        if not flag: raise Violation(...)
    and form B, where `flag = True` stands AFTER the try statement and the handler is `continue` (the assignment is
    reached iff the call returned normally -- the same condition as in form A).  Anything else: Untranslatable."""
    body = [x for x in fn.body if not (isinstance(x, ast.Expr) and isinstance(x.value, ast.Constant))]
    need(len(body) == 3 and isinstance(body[0], ast.Assign) and isinstance(body[0].targets[0], ast.Name) and
         isinstance(body[0].value, ast.Constant) and body[0].value.value is False and isinstance(body[1], ast.For) and
         isinstance(body[2], ast.If), qual + ": not `flag = False; for ..; if not flag: raise`")
    flag = body[0].targets[0].id
    loop, fin = body[1], body[2]
    need(isinstance(loop.target, ast.Name) and str(U(loop.iter)) == "self.alternatives" and not loop.orelse, qual + ": loop header")
    v = loop.target.id
    need(v != flag, qual + ": loop variable is the flag")
    need(str(U(fin.test)) == "not " + flag and raises(fin.body, "Violation") and not fin.orelse and len(fin.body) == 1, qual + ": final test")
    set_true = lambda st: isinstance(st, ast.Assign) and len(st.targets) == 1 and str(U(st.targets[0])) == flag and \
        isinstance(st.value, ast.Constant) and st.value.value is True
    lb = loop.body
    need(lb and isinstance(lb[0], ast.Try), qual + ": loop body does not start with try")
    tr = lb[0]
    need(not tr.orelse and not tr.finalbody and len(tr.handlers) == 1 and tr.handlers[0].name is None, qual + ": try shape")
    h = tr.handlers[0]
    ht = h.type
    got = sorted(str(U(e)) for e in ht.elts) if isinstance(ht, ast.Tuple) else [str(U(ht))] if ht is not None else None
    need(got == sorted(excs), qual + ": swallows %s instead of %s" % (got, sorted(excs)))
    call_ok = lambda st: isinstance(st, ast.Expr) and isinstance(st.value, ast.Call) and \
        str(U(st.value.func)) == "%s.%s" % (v, method) and [str(U(a)) for a in st.value.args] == argnames and not st.value.keywords
    if len(lb) == 1:                                            # form A
        need(len(tr.body) == 2 and call_ok(tr.body[0]) and set_true(tr.body[1]), qual + ": try body (form A)")
        need(len(h.body) == 1 and isinstance(h.body[0], (ast.Pass, ast.Continue)), qual + ": handler (form A)")
    else:                                                       # form B
        need(len(lb) == 2 and set_true(lb[1]) and len(tr.body) == 1 and call_ok(tr.body[0]), qual + ": loop body (form B)")
        need(len(h.body) == 1 and isinstance(h.body[0], ast.Continue), qual + ": handler (form B) must be `continue`")
    need([a.arg for a in fn.args.args] == ["self"] + argnames, qual + ": parameters")


def return_paths(stmts, qual):
    """a block made only of `if C: <block>` statements without else, whose innermost blocks are a bare `return`:
    -> the list of condition sequences that lead to a return, in program order.  `if A: if B: return` and
    `if A and B: return` give the same sequence [A, B]: both evaluate A, then (only if A is true) B, and return iff both
    are true -- the same evaluations in the same order for all inputs."""
    out = []
    for st in stmts:
        need(isinstance(st, ast.If) and not st.orelse, qual + ": unexpected statement " + str(U(st))[:80])
        conds = list(st.test.values) if isinstance(st.test, ast.BoolOp) and isinstance(st.test.op, ast.And) else [st.test]
        if len(st.body) == 1 and isinstance(st.body[0], ast.Return) and st.body[0].value is None:
            out.append([str(U(c)) for c in conds])
        else:
            for sub in return_paths(st.body, qual):
                out.append([str(U(c)) for c in conds] + sub)
    return out


def read_checkOpentype(fn):
    """Constraint.checkOpentype must be:  opentypes None -> accept;  opentype = ensure_tuple_str(opentype);
    ('reference',) -> accept;  for o in self.opentypes: accept on an exact match of equal length, accept on a proper
    prefix of a longer o;  otherwise Violation.
    Besides the reference text this accepts (a) the two tests of the loop written as nested ifs or as `and`
    conjunctions (see return_paths), and (b) ONE local `n = len(opentype)` assigned between the ensure_tuple_str line and
    the loop and used instead of len(opentype): util.ensure_tuple_str is checked to return `tuple([...])` on its only
    path, so opentype is an exact built-in tuple there, it is not re-bound afterwards, and len() of an immutable tuple
    is the same number every time it is evaluated."""
    qual = "Constraint.checkOpentype"
    body = [x for x in fn.body if not (isinstance(x, ast.Expr) and isinstance(x.value, ast.Constant))]
    need(len(body) >= 5 and flat(str(U(body[0]))) == "if self.opentypes == None: return" and
         flat(str(U(body[1]))) == "opentype = ensure_tuple_str(opentype)" and
         flat(str(U(body[2]))) == "if opentype == ('reference',): return", qual + ": head changed")
    ets = P.find_def(P.load("util.py"), "ensure_tuple_str")
    eb = [x for x in ets.body if not (isinstance(x, ast.Expr) and isinstance(x.value, ast.Constant))]
    need(len(eb) == 1 and isinstance(eb[0], ast.Return) and isinstance(eb[0].value, ast.Call) and str(U(eb[0].value.func)) == "tuple"
         and not any(isinstance(n, (ast.FunctionDef, ast.ClassDef, ast.Assign)) and
                     ("tuple" in [getattr(n, "name", None)] + [str(U(t)) for t in getattr(n, "targets", [])])
                     for n in ast.walk(P.load("util.py"))), "util.ensure_tuple_str no longer returns tuple(...)")
    rest = body[3:]
    alias = None
    if isinstance(rest[0], ast.Assign) and len(rest[0].targets) == 1 and isinstance(rest[0].targets[0], ast.Name) and \
            str(U(rest[0].value)) == "len(opentype)":
        alias = rest[0].targets[0].id
        rest = rest[1:]
    need(len(rest) == 2 and isinstance(rest[0], ast.For) and isinstance(rest[1], ast.Raise) and "Violation" in str(U(rest[1])),
         qual + ": tail is not `for ..: ..; raise Violation`")
    loop = rest[0]
    need(str(U(loop.target)) == "o" and str(U(loop.iter)) == "self.opentypes" and not loop.orelse, qual + ": loop header")
    stores = [n for n in ast.walk(loop) if isinstance(n, ast.Name) and isinstance(n.ctx, ast.Store) and n.id in ("opentype", alias)]
    need(not stores, qual + ": opentype / its length re-bound inside the loop")
    paths = return_paths(loop.body, qual)
    if alias:
        import re
        paths = [[re.sub(r"\b%s\b" % re.escape(alias), "len(opentype)", c) for c in p_] for p_ in paths]
    need(paths == [["len(o) == len(opentype)", "o == opentype"], ["len(o) > len(opentype)", "opentype == o[:len(opentype)]"]],
         qual + ": the loop accepts on %r" % (paths,))


def len_guard(fn, qual, attr, lenexpr="len(obj)"):
    """the unique `if [self.A != None and] len(obj) OP self.A: raise Violation` of a checkObject -> (OP, optional?)"""
    cands = [n for n in ast.walk(fn) if isinstance(n, ast.If) and ("self." + attr) in U(n.test) and lenexpr in U(n.test)]
    need(len(cands) == 1, "%s: expected one length test on self.%s, found %d" % (qual, attr, len(cands)))
    n = cands[0]
    need(raises(n.body, "Violation") and not n.orelse, "%s: length test on %s does not raise Violation" % (qual, attr))
    t = n.test
    optional = False
    if isinstance(t, ast.BoolOp):
        need(isinstance(t.op, ast.And) and len(t.values) == 2, "%s: unexpected boolean test %s" % (qual, U(t)))
        g = U(t.values[0])
        need(g in ("self.%s != None" % attr, "self.%s is not None" % attr), "%s: unexpected None guard %s" % (qual, g))
        optional = True
        t = t.values[1]
    need(isinstance(t, ast.Compare) and len(t.ops) == 1 and U(t.left) == lenexpr and
         U(t.comparators[0]) == "self." + attr and type(t.ops[0]) in CMP, "%s: unexpected comparison %s" % (qual, U(t)))
    return CMP[type(t.ops[0])], optional


def full_guard(cls, qual, meths, lhs, rhs, optional_attr):
    """`if [self.A != None and] <lhs> OP <rhs>: raise Violation` must occur, with one and the same OP, in each method"""
    ops = set()
    for m in meths:
        fn = P.find_def(cls, m)
        found = []
        for n in ast.walk(ast.Module(body=expand_self_helpers(cls, fn), type_ignores=[])):
            if not isinstance(n, ast.If):
                continue
            t = n.test
            parts = t.values if isinstance(t, ast.BoolOp) and isinstance(t.op, ast.And) else [t]
            cmpn = parts[-1]
            if isinstance(cmpn, ast.Compare) and len(cmpn.ops) == 1 and U(cmpn.left) == lhs and U(cmpn.comparators[0]) == rhs:
                inner_raise = raises(n.body, "Violation") or any(isinstance(s, ast.If) and raises(s.body, "Violation")
                                                                  for s in n.body)
                found.append((n, cmpn, parts))
        # nested form:  if self.A != None: if lhs OP rhs: raise
        need(len(found) == 1, "%s.%s: expected one `%s OP %s` test, found %d" % (qual, m, lhs, rhs, len(found)))
        n, cmpn, parts = found[0]
        need(raises(n.body, "Violation"), "%s.%s: fullness test does not raise Violation" % (qual, m))
        need(type(cmpn.ops[0]) in CMP, "%s.%s: operator" % (qual, m))
        ops.add(CMP[type(cmpn.ops[0])])
    need(len(ops) == 1, "%s: the fullness tests of %s disagree: %s" % (qual, meths, sorted(ops)))
    return ops.pop()


def taster_literal(node, tokc, env):
    """{INT: None, LONGINT: maxBytes, ..} -> [(typebyte, "None" | "(Some n)" | name)]"""
    need(isinstance(node, ast.Dict), "taster is not a dict literal: " + U(node))
    rows = []
    for k, v in zip(node.keys, node.values):
        need(isinstance(k, ast.Name) and k.id in tokc, "taster key " + U(k))
        if isinstance(v, ast.Constant) and v.value is None:
            lim = "None"
        elif isinstance(v, ast.Name) and v.id in env:
            lim = env[v.id]
        elif isinstance(v, ast.Attribute) and U(v) in env:
            lim = env[U(v)]
        else:
            raise P.Untranslatable("taster limit " + U(v))
        rows.append("(%d, %s)" % (tokc[k.id][0], lim))
    return "[" + "; ".join(rows) + "]"


def class_attr(cls, name, default=None):
    for st in cls.body:
        if isinstance(st, ast.Assign) and len(st.targets) == 1 and isinstance(st.targets[0], ast.Name) \
                and st.targets[0].id == name:
            return st.value
    return default


def opentypes_of(cls, qual):
    v = class_attr(cls, "opentypes")
    need(v is not None, qual + ": no opentypes attribute")
    if isinstance(v, ast.Constant) and v.value is None:
        return None
    val = P.const_expr(v)
    need(isinstance(val, list) and all(isinstance(t, tuple) and len(t) == 1 and isinstance(t[0], str) for t in val),
         qual + ": opentypes is not a list of 1-tuples of strings")
    return [t[0] for t in val]


class _AuStop(Exception):
    pass


class _AuRaise(Exception):
    """an exception raised by an expression (six.ensure_str on bytes that are not text)"""


class _Tok(int):
    """the `token` parameter of receiveChild: behaves as the integer it carries, and stays recognisable as the token"""


def _au_run(fn, st, loc):
    """Execute the statements of one ArgumentUnslicer method on a CONCRETE unslicer state (st: numargs, nargs = len(args),
    argname) with a tiny evaluator that knows exactly the expressions and statements these methods may use, and return
    the list of effects it performs (constraint lookups with their arguments, `assert accept`, appends, field updates,
    argConstraint.checkToken, raised exception classes).  Anything it does not know raises Untranslatable."""
    eff = []
    q = "ArgumentUnslicer." + fn.name

    def sym(v):
        return "token" if isinstance(v, _Tok) else v

    def ev(e):
        if isinstance(e, ast.Constant):
            return e.value
        if isinstance(e, ast.Name):
            need(e.id in loc, q + ": unknown name " + e.id)
            return loc[e.id]
        if isinstance(e, ast.Attribute):
            src = flat(str(U(e)))
            if src == "self.numargs":
                return st["numargs"]
            if src == "self.argname":
                return st["argname"]
            if src in ("self.methodSchema", "self.argConstraint"):
                return True                                   # a method schema is in force and has handed out a constraint
            if src == "self.debug":
                return False
            if src == "self.stage" and "stage" in st:
                return st["stage"]
            if src.startswith("tokens."):
                return src[7:]
            raise P.Untranslatable(q + ": attribute " + src)
        if isinstance(e, ast.Call):
            f = flat(str(U(e.func)))
            if f == "len" and len(e.args) == 1 and flat(str(U(e.args[0]))) == "self.args":
                return st["nargs"]
            if f == "isinstance" and flat(str(U(e.args[1]))) == "defer.Deferred":
                return False                                  # gifts (their-reference) are outside the model
            if f == "six.ensure_str" and len(e.args) == 1:
                v = ev(e.args[0])
                if isinstance(v, _Tok) and not loc.get("token_is_text", True):
                    raise _AuRaise("UnicodeDecodeError")      # bytes that are not UTF-8
                return v
            if f == "list" and len(e.args) == 1 and flat(str(U(e.args[0]))) == "self.kwargs.keys()":
                return "kwkeys"
            raise P.Untranslatable(q + ": call " + str(U(e))[:80])
        if isinstance(e, ast.Tuple):
            return tuple(ev(x) for x in e.elts)
        if isinstance(e, ast.UnaryOp) and isinstance(e.op, ast.Not):
            return not ev(e.operand)
        if isinstance(e, ast.BoolOp):
            v = None
            for x in e.values:
                v = ev(x)
                if isinstance(e.op, ast.And) and not v:
                    return v
                if isinstance(e.op, ast.Or) and v:
                    return v
            return v
        if isinstance(e, ast.Compare) and len(e.ops) == 1:
            l, r, op = ev(e.left), ev(e.comparators[0]), e.ops[0]
            if isinstance(op, ast.Is):
                return l is r
            if isinstance(op, ast.IsNot):
                return l is not r
            if isinstance(op, ast.In):
                return l in r
            if isinstance(op, ast.NotIn):
                return l not in r
            if isinstance(op, (ast.Eq, ast.NotEq)):
                return (l == r) if isinstance(op, ast.Eq) else (l != r)
            need(isinstance(l, int) and isinstance(r, int) and not isinstance(l, bool) and not isinstance(r, bool),
                 q + ": ordering of non-integers in " + str(U(e)))
            return {ast.Lt: l < r, ast.LtE: l <= r, ast.Gt: l > r, ast.GtE: l >= r}[type(op)]
        raise P.Untranslatable(q + ": expression " + str(U(e))[:80])

    def run(stmts):
        for x in stmts:
            if isinstance(x, ast.Expr) and isinstance(x.value, ast.Constant):
                continue
            if isinstance(x, ast.If):
                run(x.body if ev(x.test) else x.orelse)
            elif isinstance(x, ast.Return):
                need(x.value is None, q + ": returns a value")
                raise _AuStop()
            elif isinstance(x, ast.Raise):
                eff.append(("raise", str(U(x.exc.func)) if isinstance(x.exc, ast.Call) else str(U(x.exc))))
                raise _AuStop()
            elif isinstance(x, ast.Try):
                # exactly: try: <one assignment> except UnicodeDecodeError: raise Violation(..)   (fail closed otherwise)
                need(len(x.body) == 1 and isinstance(x.body[0], ast.Assign) and not x.orelse and not x.finalbody and
                     len(x.handlers) == 1 and x.handlers[0].name is None and x.handlers[0].type is not None and
                     flat(str(U(x.handlers[0].type))) == "UnicodeDecodeError" and len(x.handlers[0].body) == 1 and
                     isinstance(x.handlers[0].body[0], ast.Raise) and isinstance(x.handlers[0].body[0].exc, ast.Call) and
                     flat(str(U(x.handlers[0].body[0].exc.func))) == "Violation" and x.handlers[0].body[0].cause is None,
                     q + ": statement " + str(U(x))[:120])
                try:
                    run(x.body)
                except _AuRaise as r_:
                    if r_.args[0] != "UnicodeDecodeError":
                        raise
                    run(x.handlers[0].body)
            elif isinstance(x, ast.Assert):
                t = flat(str(U(x.test)))
                if t == "accept":
                    eff.append(("assert_accept",))
                else:
                    need(t in ("isinstance(token, int)", "ready_deferred is None"), q + ": assert " + t)
            elif isinstance(x, ast.Assign) and len(x.targets) == 1:
                tgt = x.targets[0]
                if isinstance(tgt, ast.Name):
                    loc[tgt.id] = ev(x.value)
                elif isinstance(tgt, ast.Attribute) and flat(str(U(tgt))) in ("self.numargs", "self.argname"):
                    v = ev(x.value)
                    st[tgt.attr] = v
                    eff.append(("set", tgt.attr, sym(v)))
                elif isinstance(tgt, ast.Tuple) and [flat(str(U(t))) for t in tgt.elts] == ["accept", "self.argConstraint"] and \
                        isinstance(x.value, ast.Call) and isinstance(x.value.func, ast.Attribute) and \
                        isinstance(x.value.func.value, ast.Name) and x.value.func.attr in ("getPositionalArgConstraint", "getKeywordArgConstraint"):
                    need(loc.get(x.value.func.value.id) is True and not x.value.keywords, q + ": lookup not on the method schema")
                    eff.append(("lookup", x.value.func.attr, tuple(sym(ev(a_)) for a_ in x.value.args)))
                    loc["accept"] = "ACCEPT"
                elif isinstance(tgt, ast.Subscript) and flat(str(U(tgt))) == "self.kwargs[self.argname]":
                    eff.append(("kwset", sym(ev(x.value))))
                else:
                    raise P.Untranslatable(q + ": assignment " + str(U(x))[:80])
            elif isinstance(x, ast.Expr) and isinstance(x.value, ast.Call):
                f = flat(str(U(x.value.func)))
                if f == "self.args.append" and len(x.value.args) == 1:
                    eff.append(("append", sym(ev(x.value.args[0]))))
                    st["nargs"] += 1
                elif f == "self.argConstraint.checkToken" and [flat(str(U(a_))) for a_ in x.value.args] == ["typebyte", "size"]:
                    eff.append(("argcheck",))
                else:
                    raise P.Untranslatable(q + ": statement " + str(U(x))[:80])
            else:
                raise P.Untranslatable(q + ": statement " + str(U(x))[:80])
    try:
        run(fn.body)
    except _AuStop:
        pass
    except _AuRaise as r_:
        eff.append(("raise", r_.args[0]))                    # escapes the method
    return eff


def _au_reference(method, cand, st, loc):
    """what the MODEL's ArgumentUnslicer (Schema.au_child / au_close with the parameters cand) does in the same state.
    NOTE: this is a HAND-WRITTEN PYTHON COPY of the Coq definitions Schema.au_stage / au_child / au_close, not the Coq
    text itself: argument_unslicer_facts fits the parameters against THIS copy.  That the copy and the Coq definition say
    the same is not checked here; it is checked by the correspondence of harness/c02.py (framing_cases: every count /
    positional / keyword / early-close combination of 0..3 arguments, run on the real ArgumentUnslicer and on
    Schema.recv_arguments by vm_compute), which fails if either the copy or the Coq machine drifts from the code."""
    cmpf = {"SLt": lambda a, b: a < b, "SLe": lambda a, b: a <= b, "SGt": lambda a, b: a > b, "SGe": lambda a, b: a >= b,
            "SEq": lambda a, b: a == b, "SNe": lambda a, b: a != b}[cand[0]]
    zero_skips, first, asserts, nontext = cand[1:]
    N, k, name = st["numargs"], st["nargs"], st["argname"]
    acc = [("assert_accept",)] if asserts else []
    if method == "receiveChild":
        if N is None:
            t = loc["token"]
            return [("set", "numargs", "token")] + ([] if (zero_skips and t == 0) else [("lookup", "getPositionalArgConstraint", (first,))] + acc)
        if cmpf(k, N):
            return [("append", "token")] + ([("lookup", "getPositionalArgConstraint", (k + 1,))] + acc if cmpf(k + 1, N) else [])
        if name is None:
            if not loc.get("token_is_text", True):
                return [("raise", "Violation" if nontext else "UnicodeDecodeError")]
            return [("set", "argname", "token"), ("lookup", "getKeywordArgConstraint", ("token", N, "kwkeys"))] + acc
        return [("kwset", "token"), ("set", "argname", None)]
    if method == "checkToken":
        tb = loc["typebyte"]
        if N is None:
            return [("raise", "BananaError")] if tb != "INT" else []
        if cmpf(k, N):
            return [("argcheck",)]
        if name is None:
            return [("raise", "BananaError")] if tb not in ("STRING", "VOCAB") else []
        return [("argcheck",)]
    # receiveClose: only the "ended too early" test
    return [("raise", "BananaError")] if (N is None or cmpf(k, N) or name is not None) else []


def argument_unslicer_facts(cls):
    """ArgumentUnslicer.checkToken / receiveChild / receiveClose are EXECUTED statement by statement (_au_run) on every
    small concrete state (count not yet seen / 0..3, 0..4 values received, a keyword name waiting or not, count token 0 or
    2, every kind of type byte).  The parameters of the model's machine (Schema.au_child: comparison of len(args) with the
    count, whether a zero count skips the first constraint lookup, index of the first lookup, `assert accept`) are those
    for which the model performs the same effects in every state; none or several -> Untranslatable.  Rewrites that keep
    the effects (merged branches, hoisted locals, `a and b` for nested ifs) give the same parameters."""
    q = "ArgumentUnslicer"
    rc, ck, cl = (P.find_def(cls, m) for m in ("receiveChild", "checkToken", "receiveClose"))
    cl_first = [x for x in cl.body if not (isinstance(x, ast.Expr) and isinstance(x.value, ast.Constant)) and
                not (isinstance(x, ast.If) and flat(str(U(x.test))) == "self.debug")][:1]
    need(cl_first and isinstance(cl_first[0], ast.If), q + ".receiveClose does not start with the 'ended too early' test")
    close_fn = ast.FunctionDef(name="receiveClose", args=cl.args, body=cl_first, decorator_list=[])
    states = [dict(numargs=None, nargs=0, argname=None)]
    for N in (0, 1, 2, 3):
        for k in (0, 1, 2, 3, 4):
            for name in (None, "NAME"):
                states.append(dict(numargs=N, nargs=k, argname=name))
    runs = []
    for st in states:
        toks = (_Tok(0), _Tok(2)) if st["numargs"] is None else (_Tok(7),)
        for t in toks:
            runs.append(("receiveChild", rc, st, dict(token=t, ready_deferred=None)))
        if st["numargs"] is not None:
            # the token is a byte string that is not UTF-8 (only six.ensure_str looks at that)
            runs.append(("receiveChild", rc, st, dict(token=_Tok(7), ready_deferred=None, token_is_text=False)))
        for tb in ("INT", "NEG", "STRING", "VOCAB", "OPEN", "FLOAT", "LONGINT"):
            runs.append(("checkToken", ck, st, dict(typebyte=tb, size=5)))
        runs.append(("receiveClose", close_fn, st, {}))
    observed = [(m, st, loc, _au_run(fn_, dict(st), dict(loc))) for m, fn_, st, loc in runs]
    cands = [(c, z, f, a_, nt) for c in ("SLt", "SLe", "SGt", "SGe", "SEq", "SNe") for z in (True, False) for f in (0, 1)
             for a_ in (True, False) for nt in (True, False)]
    fit = [cd for cd in cands if all(_au_reference(m, cd, st, loc) == eff for m, st, loc, eff in observed)]
    if len(fit) != 1:
        why = ""
        ref = ("SLt", True, 0, True, True)
        for m, st, loc, eff in observed:
            if _au_reference(m, ref, st, loc) != eff:
                why = "; e.g. %s in state %s with %s does %s, the reference text does %s" % (
                    m, st, {k_: (int(v) if isinstance(v, _Tok) else v) for k_, v in loc.items()}, eff, _au_reference(m, ref, st, loc))
                break
        raise P.Untranslatable(q + ": %d parameter settings of the model's machine reproduce the effects of checkToken / "
                               "receiveChild / receiveClose on all %d small states%s" % (len(fit), len(observed), why))
    cmp_, zero_skips, first, asserts, nontext = fit[0]
    out = ["Definition au_pos_cmp : scmp := %s.  (* len(self.args) OP self.numargs: a positional value is still expected *)" % cmp_,
           "Definition au_count_zero_skips : bool := %s.  (* a zero count skips the first constraint lookup *)" % ("true" if zero_skips else "false"),
           "Definition au_first_index : Z := %d.  (* ms.getPositionalArgConstraint(%d) after the count *)" % (first, first),
           "Definition au_asserts_accept : bool := %s.  (* `assert accept` after every constraint lookup *)" % ("true" if asserts else "false"),
           "Definition au_nontext_name_violation : bool := %s.  (* a keyword name that is not UTF-8: six.ensure_str's "
           "UnicodeDecodeError is turned into a Violation (true) or escapes the unslicer (false) *)" % ("true" if nontext else "false")]
    st = [flat(str(U(x))) for x in P.find_def(cls, "start").body]
    for frag in ("self.numargs = None", "self.args = []", "self.kwargs = {}", "self.argname = None", "self.argConstraint = None"):
        need(frag in st, q + ".start no longer contains " + frag)
    return out


def call_unslicer_facts(cls, tokc):
    """CallUnslicer: checkToken and the head of receiveClose are EXECUTED (same evaluator as for ArgumentUnslicer) for
    every stage 0..5 and every type byte: the tables cu_tok_ok (which type bytes a stage accepts) and cu_close_ok (in
    which stages the sequence may close).  receiveChild's stage bodies are tied by fragments searched in the whole class
    (a stage may live in a helper method)."""
    q = "CallUnslicer"
    ck, cl = P.find_def(cls, "checkToken"), P.find_def(cls, "receiveClose")
    tbs = ["INT", "NEG", "STRING", "VOCAB", "OPEN", "FLOAT", "LONGINT", "LONGNEG"]
    ok = []
    for stage in range(6):
        for tb in tbs:
            eff = _au_run(ck, dict(stage=stage), dict(typebyte=tb, size=5))
            need(eff in ([], [("raise", "BananaError")]), q + ".checkToken: unexpected effects %s" % (eff,))
            if not eff:
                ok.append((stage, tokc[tb][0]))
    cl_first = [x for x in cl.body if not (isinstance(x, ast.Expr) and isinstance(x.value, ast.Constant))][:1]
    need(cl_first and isinstance(cl_first[0], ast.If), q + ".receiveClose does not start with the 'ended too early' test")
    close_fn = ast.FunctionDef(name="receiveClose", args=cl.args, body=cl_first, decorator_list=[])
    closes = []
    for stage in range(6):
        eff = _au_run(close_fn, dict(stage=stage), {})
        need(eff in ([], [("raise", "BananaError")]), q + ".receiveClose: unexpected effects %s" % (eff,))
        if not eff:
            closes.append(stage)
    out = ["Definition cu_tok_ok (stage tb : Z) : bool :=\n existsb (fun p => Z.eqb (fst p) stage && Z.eqb (snd p) tb) [%s].  "
           "(* CallUnslicer.checkToken does not raise *)" % "; ".join("(%d, %d)" % p_ for p_ in ok),
           "Definition cu_close_ok (stage : Z) : bool := existsb (Z.eqb stage) [%s].  (* receiveClose does not raise BananaError *)"
           % "; ".join(str(x) for x in closes)]
    src = Src(U(cls))
    for frag in ("self.reqID = token", "self.stage = 1", "assert self.reqID not in self.broker.activeLocalCalls",
                 "self.objID = token", "try:\n self.obj = self.broker.getMyReferenceByCLID(token)\n except KeyError:\n raise Violation(",
                 "if self.objID < 0:\n self.interface = None\n else:\n self.interface = self.obj.getInterface()", "self.stage = 2",
                 "self.stage = 3", "self.methodSchema = getattr(self.obj, 'methodSchema', None)", "self.methodname = None",
                 "if self.broker.requireSchema and (not self.methodSchema):", "ms = self.interface.get(self.methodname)",
                 "if not ms:", "self.methodSchema = ms", "assert isinstance(token, ArgumentUnslicer)", "self.allargs = token", "self.stage = 4",
                 "assert self.stage == 3", "if self.methodSchema:\n unslicer.setConstraint(self.methodSchema)",
                 "delivery = InboundDelivery(self.broker, self.reqID, self.obj, self.interface, self.methodname, self.methodSchema, self.allargs)",
                 "if self.stage > 0:\n self.broker.callFailed(f, self.reqID)"):
        need(frag in src, q + " no longer contains: " + frag)
    return out


def _codec_call(e, recv, meth, q):
    """`<recv>.<meth>("UTF-8"[, errors])` -> the error handler ("strict" when absent); anything else: Untranslatable"""
    need(isinstance(e, ast.Call) and isinstance(e.func, ast.Attribute) and e.func.attr == meth and flat(str(U(e.func.value))) == recv,
         q + ": not %s.%s(..): %s" % (recv, meth, str(U(e))[:80]))
    args = list(e.args)
    kws = {k.arg: k.value for k in e.keywords}
    need(set(kws) <= {"encoding", "errors"} and len(args) <= 2 and not (len(args) >= 1 and "encoding" in kws) and
         not (len(args) == 2 and "errors" in kws), q + ": arguments of " + str(U(e))[:80])
    enc = args[0] if args else kws.get("encoding")
    need(isinstance(enc, ast.Constant) and isinstance(enc.value, str) and enc.value.lower().replace("_", "-") in ("utf-8", "utf8"),
         q + ": the codec is not the constant UTF-8: " + str(U(e))[:80])
    err = args[1] if len(args) == 2 else kws.get("errors")
    if err is None:
        return "strict"
    need(isinstance(err, ast.Constant) and isinstance(err.value, str), q + ": error handler is not a constant")
    return err.value


def unicode_codec_facts(mod):
    """UnicodeSlicer.sliceBody and UnicodeUnslicer.receiveChild: which texts get a wire form, and which bodies are
    accepted back.  Accepted forms of sliceBody (docstring / comments apart):
        try: encoded = self.obj.encode("UTF-8")                       (R: the reference text)
        except UnicodeEncodeError: raise Violation(..)
        yield encoded
      | yield self.obj.encode("UTF-8")                                (B: the UnicodeEncodeError escapes)
      | either of them with errors="surrogatepass"                    (L: a lone surrogate is SENT, as its 3-byte form)
    unicode_slicer_refuses_unencodable is true for R with the strict handler only.  Every other error handler (replace,
    ignore, surrogateescape, ..) sends ANOTHER text than the one given and is not modelled: Untranslatable.
    receiveChild must assign self.string = obj.decode("UTF-8") once, either bare (the UnicodeDecodeError of a body that
    is not UTF-8 escapes: connection lost) or as the only statement of `try: .. except UnicodeDecodeError: raise
    Violation(..)`; errors="surrogatepass" there makes the decoder lenient."""
    q = "UnicodeSlicer.sliceBody"
    fn = P.find_def(mod, "UnicodeSlicer.sliceBody")
    body = [x for x in fn.body if not (isinstance(x, ast.Expr) and isinstance(x.value, ast.Constant))]
    need(not any(isinstance(n, (ast.Return, ast.YieldFrom)) for n in ast.walk(fn)) and
         len([n for n in ast.walk(fn) if isinstance(n, ast.Yield)]) == 1, q + ": not exactly one yield")
    if len(body) == 1:
        need(isinstance(body[0], ast.Expr) and isinstance(body[0].value, ast.Yield), q + ": statement " + str(U(body[0]))[:80])
        handler = _codec_call(body[0].value.value, "self.obj", "encode", q)
        refuses = False
    else:
        need(len(body) == 2 and isinstance(body[0], ast.Try) and flat(str(U(body[1]))) == "yield encoded", q + ": not `try: ..; yield encoded`")
        t = body[0]
        need(len(t.body) == 1 and isinstance(t.body[0], ast.Assign) and len(t.body[0].targets) == 1 and
             flat(str(U(t.body[0].targets[0]))) == "encoded" and not t.orelse and not t.finalbody and len(t.handlers) == 1 and
             t.handlers[0].type is not None and flat(str(U(t.handlers[0].type))) == "UnicodeEncodeError" and
             len(t.handlers[0].body) == 1 and isinstance(t.handlers[0].body[0], ast.Raise) and
             isinstance(t.handlers[0].body[0].exc, ast.Call) and flat(str(U(t.handlers[0].body[0].exc.func))) == "Violation",
             q + ": the try statement is not `encoded = ..` / except UnicodeEncodeError: raise Violation(..)")
        handler = _codec_call(t.body[0].value, "self.obj", "encode", q)
        refuses = handler == "strict"
    need(handler in ("strict", "surrogatepass"), q + ": error handler %r sends another text than the one given" % handler)
    out = ["Definition unicode_slicer_refuses_unencodable : bool := %s.  (* UnicodeSlicer.sliceBody: encode(\"UTF-8\", %s)%s *)"
           % ("true" if refuses else "false", handler,
              ", UnicodeEncodeError -> Violation for that one object" if refuses else
              ": a lone surrogate is sent in its three-byte form" if handler == "surrogatepass" else ": the UnicodeEncodeError escapes")]
    q = "UnicodeUnslicer.receiveChild"
    rc = P.find_def(mod, "UnicodeUnslicer.receiveChild")
    sites = [n for n in ast.walk(rc) if isinstance(n, ast.Assign) and len(n.targets) == 1 and flat(str(U(n.targets[0]))) == "self.string"]
    need(len(sites) == 1, q + ": expected one assignment to self.string")
    handler = _codec_call(sites[0].value, "obj", "decode", q)
    need(handler in ("strict", "surrogatepass"), q + ": error handler %r delivers another text than the one sent" % handler)
    tries = [n for n in ast.walk(rc) if isinstance(n, ast.Try)]
    guarded_ = False
    if tries:
        need(len(tries) == 1 and len(tries[0].body) == 1 and tries[0].body[0] is sites[0] and not tries[0].orelse and
             not tries[0].finalbody and len(tries[0].handlers) == 1 and tries[0].handlers[0].type is not None and
             flat(str(U(tries[0].handlers[0].type))) == "UnicodeDecodeError" and len(tries[0].handlers[0].body) == 1 and
             isinstance(tries[0].handlers[0].body[0], ast.Raise) and isinstance(tries[0].handlers[0].body[0].exc, ast.Call) and
             flat(str(U(tries[0].handlers[0].body[0].exc.func))) == "Violation", q + ": unrecognised try statement")
        guarded_ = True
    else:
        need(any(x is sites[0] for x in rc.body), q + ": self.string is not assigned by a top-level statement")
    out.append("Definition unicode_unslicer_strict_decode : bool := %s.  (* UnicodeUnslicer.receiveChild: obj.decode(\"UTF-8\", %s) *)"
               % ("true" if handler == "strict" else "false", handler))
    out.append("Definition unicode_unslicer_undecodable_violation : bool := %s.  (* a body that is not UTF-8: the "
               "UnicodeDecodeError is turned into a Violation (true) / escapes the unslicer (false) *)" % ("true" if guarded_ else "false"))
    return out


def ensure_str_site(cls, stmt, q):
    """the one assignment `stmt` (e.g. self.url = six.ensure_str(obj)) inside class cls: True when it is the only statement
    of `try: .. except UnicodeDecodeError: raise Violation(..)`, False when no try statement encloses it (the
    UnicodeDecodeError of a byte string that is not UTF-8 escapes the unslicer); anything else: Untranslatable"""
    sites = [n for n in ast.walk(cls) if isinstance(n, ast.Assign) and flat(str(U(n))) == stmt]
    need(len(sites) == 1, q + ": expected exactly one `%s`" % stmt)
    guards = [n for n in ast.walk(cls) if isinstance(n, ast.Try) and len(n.body) == 1 and n.body[0] is sites[0]]
    if guards:
        t_ = guards[0]
        need(not t_.orelse and not t_.finalbody and len(t_.handlers) == 1 and t_.handlers[0].type is not None and
             flat(str(U(t_.handlers[0].type))) == "UnicodeDecodeError" and t_.handlers[0].name is None and len(t_.handlers[0].body) == 1 and
             isinstance(t_.handlers[0].body[0], ast.Raise) and isinstance(t_.handlers[0].body[0].exc, ast.Call) and
             flat(str(U(t_.handlers[0].body[0].exc.func))) == "Violation" and t_.handlers[0].body[0].cause is None,
             q + ": the handler around `%s` changed" % stmt)
        return True
    need(not any(isinstance(n, ast.Try) and any(m is sites[0] for m in ast.walk(n)) for n in ast.walk(cls)),
         q + ": `%s` stands inside an unrecognised try statement" % stmt)
    return False


OT = {"list": "OtList", "tuple": "OtTuple", "set": "OtSet", "immutable-set": "OtFset", "dict": "OtDict",
      "unicode": "OtUnicode", "boolean": "OtBool", "none": "OtNone", "my-reference": "OtMyRef", "their-reference": "OtTheirRef"}


def generate():
    out = [P.PRELUDE % dict(src="constraint.py, schema.py, slicers/*.py, remoteinterface.py, call.py, broker.py, banana.py")]
    out.append("Require Import Verif.gen.BananaGen.")
    out.append("Inductive scmp := SGt | SGe | SLt | SLe | SEq | SNe.")
    out.append("Inductive otype := OtList | OtTuple | OtSet | OtFset | OtDict | OtUnicode | OtBool | OtNone | OtMyRef | OtTheirRef.")
    tokc = P.module_consts(P.load("tokens.py"))
    for n in TOKNAMES:
        need(isinstance(tokc.get(n), bytes) and len(tokc[n]) == 1, "tokens.%s" % n)

    cm = P.load("constraint.py")
    # ---------------------------------------------------------------- IntegerConstraint.checkObject
    ico = P.find_def(cm, "IntegerConstraint.checkObject")
    need(len(ico.body) == 2, "IntegerConstraint.checkObject: expected a type test and a range test")
    ty, rng = ico.body
    need(isinstance(ty, ast.If) and U(ty.test) == "isinstance(obj, bool) or not isinstance(obj, int)" and
         raises(ty.body, "Violation") and not ty.orelse,
         "IntegerConstraint.checkObject: type test changed: " + U(ty.test if isinstance(ty, ast.If) else ty))
    out.append("Definition int_rejects_bool : bool := true.  (* `isinstance(obj, bool) or not isinstance(obj, int)` -> Violation *)")
    need(isinstance(rng, ast.If) and U(rng.test) == "self.maxBytes == -1" and len(rng.orelse) == 1 and
         isinstance(rng.orelse[0], ast.If) and U(rng.orelse[0].test) == "self.maxBytes != None" and not rng.orelse[0].orelse,
         "IntegerConstraint.checkObject: dispatch on maxBytes changed")
    mconsts = module_int_consts(cm)
    spec = dict(params=dict(obj=P.Z), ret=P.U, consts=mconsts)
    out.append(P.translate_block("int_check_32", rng.body, ["obj"], spec))
    spec = dict(params=dict(obj=P.Z), ret=P.U, attrs=dict(maxBytes=P.Z), consts=mconsts)
    out.append(P.translate_block("int_check_mb", rng.orelse[0].body, ["obj"], spec))
    out.append("Definition int_check (obj : Z) (maxBytes : option Z) : res unit :=\n"
               " match maxBytes with None => Ok tt | Some mb => if Z.eqb mb (-1) then int_check_32 obj else int_check_mb obj mb end.")
    nco = P.find_def(cm, "NumberConstraint.checkObject")
    need(U(nco).split("\n", 1)[1].strip() ==
         "if isinstance(obj, float):\n        return\n    IntegerConstraint.checkObject(self, obj, inbound)",
         "NumberConstraint.checkObject changed")
    # __init__ assertions = well-formedness of maxBytes
    ii = P.find_def(cm, "IntegerConstraint.__init__")
    need(U(ii.body[0]) == "assert maxBytes == -1 or maxBytes == None or maxBytes >= 4",
         "IntegerConstraint.__init__ assertion changed")
    out.append("Definition int_maxBytes_min : Z := 4.")
    # tasters
    need(U(ii.body[2]) == "self.taster = {INT: None, NEG: None}" and isinstance(ii.body[3], ast.If) and
         U(ii.body[3].test) == "maxBytes != -1" and
         [U(s) for s in ii.body[3].body] == ["self.taster[LONGINT] = maxBytes", "self.taster[LONGNEG] = maxBytes"] and
         len(ii.body) == 4, "IntegerConstraint.__init__ taster construction changed")
    out.append("Definition int_taster (maxBytes : option Z) : list (Z * option Z) :=\n"
               " [(%d, None); (%d, None)] ++ (match maxBytes with Some (-1) => [] | _ => [(%d, maxBytes); (%d, maxBytes)] end)."
               % (tokc["INT"][0], tokc["NEG"][0], tokc["LONGINT"][0], tokc["LONGNEG"][0]))
    ni = P.find_def(cm, "NumberConstraint.__init__")
    need([U(s) for s in ni.body] == ["assert maxBytes != -1", "IntegerConstraint.__init__(self, maxBytes)",
                                     "self.taster[FLOAT] = None"], "NumberConstraint.__init__ changed")
    out.append("Definition number_taster (maxBytes : option Z) : list (Z * option Z) := int_taster maxBytes ++ [(%d, None)]."
               % tokc["FLOAT"][0])
    bi = P.find_def(cm, "ByteStringConstraint.__init__")
    tass = [s for s in bi.body if isinstance(s, ast.Assign) and U(s.targets[0]) == "self.taster"]
    need(len(tass) == 1, "ByteStringConstraint.__init__ taster")
    out.append("Definition bytes_taster (maxLength : option Z) : list (Z * option Z) := %s."
               % taster_literal(tass[0].value, tokc, {"self.maxLength": "maxLength"}))
    for nm in ("everythingTaster", "openTaster", "nothingTaster"):
        node = [s for s in cm.body if isinstance(s, ast.Assign) and U(s.targets[0]) == nm]
        need(len(node) == 1, nm)
        out.append("Definition %s : list (Z * option Z) := %s." %
                   (nm, taster_literal(node[0].value, tokc, {"SIZE_LIMIT": "(Some %d)" % tokc["SIZE_LIMIT"]})))
    # ---------------------------------------------------------------- Constraint.checkToken
    ct = P.find_def(cm, "Constraint.checkToken")
    body = [s for s in ct.body if not (isinstance(s, ast.Expr) and isinstance(s.value, ast.Constant))]
    need(len(body) == 3 and U(body[0]) == "limit = self.taster.get(typebyte, 'not in list')" and
         isinstance(body[1], ast.If) and U(body[1].test) == "limit == 'not in list'" and
         isinstance(body[1].body[0], ast.If) and U(body[1].body[0].test) == "self.strictTaster" and
         raises(body[1].body[0].body, "BananaError") and raises(body[1].body[0].orelse, "Violation") and
         isinstance(body[2], ast.If) and raises(body[2].body, "Violation"), "Constraint.checkToken changed shape")
    t = body[2].test
    need(isinstance(t, ast.BoolOp) and isinstance(t.op, ast.And) and len(t.values) == 2 and
         U(t.values[0]) in ("limit", "limit is not None", "limit != None") and
         isinstance(t.values[1], ast.Compare) and U(t.values[1].left) == "size" and U(t.values[1].comparators[0]) == "limit",
         "Constraint.checkToken: size test changed: " + U(t))
    out.append("Definition token_size_cmp : scmp := %s.   (* `%s` -> Violation *)" % (CMP[type(t.values[1].ops[0])], U(t)))
    out.append("Definition token_limit_zero_unlimited : bool := %s.  (* guard `%s`: is a limit of 0 treated as no limit? *)"
               % ("true" if U(t.values[0]) == "limit" else "false", U(t.values[0])))
    poly_loop(P.find_def(P.load("schema.py"), "PolyConstraint.checkToken"), "PolyConstraint.checkToken", "checkToken",
              ["typebyte", "size"], ["Violation", "BananaError"])
    poly_loop(P.find_def(P.load("schema.py"), "PolyConstraint.checkObject"), "PolyConstraint.checkObject", "checkObject",
              ["obj", "inbound"], ["Violation"])
    need(class_attr(P.find_class(P.load("schema.py"), "PolyConstraint"), "opentypes") is None and
         not any(isinstance(n, ast.FunctionDef) and n.name == "checkOpentype"
                 for n in P.find_class(P.load("schema.py"), "PolyConstraint").body),
         "PolyConstraint now restricts opentypes")

    # ---------------------------------------------------------------- length comparisons of the checkObjects
    def emit_cmp(name, op, optional, comment):
        out.append("Definition %s : scmp := %s.  (* %s%s *)" % (name, op, comment, " (only when not None)" if optional else ""))
    sl = {k: P.load("slicers/%s.py" % k) for k in ("list", "tuple", "dict", "set", "unicode", "bool", "none")}
    bco = P.find_def(cm, "ByteStringConstraint.checkObject")
    need(U(bco.body[0].test) == "not isinstance(obj, bytes)", "ByteStringConstraint.checkObject type test")
    op, o = len_guard(bco, "ByteStringConstraint", "maxLength"); need(o, "bytes maxLength not optional"); emit_cmp("bytes_max_cmp", op, o, "len(obj) OP maxLength -> Violation")
    op, o = len_guard(bco, "ByteStringConstraint", "minLength"); need(not o, "bytes minLength optional"); emit_cmp("bytes_min_cmp", op, o, "len(obj) OP minLength -> Violation")
    uco = P.find_def(sl["unicode"], "UnicodeConstraint.checkObject")
    need(U(uco.body[0].test) == "not isinstance(obj, str)", "UnicodeConstraint.checkObject type test")
    op, o = len_guard(uco, "UnicodeConstraint", "maxLength"); need(o, "text maxLength"); emit_cmp("text_max_cmp", op, o, "len(obj) OP maxLength")
    op, o = len_guard(uco, "UnicodeConstraint", "minLength"); need(not o, "text minLength"); emit_cmp("text_min_cmp", op, o, "len(obj) OP minLength")
    lco = P.find_def(sl["list"], "ListConstraint.checkObject")
    need(U(lco.body[0].test) == "not isinstance(obj, list)" and "for o in obj:\n        self.constraint.checkObject(o, inbound)" in U(lco),
         "ListConstraint.checkObject changed")
    op, o = len_guard(lco, "ListConstraint", "maxLength"); need(o, "list maxLength"); emit_cmp("list_max_cmp", op, o, "len(obj) OP maxLength")
    op, o = len_guard(lco, "ListConstraint", "minLength"); need(not o, "list minLength"); emit_cmp("list_min_cmp", op, o, "len(obj) OP minLength")
    tco = P.find_def(sl["tuple"], "TupleConstraint.checkObject")
    need(U(tco.body[0].test) == "not isinstance(obj, tuple)" and U(tco.body[1].test) == "len(obj) != len(self.constraints)" and
         raises(tco.body[1].body, "Violation") and
         "for i in range(len(self.constraints)):\n        self.constraints[i].checkObject(obj[i], inbound)" in U(tco),
         "TupleConstraint.checkObject changed")
    out.append("Definition tuple_len_cmp : scmp := SNe.  (* len(obj) != len(self.constraints) -> Violation *)")
    dco = P.find_def(sl["dict"], "DictConstraint.checkObject")
    need(U(dco.body[0].test) == "not isinstance(obj, dict)" and "self.keyConstraint.checkObject(key, inbound)" in U(dco)
         and "self.valueConstraint.checkObject(value, inbound)" in U(dco), "DictConstraint.checkObject changed")
    op, o = len_guard(dco, "DictConstraint", "maxKeys"); need(o, "dict maxKeys"); emit_cmp("dict_max_cmp", op, o, "len(obj) OP maxKeys")
    sco = P.find_def(sl["set"], "SetConstraint.checkObject")
    need(U(sco.body[0].test) == "not isinstance(obj, (set, frozenset))" and
         U(sco.body[1].test) == "self.mutable == True and (not isinstance(obj, set))" and
         U(sco.body[2].test) == "self.mutable == False and (not isinstance(obj, frozenset))" and
         "self.constraint.checkObject(o, inbound)" in U(sco), "SetConstraint.checkObject changed: " + U(sco.body[1].test))
    op, o = len_guard(sco, "SetConstraint", "maxLength"); need(o, "set maxLength"); emit_cmp("set_max_cmp", op, o, "len(obj) OP maxLength")
    bco2 = P.find_def(sl["bool"], "BooleanConstraint.checkObject")
    need(U(bco2.body[0].test) == "type(obj) != bool" and U(bco2.body[1].test) == "self.value != None" and
         U(bco2.body[1].body[0].test) == "obj != self.value", "BooleanConstraint.checkObject changed")
    nco2 = P.find_def(sl["none"], "Nothing.checkObject")
    need(U(nco2.body[0].test) == "obj is not None" and raises(nco2.body[0].body, "Violation"), "Nothing.checkObject changed")
    need(not any(isinstance(n, ast.FunctionDef) and n.name == "checkObject" for n in P.find_class(cm, "Optional").body) and
         not any(isinstance(n, ast.FunctionDef) and n.name == "checkObject" for n in P.find_class(cm, "Any").body) and
         [U(s) for s in P.find_def(cm, "Constraint.checkObject").body[1:]] == ["return"],
         "Any / Optional / Constraint.checkObject no longer accept everything")

    # ---------------------------------------------------------------- "container is full" tests of the unslicers
    lu = P.find_class(sl["list"], "ListUnslicer")
    emit_cmp("list_full_cmp", full_guard(lu, "ListUnslicer", ["checkToken", "doOpen", "receiveChild"],
                                         "len(self.list)", "self.maxLength", "maxLength"), True, "len(self.list) OP maxLength -> Violation")
    tu = P.find_class(sl["tuple"], "TupleUnslicer")
    a = full_guard(tu, "TupleUnslicer", ["checkToken"], "len(self.list)", "len(self.constraints)", None)
    b = full_guard(tu, "TupleUnslicer", ["doOpen"], "where", "len(self.constraints)", None)
    need(a == b and "where = len(self.list)" in U(P.find_def(tu, "doOpen")), "TupleUnslicer fullness tests disagree")
    emit_cmp("tuple_full_cmp", a, False, "len(self.list) OP len(constraints) -> Violation")
    need("checkComplete" in U(tu) and "len(self.constraints)" not in U(P.find_def(tu, "receiveClose")) and
         "len(self.constraints)" not in U(P.find_def(tu, "complete")), "TupleUnslicer now checks arity at close")
    out.append("Definition tuple_close_checks_arity : bool := false.  (* receiveClose/complete never compare with len(constraints) *)")
    du = P.find_class(sl["dict"], "DictUnslicer")
    emit_cmp("dict_full_cmp", full_guard(du, "DictUnslicer", ["checkToken", "doOpen"], "len(self.d)", "self.maxKeys", "maxKeys"),
             True, "len(self.d) OP maxKeys -> Violation")
    su = P.find_class(sl["set"], "SetUnslicer")
    emit_cmp("set_full_cmp", full_guard(su, "SetUnslicer", ["checkToken", "doOpen", "receiveChild"], "len(self.set)",
                                        "self.maxLength", "maxLength"), True, "len(self.set) OP maxLength -> Violation")
    fu = P.find_class(sl["set"], "FrozenSetUnslicer")
    emit_cmp("fset_full_cmp", full_guard(fu, "FrozenSetUnslicer", ["checkToken", "doOpen"], "len(self.list)",
                                         "self.maxLength", "maxLength"), True, "len(self.list) OP maxLength -> Violation")

    # ---------------------------------------------------------------- setConstraint assertions (shape facts)
    want = [("list", lu, "ListConstraint"), ("tuple", tu, "TupleConstraint"), ("dict", du, "DictConstraint"),
            ("set", su, "SetConstraint"), ("immutable-set", fu, "SetConstraint"),
            ("unicode", P.find_class(sl["unicode"], "UnicodeUnslicer"), "UnicodeConstraint"),
            ("boolean", P.find_class(sl["bool"], "BooleanUnslicer"), "BooleanConstraint")]
    for ot, cls, cname in want:
        need(P.const_expr(class_attr(cls, "opentype")) == (ot,), "%s.opentype" % cls.name)
        sc = P.find_def(cls, "setConstraint")
        need([U(s) for s in sc.body[:2]] == ["if isinstance(constraint, Any):\n    return",
                                             "assert isinstance(constraint, %s)" % cname],
             "%s.setConstraint no longer is `Any -> return; assert isinstance(constraint, %s)`" % (cls.name, cname))
    nu = P.find_class(sl["none"], "NoneUnslicer")
    need(not any(isinstance(n, ast.FunctionDef) and n.name == "setConstraint" for n in nu.body), "NoneUnslicer.setConstraint")
    out.append("Definition setConstraint_asserts_exact_class : bool := true.  "
               "(* list/tuple/dict/set/immutable-set/unicode/boolean unslicers: Any -> unconstrained, else assert isinstance *)")
    # child unslicers' own token checks
    uu = P.find_def(sl["unicode"], "UnicodeUnslicer.checkToken")
    need(len(uu.body) in (1, 2) and
         U(uu.body[0]) == "if typebyte not in (STRING, VOCAB):\n    raise BananaError('UnicodeUnslicer only accepts strings')",
         "UnicodeUnslicer.checkToken: type test changed")
    if len(uu.body) == 1:
        out.append("Definition unicode_unslicer_checks_size : bool := false.  (* checkToken ignores self.constraint *)")
        out.append("Definition unicode_size_factor : Z := 0.")
        out.append("Definition unicode_size_cmp : scmp := SGt.")
    else:
        g = uu.body[1]
        need(isinstance(g, ast.If) and raises(g.body, "Violation") and not g.orelse and isinstance(g.test, ast.BoolOp) and
             isinstance(g.test.op, ast.And) and
             [U(v) for v in g.test.values[:3]] == ["typebyte == STRING", "self.constraint is not None",
                                                   "self.constraint.maxLength is not None"] and len(g.test.values) == 4,
             "UnicodeUnslicer.checkToken: size guard changed: " + U(g.test))
        cmpn = g.test.values[3]
        need(isinstance(cmpn, ast.Compare) and U(cmpn.left) == "size" and len(cmpn.ops) == 1 and type(cmpn.ops[0]) in CMP and
             isinstance(cmpn.comparators[0], ast.BinOp) and isinstance(cmpn.comparators[0].op, ast.Mult) and
             isinstance(cmpn.comparators[0].left, ast.Constant) and isinstance(cmpn.comparators[0].left.value, int) and
             U(cmpn.comparators[0].right) == "self.constraint.maxLength", "UnicodeUnslicer.checkToken: size comparison: " + U(cmpn))
        out.append("Definition unicode_unslicer_checks_size : bool := true.  (* `%s` -> Violation *)" % U(g.test))
        out.append("Definition unicode_size_factor : Z := %d." % cmpn.comparators[0].left.value)
        out.append("Definition unicode_size_cmp : scmp := %s." % CMP[type(cmpn.ops[0])])
    out.extend(unicode_codec_facts(sl["unicode"]))
    bu = P.find_def(sl["bool"], "BooleanUnslicer.receiveChild")
    need("if bool(obj) != self.constraint.value:\n                raise Violation" in U(bu).replace("    raise", "raise").replace(
        "if bool(obj) != self.constraint.value:\n            raise", "if bool(obj) != self.constraint.value:\n                raise")
         or "bool(obj) != self.constraint.value" in U(bu), "BooleanUnslicer.receiveChild value test changed")
    need("self.value = bool(obj)" in U(bu), "BooleanUnslicer.receiveChild")
    bct = P.find_def(sl["bool"], "BooleanUnslicer.checkToken")
    need("if typebyte != tokens.INT" in U(bct) and "if self.value != None" in U(bct) and U(bct).count("BananaError") == 2,
         "BooleanUnslicer.checkToken changed")
    need("raise BananaError" in U(P.find_def(sl["none"], "NoneUnslicer.checkToken")), "NoneUnslicer.checkToken")

    # ---------------------------------------------------------------- strictTaster / opentypes / taster per class
    def clsinfo(mod, name):
        cls = P.find_class(mod, name)
        st = class_attr(cls, "strictTaster")
        return cls, (st is not None and isinstance(st, ast.Constant) and st.value is True)
    base_strict = class_attr(P.find_class(cm, "Constraint"), "strictTaster")
    need(isinstance(base_strict, ast.Constant) and base_strict.value is False, "Constraint.strictTaster default")
    need(U(class_attr(P.find_class(cm, "Constraint"), "taster")) == "everythingTaster" and
         U(class_attr(P.find_class(cm, "OpenerConstraint"), "taster")) == "openTaster" and
         isinstance(class_attr(P.find_class(cm, "Constraint"), "opentypes"), ast.Constant), "Constraint/OpenerConstraint taster")
    rows = [("Any", cm, "Any"), ("Int", cm, "IntegerConstraint"), ("Number", cm, "NumberConstraint"),
            ("Bytes", cm, "ByteStringConstraint"), ("Text", sl["unicode"], "UnicodeConstraint"),
            ("Bool", sl["bool"], "BooleanConstraint"), ("None", sl["none"], "Nothing"),
            ("List", sl["list"], "ListConstraint"), ("Tuple", sl["tuple"], "TupleConstraint"),
            ("Dict", sl["dict"], "DictConstraint"), ("Set", sl["set"], "SetConstraint"),
            ("Choice", P.load("schema.py"), "PolyConstraint"), ("Opt", cm, "Optional"),
            ("Remote", P.load("remoteinterface.py"), "RemoteInterfaceConstraint")]
    opener = {"Text", "Bool", "None", "List", "Tuple", "Dict", "Set", "Remote"}
    for short, mod, name in rows:
        cls, strict = clsinfo(mod, name)
        bases = [U(b) for b in cls.bases]
        if short in opener:
            need(bases == ["OpenerConstraint"] and class_attr(cls, "taster") is None, "%s is no longer a plain OpenerConstraint" % name)
        elif short == "Number":
            need(bases == ["IntegerConstraint"], "NumberConstraint base")
        else:
            need(bases == ["Constraint"], "%s base" % name)
            if short in ("Any", "Choice", "Opt"):
                need(class_attr(cls, "taster") is None, "%s.taster" % name)
        out.append("Definition strict_%s : bool := %s." % (short, "true" if strict else "false"))
        if short == "Number":
            ots = opentypes_of(P.find_class(cm, "IntegerConstraint"), "IntegerConstraint")
        elif short in ("Any", "Choice", "Opt"):
            need(class_attr(cls, "opentypes") is None, "%s.opentypes" % name)
            ots = None
        else:
            ots = opentypes_of(cls, name)
        if ots is None:
            out.append("Definition opentypes_%s : option (list otype) := None." % short)
        else:
            for o_ in ots:
                need(o_ in OT, "%s: opentype %r outside the model" % (name, o_))
            out.append("Definition opentypes_%s : option (list otype) := Some [%s]." % (short, "; ".join(OT[o_] for o_ in ots)))
    read_checkOpentype(P.find_def(cm, "Constraint.checkOpentype"))

    # ---------------------------------------------------------------- sendToken's integer branch as (typebyte, size)
    st = P.find_def(P.load("banana.py"), "Banana.sendToken")
    ifs = [n for n in st.body if isinstance(n, ast.If)]
    need(len(ifs) == 1 and U(ifs[0].test) == "isinstance(obj, int)", "sendToken: first branch")
    fn = P.Fn("int_token", None, dict(params={}), body=[], params=[])
    env = {"obj": P.Z}
    branches = []
    node = ifs[0].body
    while True:
        need(len(node) == 1 and isinstance(node[0], ast.If), "sendToken integer branch is not an if/elif chain")
        n = node[0]
        branches.append((fn.cond(n.test, env), n.body))
        if len(n.orelse) == 1 and isinstance(n.orelse[0], ast.If):
            node = n.orelse
        else:
            branches.append((None, n.orelse))
            break

    def branch_pair(body):
        srcs = [U(s) for s in body]
        wr = [s for s in srcs if s.startswith("write(") and s[6:-1] in TOKNAMES]
        need(len(wr) == 1, "sendToken: branch does not write exactly one type byte: %s" % srcs)
        tb = tokc[wr[0][6:-1]][0]
        i2 = [s for s in body if isinstance(s, ast.Expr) and isinstance(s.value, ast.Call) and U(s.value.func) == "int2b128"]
        need(len(i2) == 1 and U(i2[0].value.args[1]) == "write", "sendToken: branch header")
        arg = i2[0].value.args[0]
        if U(arg) == "len(s)":
            asg = [s for s in body if isinstance(s, ast.Assign) and U(s.targets[0]) == "s"]
            need(len(asg) == 1 and isinstance(asg[0].value, ast.Call) and U(asg[0].value.func) == "long_to_bytes" and
                 srcs[-1] == "write(s)", "sendToken: long branch")
            return "(%d, bytelen %s)" % (tb, fn.exZ(asg[0].value.args[0], env))
        need(srcs[-1] == wr[0], "sendToken: short branch writes a body")
        return "(%d, %s)" % (tb, fn.exZ(arg, env))
    txt = ""
    for cnd, body in branches:
        if cnd is None:
            txt += branch_pair(body)
        else:
            txt += "if %s then %s else " % (cnd, branch_pair(body))
    out.append("Definition bytelen (n : Z) : Z := match long_to_bytes n with Ok s => Z.of_nat (List.length s) | Exc _ => 0 end.")
    out.append("Definition int_token (obj : Z) : Z * Z :=\n %s." % txt)

    # ---------------------------------------------------------------- remoteinterface.checkAllArgs, broker._doCall, call.py
    rm = P.load("remoteinterface.py")
    caa = P.find_def(rm, "RemoteMethodSchema.checkAllArgs")
    s = U(caa)
    t0 = [n for n in ast.walk(caa) if isinstance(n, ast.If) and U(n.test).startswith("len(args)")]
    need(len(t0) == 1 and isinstance(t0[0].test, ast.Compare) and U(t0[0].test.comparators[0]) == "len(self.argumentNames)" and
         raises(t0[0].body, "Violation"), "checkAllArgs: positional count test")
    out.append("Definition args_count_cmp : scmp := %s.  (* len(args) OP len(self.argumentNames) -> Violation *)" %
               CMP[type(t0[0].test.ops[0])])
    for frag in ("allargs[self.argumentNames[i]] = argvalue", "if argname in allargs:\n            raise Violation",
                 "accept, constraint = self.getKeywordArgConstraint(argname)", "constraint.checkObject(argvalue, inbound)",
                 "for argname in self.required:\n        if argname not in allargs:\n            raise Violation"):
        need(frag in s, "checkAllArgs no longer contains: " + frag)
    gk = U(P.find_def(rm, "RemoteMethodSchema.getKeywordArgConstraint"))
    for frag in ("previous_args = self.argumentNames[:num_posargs]", "if argname in previous_args:\n        raise Violation",
                 "c = self.argConstraints.get(argname)", "if isinstance(c, Optional):\n            c = c.constraint",
                 "raise Violation(\"unknown argument '%s'\" % argname)"):
        need(frag in gk, "getKeywordArgConstraint no longer contains: " + frag)
    gp = P.find_def(rm, "RemoteMethodSchema.getPositionalArgConstraint")
    t1 = gp.body[0]
    need(isinstance(t1, ast.If) and isinstance(t1.test, ast.Compare) and U(t1.test.left) == "argnum" and
         U(t1.test.comparators[0]) == "len(self.argumentNames)" and raises(t1.body, "Violation"),
         "getPositionalArgConstraint: range test")
    out.append("Definition posarg_full_cmp : scmp := %s.  (* argnum OP len(self.argumentNames) -> Violation *)" %
               CMP[type(t1.test.ops[0])])
    need("if not isinstance(constraint, Optional):\n            self.required.append(argname)" in
         U(P.find_def(rm, "RemoteMethodSchema.initFromMethod")), "initFromMethod: required")

    # dominance in _doCall: the check is a top-level statement of the function, guarded only by `if delivery.methodSchema`,
    # placed before the (only) two invocations, on the names args/kwargs bound once from delivery.allargs
    dc = P.find_def(P.load("broker.py"), "Broker._doCall")
    stm = [x for x in dc.body if not (isinstance(x, ast.Expr) and isinstance(x.value, ast.Constant))]
    srcs = [U(x) for x in stm]
    need("args = delivery.allargs.args" in srcs and "kwargs = delivery.allargs.kwargs" in srcs, "_doCall: args/kwargs binding")
    idx_check = [i for i, x in enumerate(srcs) if x == "if delivery.methodSchema:\n    delivery.methodSchema.checkAllArgs(args, kwargs, True)"]
    invs = [(i, n) for i, x in enumerate(stm) for n in ast.walk(x) if isinstance(n, ast.Call) and
            (U(n.func) == "obj" or U(n.func).endswith("doRemoteCall"))]
    need(len(invs) == 2, "_doCall: expected exactly two invocations of the target")
    need(sorted(str(U(n)) for _, n in invs) == ["obj(*args, **kwargs)", "obj.doRemoteCall(delivery.methodname, args, kwargs)"],
         "_doCall: invocations no longer pass args/kwargs: %s" % [str(U(n)) for _, n in invs])
    checked = len(idx_check) == 1 and all(i > idx_check[0] for i, _ in invs)
    rebind = [n for x in stm[max(srcs.index("args = delivery.allargs.args"), srcs.index("kwargs = delivery.allargs.kwargs")) + 1:]
              for n in ast.walk(x) if isinstance(n, (ast.Assign, ast.AugAssign)) and
              any(isinstance(t, ast.Name) and t.id in ("args", "kwargs") for t in ast.walk(n))
              and any(isinstance(t, ast.Name) and t.id in ("args", "kwargs") and isinstance(t.ctx, ast.Store) for t in ast.walk(n))]
    need(not rebind, "_doCall: args/kwargs are re-bound between the check and the call")
    out.append("Inductive doCall_kind := CheckedBeforeCall | NotChecked.")
    out.append("Definition doCall_shape : doCall_kind := %s.  (* `if delivery.methodSchema: delivery.methodSchema."
               "checkAllArgs(args, kwargs, True)` as a top-level statement before both invocations *)"
               % ("CheckedBeforeCall" if checked else "NotChecked"))
    dn = U(P.find_def(P.load("broker.py"), "Broker.doNextCall"))
    for frag in ("d.addCallback(lambda res: self._doCall(delivery))", "d.addErrback(self.callFailed, delivery.reqID, delivery)"):
        need(frag in dn, "doNextCall no longer contains " + frag)
    cf = U(P.find_def(P.load("broker.py"), "Broker.callFailed"))
    need("self.send(call.ErrorSlicer(reqID, f))" in cf, "callFailed no longer answers with an Error")
    # call.py: the answer path delivers without an object-level check
    au = P.find_class(P.load("call.py"), "AnswerUnslicer")
    ausrc = U(au)
    checks = ("checkObject" in ausrc) or ("checkResults" in ausrc)
    need("self.request.complete(res)" in ausrc and "self.resultConstraint = self.request.constraint" in ausrc and
         "self.resultConstraint.checkToken(typebyte, size)" in ausrc and "unslicer.setConstraint(self.resultConstraint)" in ausrc,
         "AnswerUnslicer changed shape")
    out.append("Definition answer_checks_object : bool := %s.  (* does AnswerUnslicer call checkObject/checkResults before "
               "request.complete? *)" % ("true" if checks else "false"))
    arg = P.find_class(P.load("call.py"), "ArgumentUnslicer")
    asrc = U(arg)
    for frag in ("self.argConstraint.checkToken(typebyte, size)", "self.argConstraint.checkOpentype(opentype)",
                 "unslicer.setConstraint(self.argConstraint)", "ms.getPositionalArgConstraint(0)",
                 "ms.getPositionalArgConstraint(nextargnum)",
                 "ms.getKeywordArgConstraint(self.argname, self.numargs, list(self.kwargs.keys()))"):
        need(frag in asrc, "ArgumentUnslicer no longer contains: " + frag)
    # ---------------------------------------------------------------- ArgumentUnslicer as a state machine (call.py)
    out.extend(argument_unslicer_facts(arg))
    # CallUnslicer.receiveChild, stage 2: the method name goes through six.ensure_str too (shape fact; the stages before the
    # arguments are not in the model, the oracle drives this site)
    cu = P.find_class(P.load("call.py"), "CallUnslicer")      # (the stage may live in a helper method of the class)
    sites = [n for n in ast.walk(cu) if isinstance(n, ast.Assign) and flat(str(U(n))) == "self.methodname = six.ensure_str(token)"]
    need(len(sites) == 1, "CallUnslicer: self.methodname = six.ensure_str(token)")
    guarded_ = [n for n in ast.walk(cu) if isinstance(n, ast.Try) and len(n.body) == 1 and n.body[0] is sites[0]]
    if guarded_:
        t_ = guarded_[0]
        need(not t_.orelse and not t_.finalbody and len(t_.handlers) == 1 and t_.handlers[0].type is not None and
             flat(str(U(t_.handlers[0].type))) == "UnicodeDecodeError" and len(t_.handlers[0].body) == 1 and
             isinstance(t_.handlers[0].body[0], ast.Raise) and isinstance(t_.handlers[0].body[0].exc, ast.Call) and
             flat(str(U(t_.handlers[0].body[0].exc.func))) == "Violation", "CallUnslicer.receiveChild: handler around the method name changed")
    else:
        need(not any(isinstance(n, ast.Try) and any(m is sites[0] for m in ast.walk(n)) for n in ast.walk(cu)),
             "CallUnslicer.receiveChild: the method name is decoded inside an unrecognised try statement")
    out.extend(call_unslicer_facts(cu, tokc))
    out.append("Definition methodname_nontext_violation : bool := %s.  (* a method name that is not UTF-8 -> Violation (true) / "
               "UnicodeDecodeError escapes (false) *)" % ("true" if guarded_ else "false"))
    # the two unknown-argument flags of RemoteMethodSchema(**kwargs)
    gkf = flat(str(gk))
    i_ign, i_acc = gkf.find("if self.ignoreUnknown: return (False, None)"), gkf.find("if self.acceptUnknown: return (True, None)")
    i_get, i_unk = gkf.find("c = self.argConstraints.get(argname)"), gkf.find("raise Violation(\"unknown argument")
    need(0 <= i_get < i_ign < i_acc < i_unk, "getKeywordArgConstraint: known name, then ignoreUnknown -> (False, None), then "
         "acceptUnknown -> (True, None), then Violation -- order changed")
    rinit = U(P.find_def(rm, "RemoteMethodSchema.__init__"))
    for frag in ("if '__ignoreUnknown__' in kwargs:\n self.ignoreUnknown = kwargs['__ignoreUnknown__']\n del kwargs['__ignoreUnknown__']",
                 "if '__acceptUnknown__' in kwargs:\n self.acceptUnknown = kwargs['__acceptUnknown__']\n del kwargs['__acceptUnknown__']"):
        need(frag in rinit, "RemoteMethodSchema.__init__ no longer contains: " + frag)
    rcls = P.find_class(rm, "RemoteMethodSchema")
    for nm_ in ("ignoreUnknown", "acceptUnknown"):
        v_ = class_attr(rcls, nm_)
        need(isinstance(v_, ast.Constant) and v_.value is False, "RemoteMethodSchema.%s default" % nm_)
    # checkAllArgs hands every bound (name, value) to getKeywordArgConstraint(argname) -- no previous names -- and calls
    # checkObject on whatever constraint comes back (None for an unknown name under either flag: AttributeError)
    loop = [n for n in ast.walk(caa) if isinstance(n, ast.For) and flat(str(U(n.iter))) == "list(allargs.items())"]
    need(len(loop) == 1, "checkAllArgs: loop over allargs.items()")
    lsrc = [flat(str(U(x))) for x in loop[0].body]
    need(lsrc[0] == "accept, constraint = self.getKeywordArgConstraint(argname)" and
         any(x.startswith("try: constraint.checkObject(argvalue, inbound) except Violation as v:") and x.endswith("raise") for x in lsrc[1:])
         and not any(isinstance(n, (ast.Continue, ast.Break, ast.Return)) for x in loop[0].body for n in ast.walk(x)),
         "checkAllArgs: per-argument check changed: %s" % lsrc)
    out.append("Definition checkAllArgs_checks_every_bound_name : bool := true.  (* no continue/break/return in the loop; "
               "`constraint.checkObject` on the constraint getKeywordArgConstraint(argname) returned *)")
    # Broker._callFinished: checkResults(res, False) dominates send(AnswerSlicer(reqID, res, ..)), same name `res`
    cfn = P.find_def(P.load("broker.py"), "Broker._callFinished")
    cst = [x for x in cfn.body if not (isinstance(x, ast.Expr) and isinstance(x.value, ast.Constant))]
    csrc = [flat(str(U(x))) for x in cst]
    i_chk = [i for i, x in enumerate(csrc) if x.startswith("if methodSchema:") and "methodSchema.checkResults(res, False)" in x]
    i_ans = [i for i, x in enumerate(csrc) if x == "answer = call.AnswerSlicer(reqID, res, methodName)"]
    need(len(i_ans) == 1 and "methodSchema = delivery.methodSchema" in csrc, "_callFinished: answer construction changed")
    rebinds = [n for x in cst for n in ast.walk(x) if isinstance(n, ast.Name) and n.id == "res" and isinstance(n.ctx, ast.Store)]
    need(not rebinds, "_callFinished re-binds res")
    crs = flat(str(U(P.find_def(rm, "RemoteMethodSchema.checkResults"))))
    need("if self.responseConstraint: self.responseConstraint.checkObject(results, inbound)" in crs, "checkResults changed")
    checks_res = len(i_chk) == 1 and i_chk[0] < i_ans[0]
    if checks_res:
        tr_ = [n for n in ast.walk(cst[i_chk[0]]) if isinstance(n, ast.Try)]
        need(len(tr_) == 1 and all(flat(str(U(h.body[-1]))) == "raise" for h in tr_[0].handlers), "_callFinished swallows the Violation of checkResults")
    out.append("Definition callFinished_checks_results : bool := %s.  (* methodSchema.checkResults(res, False) before the "
               "answer is sent, a Violation propagates *)" % ("true" if checks_res else "false"))
    # ---------------------------------------------------------------- RemoteCopy state under a stateSchema (copyable.py)
    cp = P.load("copyable.py")
    ga = flat(str(U(P.find_def(cp, "AttributeDictConstraint.getAttrConstraint"))))
    i0, i1, i2, i3 = (ga.find(f_) for f_ in ("c = self.keys.get(attrname)", "if self.ignoreUnknown: return (False, None)",
                                             "if self.acceptUnknown: return (True, None)", "raise Violation(\"unknown attribute"))
    need(0 <= i0 < i1 < i2 < i3 and "if isinstance(c, Optional): c = c.constraint" in ga, "AttributeDictConstraint.getAttrConstraint changed")
    aco = flat(str(U(P.find_def(cp, "AttributeDictConstraint.checkObject"))))
    for frag in ("if type(obj) != type({}):", "constraint = self.keys[k]", "except KeyError: if not self.ignoreUnknown: raise Violation",
                 "else: constraint.checkObject(obj[k], inbound)", "if isinstance(self.keys[k], Optional): allkeys.remove(k)",
                 "if allkeys: raise Violation"):
        need(frag in aco, "AttributeDictConstraint.checkObject no longer contains: " + frag)
    rcu = P.find_class(cp, "RemoteCopyUnslicer")
    rcs = flat(str(U(P.find_def(rcu, "receiveChild"))))
    for frag in ("if self.attrname == None:", "if attrname in self.d: raise BananaError", "s = self.schema",
                 "accept, self.attrConstraint = s.getAttrConstraint(attrname)", "self.attrname = attrname",
                 "self.setAttribute(self.attrname, obj)", "self.attrname = None", "self.attrConstraint = None"):
        need(frag in rcs, "RemoteCopyUnslicer.receiveChild no longer contains: " + frag)
    need(rcs.count("assert accept") in (0, 1), "RemoteCopyUnslicer.receiveChild: assert accept")
    out.append("Definition rc_asserts_accept : bool := %s.  (* RemoteCopyUnslicer.receiveChild: `assert accept` after getAttrConstraint *)"
               % ("true" if "assert accept" in rcs else "false"))
    plain = "attrname = six.ensure_str(obj)" in rcs
    guarded_name = "try: attrname = six.ensure_str(obj) except UnicodeDecodeError: raise Violation(" in rcs
    need(plain, "RemoteCopyUnslicer.receiveChild: attrname = six.ensure_str(obj)")
    need(guarded_name or "try:" not in rcs, "RemoteCopyUnslicer.receiveChild: unrecognised try statement")
    out.append("Definition rc_nontext_name_violation : bool := %s.  (* an attribute name that is not UTF-8 -> Violation / escapes *)"
               % ("true" if guarded_name else "false"))
    rck = flat(str(U(P.find_def(rcu, "checkToken"))))
    for frag in ("if self.attrname == None: if typebyte not in (tokens.STRING, tokens.VOCAB): raise BananaError",
                 "elif self.attrConstraint: self.attrConstraint.checkToken(typebyte, size)"):
        need(frag in rck, "RemoteCopyUnslicer.checkToken no longer contains: " + frag)
    rcd = flat(str(U(P.find_def(rcu, "doOpen"))))
    need("self.attrConstraint.checkOpentype(opentype)" in rcd and "unslicer.setConstraint(self.attrConstraint)" in rcd, "RemoteCopyUnslicer.doOpen")
    rcc = flat(str(U(P.find_def(rcu, "receiveClose"))))
    need("obj = self.factory(self.d)" in rcc, "RemoteCopyUnslicer.receiveClose no longer builds the object from self.d")
    closes = "self.schema.checkObject(self.d" in rcc and rcc.find("self.schema.checkObject(self.d") < rcc.find("self.factory(self.d)")
    need(closes or "checkObject" not in rcc, "RemoteCopyUnslicer.receiveClose: unrecognised use of checkObject")
    out.append("Definition rc_close_checks_state : bool := %s.  (* does receiveClose apply the stateSchema's checkObject to the "
               "collected state before the factory runs? *)" % ("true" if closes else "false"))
    # ReferenceUnslicer.receiveChild: `if self.constraint: self.constraint.checkObject(self.obj, True)` must be a top-level
    # statement reached on EVERY path after `self.obj = self.protocol.getObject(obj)`: no return / continue / break and no
    # re-binding of self.obj / self.constraint in between (e.g. an early return for Deferred placeholders skips it)
    rc = P.find_def(P.load("slicer.py"), "ReferenceUnslicer.receiveChild")
    srcs = [str(U(x)) for x in rc.body]
    rechecks = False
    bind = [i for i, x in enumerate(srcs) if flat(x) == "self.obj = self.protocol.getObject(obj)"]
    chk = [i for i, x in enumerate(srcs) if flat(x) == "if self.constraint: self.constraint.checkObject(self.obj, True)"]
    need(len(bind) == 1, "ReferenceUnslicer.receiveChild no longer binds self.obj = self.protocol.getObject(obj)")
    if len(chk) == 1 and chk[0] > bind[0]:
        between = rc.body[bind[0] + 1:chk[0]]
        escapes = [n for x in between for n in ast.walk(x) if isinstance(n, (ast.Return, ast.Continue, ast.Break))]
        rebinds = [n for x in between for n in ast.walk(x) if isinstance(n, ast.Attribute) and isinstance(n.ctx, ast.Store)
                   and str(U(n)) in ("self.obj", "self.constraint")]
        rechecks = not escapes and not rebinds
    out.append("Definition reference_rechecks_object : bool := %s.  (* the referenced object (also a still-open tuple's "
               "placeholder) is passed to constraint.checkObject on every path *)" % ("true" if rechecks else "false"))
    need("return (self.obj, None)" in U(P.find_def(P.load("slicer.py"), "ReferenceUnslicer.receiveClose")),
         "ReferenceUnslicer.receiveClose changed")
    tstart = U(P.find_def(sl["tuple"], "TupleUnslicer.start"))
    need("self.deferred = Deferred()" in tstart and "self.protocol.setObject(count, self.deferred)" in tstart,
         "TupleUnslicer.start no longer registers a Deferred placeholder for the open tuple")
    # ---------------------------------------------------------------- vocabulary: tables, who uses them, how bytes travel
    vm = P.load("vocab.py")
    tabs = P.module_consts(vm).get("INITIAL_VOCAB_TABLES")
    need(isinstance(tabs, dict) and all(isinstance(k, int) and isinstance(v, list) and all(isinstance(w, bytes) for w in v)
                                        for k, v in tabs.items()), "vocab.INITIAL_VOCAB_TABLES is not a literal table")
    rowsv = ["(%d, [%s])" % (k, "; ".join("[" + "; ".join(str(b) for b in w) + "]" for w in tabs[k])) for k in sorted(tabs)]
    out.append("Definition vocab_tables : list (Z * list (list Z)) := [%s]." % "; ".join(rowsv))
    out.append("Definition vocab_table (i : Z) : list (list Z) :=\n"
               " match find (fun r => Z.eqb (fst r) i) vocab_tables with Some r => snd r | None => [] end.")
    bsrc = U(P.find_def(P.load("banana.py"), "Banana.sendToken"))
    for frag in ("elif isinstance(obj, bytes):", "if obj in self.outgoingVocabulary:", "symbolID = self.outgoingVocabulary[obj]",
                 "int2b128(symbolID, write)", "write(VOCAB)", "int2b128(len(obj), write)", "write(STRING)"):
        need(frag in bsrc, "sendToken (bytes branch) no longer contains " + frag)
    need("out_vocabDict = dict(list(zip(vocabStrings, list(range(len(vocabStrings))))))" in
         U(P.find_def(P.load("banana.py"), "Banana.populateVocabTable")), "populateVocabTable changed")
    need("table = vocab.INITIAL_VOCAB_TABLES[vocab_table_index]" in U(P.find_def(P.load("broker.py"), "Broker.__init__")),
         "Broker.__init__ no longer installs the negotiated vocab table")
    # ---------------------------------------------------------------- sharing: which slicers track references, and that
    # no constraint class overrides checkOpentype (the ('reference',) exemption lives in Constraint.checkOpentype only)
    def attr_true(mod, cname, attr):
        v = class_attr(P.find_class(mod, cname), attr)
        return None if v is None else (isinstance(v, ast.Constant) and v.value is True)
    need(attr_true(sl["list"], "ListSlicer", "trackReferences") is True and
         attr_true(sl["tuple"], "TupleSlicer", "trackReferences") is None and
         [str(U(b)) for b in P.find_class(sl["tuple"], "TupleSlicer").bases] == ["ListSlicer"] and
         attr_true(sl["set"], "SetSlicer", "trackReferences") is True and
         attr_true(sl["set"], "FrozenSetSlicer", "trackReferences") is False and
         attr_true(sl["dict"], "DictSlicer", "trackReferences") is True and
         attr_true(sl["bool"], "BooleanSlicer", "trackReferences") is False and
         attr_true(sl["none"], "NoneSlicer", "trackReferences") is False,
         "trackReferences of the list/tuple/set/immutable-set/dict/bool/none slicers changed")
    for short, mod, name in rows:
        cls = P.find_class(mod, name)
        need(not any(isinstance(n, ast.FunctionDef) and n.name == "checkOpentype" for n in cls.body),
             "%s overrides checkOpentype (is ('reference',) still always accepted?)" % name)
    for base in ("OpenerConstraint",):
        need(not any(isinstance(n, ast.FunctionDef) and n.name == "checkOpentype" for n in P.find_class(cm, base).body),
             "%s overrides checkOpentype" % base)
    out.append("Definition reference_always_passes_checkOpentype : bool := true.  (* `if opentype == ('reference',): return` in "
               "Constraint.checkOpentype, overridden by no constraint class *)")
    # ---------------------------------------------------------------- RemoteInterfaceConstraint (inbound) / my-reference
    rco = U(P.find_def(P.load("remoteinterface.py"), "RemoteInterfaceConstraint.checkObject"))
    for frag in ("if inbound:", "if not ipb.IRemoteReference.providedBy(obj):", "if not self.interface:\n return",
                 "iface = obj.tracker.interface", "if not iface or iface != self.interface:\n raise Violation"):
        need(frag in rco, "RemoteInterfaceConstraint.checkObject (inbound) no longer contains: " + frag)
    out.append("Definition remote_claim_must_equal_declared : bool := true.  (* inbound: `not iface or iface != self.interface` -> Violation *)")
    mr = P.find_class(P.load("referenceable.py"), "ReferenceUnslicer")
    need("('my-reference',): referenceable.ReferenceUnslicer" in P.source("broker.py"), "PBOpenRegistry: my-reference")
    need(not any(isinstance(n, ast.FunctionDef) and n.name == "setConstraint" for n in mr.body),
         "referenceable.ReferenceUnslicer now has a setConstraint")
    mrs = U(mr)
    for frag in ("if typebyte not in (tokens.INT, tokens.NEG):\n raise BananaError", "self.inameConstraint.checkToken(typebyte, size)",
                 "self.interfaceName = six.ensure_str(obj) or None",
                 "tracker = self.broker.getTrackerForYourReference(self.clid, self.interfaceName, self.url)"):
        need(frag in mrs, "referenceable.ReferenceUnslicer no longer contains: " + frag)
    # the three remaining six.ensure_str sites of the family repaired in 0c0affc / bc46263 / 66cc69a: the interface name and
    # the URL of a my-reference, the URL of a their-reference (gift)
    mrc = P.find_def(mr, "receiveChild")
    mrcs = flat(str(U(mrc)))
    i_s0, i_s1, i_s2 = (mrcs.find(f_) for f_ in ("if self.state == 0:", "elif self.state == 1:", "elif self.state == 2:"))
    i_nm, i_url = mrcs.find("self.interfaceName = six.ensure_str(obj) or None"), mrcs.find("self.url = six.ensure_str(obj)")
    need(0 <= i_s0 < i_s1 < i_nm < i_s2 < i_url, "referenceable.ReferenceUnslicer.receiveChild: clid, then interface name, then url")
    g_nm = ensure_str_site(mr, "self.interfaceName = six.ensure_str(obj) or None", "referenceable.ReferenceUnslicer")
    g_url = ensure_str_site(mr, "self.url = six.ensure_str(obj)", "referenceable.ReferenceUnslicer")
    out.append("Definition myref_nontext_name_violation : bool := %s.  (* my-reference: an interface name that is not UTF-8 -> "
               "Violation (true) / the UnicodeDecodeError of six.ensure_str escapes the unslicer (false) *)" % ("true" if g_nm else "false"))
    out.append("Definition myref_nontext_url_violation : bool := %s.  (* my-reference: the same for the URL *)" % ("true" if g_url else "false"))
    tr_cls = P.find_class(P.load("referenceable.py"), "TheirReferenceUnslicer")
    g_turl = ensure_str_site(tr_cls, "self.url = six.ensure_str(obj)", "referenceable.TheirReferenceUnslicer")
    out.append("Definition theirref_nontext_url_violation : bool := %s.  (* their-reference (gift): the same for its URL; the "
               "sequence itself is outside the model, the oracle drives this site *)" % ("true" if g_turl else "false"))
    need("self.interface = getRemoteInterfaceByName(interfaceName)" in U(P.find_class(P.load("referenceable.py"), "RemoteReferenceTracker"))
         or "getRemoteInterfaceByName(interfaceName)" in U(P.find_class(P.load("referenceable.py"), "RemoteReferenceTracker")),
         "RemoteReferenceTracker no longer resolves the claimed interface name through the registry")
    return {"SchemaGen.v": "\n\n".join(out) + "\n"}
