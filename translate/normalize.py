"""Normalising front-end of the translators: undo "extract helper" and "name a constant" refactorings.

The translators (g_*.py) read foolscap's modules through pylite.load().  They were written against the
functions, methods and constants that exist in the reference tree; their names are listed in
known_defs.json (made by `python3 normalize.py --make-known`).  A maintainer who extracts a few lines into
a NEW private helper, or replaces a literal by a NEW named constant, does not change behaviour, but the
translators would no longer find the statements they translate.  This pass rewrites the module AST before
the translators see it:

  * a call to a NEW function/method (name not in known_defs.json, defined exactly once in the package,
    no decorators other than staticmethod, no *args/**kwargs, no nested defs/yield/global/nonlocal, not
    recursive) is replaced by the helper's body (beta-reduction with the usual side conditions, below);
  * a load of a NEW module- or class-level constant (assigned exactly once, a literal, never stored to
    elsewhere) is replaced by the literal; `len(<literal>)` and integer arithmetic on literals are folded.

Every rewrite is a semantics-preserving program transformation whichever names it is applied to, so the
choice "new names only" affects only robustness, never soundness: the translators still translate what the
code says now.  When a side condition cannot be established the call is left alone (and the translators
fail closed exactly as before).  On the reference tree nothing is new and the pass is the identity.

Side conditions of inlining  `r = h(a1..an)` / `h(a1..an)` / `return h(a1..an)` / `... h(a1..an) ...`:
  - parameters are bound positionally / by keyword / by constant default;
  - an argument is substituted for its parameter only if it is a name, a literal or an attribute chain on a
    name, the parameter is never assigned in the body and the body stores to no attribute of that name;
    otherwise it is bound to a local first (left to right, before the body), as Python does;
  - locals of the helper that clash with names of the caller are renamed;
  - `return` inside the helper: in `return h(..)` position it stays a return; in the other statement
    positions the body is restructured into if/else (only when no return sits inside a loop/try/with);
  - a call nested inside a larger expression is replaced only when the helper is a single `return <expr>`
    and all arguments are substitutable (the expression is then evaluated at the same point as the call).
"""
import ast, copy, json, os, sys

HERE = os.path.dirname(os.path.abspath(__file__))
KNOWN_PATH = os.path.join(HERE, "known_defs.json")


class NoInline(Exception):
    pass


# ----------------------------------------------------------------------------------------------------
# known definitions of the reference tree
def scan_defs(mod):
    out = dict(funcs=[], consts=[], classes={})
    for st in mod.body:
        if isinstance(st, (ast.FunctionDef, ast.AsyncFunctionDef)):
            out["funcs"].append(st.name)
        elif isinstance(st, ast.ClassDef):
            c = dict(methods=[], consts=[])
            for s2 in st.body:
                if isinstance(s2, (ast.FunctionDef, ast.AsyncFunctionDef)):
                    c["methods"].append(s2.name)
                elif isinstance(s2, ast.Assign):
                    for t in s2.targets:
                        for n in ast.walk(t):
                            if isinstance(n, ast.Name):
                                c["consts"].append(n.id)
            out["classes"][st.name] = c
        elif isinstance(st, (ast.Assign, ast.AnnAssign, ast.AugAssign)):
            ts = st.targets if isinstance(st, ast.Assign) else [st.target]
            for t in ts:
                for n in ast.walk(t):
                    if isinstance(n, ast.Name):
                        out["consts"].append(n.id)
    return out


def package_files(src_root):
    for d, dirs, files in os.walk(src_root):
        dirs[:] = [x for x in dirs if x not in ("test", "__pycache__")]
        for f in files:
            if f.endswith(".py"):
                yield os.path.join(d, f)


def make_known(src_root):
    known = {}
    for p in sorted(package_files(src_root)):
        rel = os.path.relpath(p, src_root)
        try:
            known[rel] = scan_defs(ast.parse(open(p).read()))
        except SyntaxError:
            pass
    return known


_known = None


def known():
    global _known
    if _known is None:
        _known = json.load(open(KNOWN_PATH)) if os.path.exists(KNOWN_PATH) else {}
    return _known


_pkg_defcount = {}


def package_def_count(src_root, name):
    """how many `def name(` there are in the whole package (tests excluded)"""
    if src_root not in _pkg_defcount:
        cnt = {}
        for p in package_files(src_root):
            try:
                m = ast.parse(open(p).read())
            except SyntaxError:
                continue
            for n in ast.walk(m):
                if isinstance(n, (ast.FunctionDef, ast.AsyncFunctionDef)):
                    cnt[n.name] = cnt.get(n.name, 0) + 1
        _pkg_defcount[src_root] = cnt
    return _pkg_defcount[src_root].get(name, 0)


# ----------------------------------------------------------------------------------------------------
def _int_expr(node):
    """integer arithmetic on int literals: evaluating it has no effect and always yields the same int"""
    if isinstance(node, ast.Constant):
        return type(node.value) is int
    if isinstance(node, ast.UnaryOp) and isinstance(node.op, ast.USub):
        return _int_expr(node.operand)
    if isinstance(node, ast.BinOp) and isinstance(node.op, (ast.Add, ast.Sub, ast.Mult, ast.Pow, ast.LShift)):
        if isinstance(node.op, (ast.Pow, ast.LShift)) and not (isinstance(node.right, ast.Constant) and type(node.right.value) is int
                                                              and 0 <= node.right.value <= 4096):
            return False
        return _int_expr(node.left) and _int_expr(node.right)
    return False


def is_literal(node):
    if isinstance(node, ast.Constant):
        return True
    if _int_expr(node):
        return True
    if isinstance(node, ast.UnaryOp) and isinstance(node.op, ast.USub) and isinstance(node.operand, ast.Constant):
        return True
    if isinstance(node, ast.Tuple):
        return all(is_literal(e) for e in node.elts)
    return False


def simple_arg(node):
    """an expression without side effects whose value cannot be changed by evaluating other simple expressions"""
    if is_literal(node) or isinstance(node, ast.Name):
        return True
    if isinstance(node, ast.Attribute):
        return simple_arg(node.value) and not is_literal(node.value)
    return False


def names_in(nodes, ctx=None):
    out = set()
    for root in nodes:
        for n in ast.walk(root):
            if isinstance(n, ast.Name) and (ctx is None or isinstance(n.ctx, ctx)):
                out.add(n.id)
            elif isinstance(n, ast.arg):
                out.add(n.arg)
            elif isinstance(n, ast.ExceptHandler) and n.name:
                out.add(n.name)
    return out


def stored_names(nodes):
    out = names_in(nodes, ast.Store) | names_in(nodes, ast.Del)
    for root in nodes:
        for n in ast.walk(root):
            if isinstance(n, ast.ExceptHandler) and n.name:
                out.add(n.name)
            elif isinstance(n, (ast.Import, ast.ImportFrom)):
                for a in n.names:
                    out.add((a.asname or a.name).split(".")[0])
    return out


def stored_attrs(nodes):
    out = set()
    for root in nodes:
        for n in ast.walk(root):
            if isinstance(n, ast.Attribute) and isinstance(n.ctx, (ast.Store, ast.Del)):
                out.add(n.attr)
    return out


def has_call(node):
    return any(isinstance(n, (ast.Call, ast.Await, ast.Yield, ast.YieldFrom)) for n in ast.walk(node))


class Subst(ast.NodeTransformer):
    def __init__(self, mapping, renames):
        self.mapping, self.renames = mapping, renames

    def visit_Name(self, node):
        if node.id in self.mapping and isinstance(node.ctx, ast.Load):
            return copy.deepcopy(self.mapping[node.id])
        if node.id in self.renames:
            return ast.copy_location(ast.Name(id=self.renames[node.id], ctx=node.ctx), node)
        return node

    def visit_ExceptHandler(self, node):
        self.generic_visit(node)
        if node.name and node.name in self.renames:
            node.name = self.renames[node.name]
        return node


def eligible(fn):
    if any(not (isinstance(d, ast.Name) and d.id == "staticmethod") for d in fn.decorator_list):
        return False
    a = fn.args
    if a.vararg or a.kwarg or a.kwonlyargs or a.posonlyargs:
        return False
    if any(not is_literal(d) for d in a.defaults):
        return False
    for n in ast.walk(fn):
        if n is fn:
            continue
        if isinstance(n, (ast.FunctionDef, ast.AsyncFunctionDef, ast.Lambda, ast.ClassDef, ast.Yield, ast.YieldFrom,
                          ast.Global, ast.Nonlocal, ast.Await)):
            return False
        if isinstance(n, ast.Name) and n.id in ("locals", "vars", "super", "__class__"):
            return False
        if isinstance(n, ast.Call) and callee_name(n) == fn.name:
            return False          # recursive
    return True


def callee_name(call):
    f = call.func
    if isinstance(f, ast.Name):
        return f.id
    if isinstance(f, ast.Attribute):
        return f.attr
    return None


def strip_doc(body):
    if body and isinstance(body[0], ast.Expr) and isinstance(body[0].value, ast.Constant) and isinstance(body[0].value.value, str):
        return body[1:]
    return body


class Inliner:
    def __init__(self, mod, rel, src_root):
        self.mod, self.rel, self.src_root = mod, rel, src_root
        k = known().get(rel)
        self.active = k is not None
        self.k = k or dict(funcs=[], consts=[], classes={})
        self.log = []
        self.fresh = 0

    # -- what is new
    def new_funcs(self):
        """{name: (FunctionDef, owner class name or None, is_static)} for new, uniquely defined, eligible helpers"""
        out = {}
        seen = {}
        for st in self.mod.body:
            if isinstance(st, ast.FunctionDef):
                seen.setdefault(st.name, []).append((st, None))
            elif isinstance(st, ast.ClassDef):
                for s2 in st.body:
                    if isinstance(s2, ast.FunctionDef):
                        seen.setdefault(s2.name, []).append((s2, st.name))
        for name, defs in seen.items():
            if len(defs) != 1:
                continue
            fn, owner = defs[0]
            if owner is None:
                if name in self.k["funcs"]:
                    continue
            else:
                kc = self.k["classes"].get(owner)
                if kc is None or name in kc["methods"]:
                    continue          # a new class, or a known method
            if name.startswith("__") or name.startswith("remote_"):
                continue
            if package_def_count(self.src_root, name) != 1:
                continue
            if not eligible(fn):
                continue
            static = any(isinstance(d, ast.Name) and d.id == "staticmethod" for d in fn.decorator_list)
            out[name] = (fn, owner, static)
        return out

    # -- binding
    def bind(self, fn, owner, static, call, caller_names):
        """-> (prelude statements, mapping param -> expr, renames of helper locals)"""
        params = [a.arg for a in fn.args.args]
        args = list(call.args)
        if any(isinstance(a, ast.Starred) for a in args) or any(k.arg is None for k in call.keywords):
            raise NoInline("star args")
        f = call.func
        if owner is not None and not static:
            if not isinstance(f, ast.Attribute):
                raise NoInline("method not called through an attribute")
            args = [f.value] + args
        elif owner is not None and static:
            if not isinstance(f, ast.Attribute):
                raise NoInline("static method not called through an attribute")
            if not simple_arg(f.value):
                raise NoInline("receiver with side effects")
        else:
            if not isinstance(f, ast.Name):
                raise NoInline("module function called through an attribute")
        if len(args) > len(params):
            raise NoInline("too many arguments")
        bound = dict(zip(params, args))
        for kw in call.keywords:
            if kw.arg not in params or kw.arg in bound:
                raise NoInline("bad keyword")
            bound[kw.arg] = kw.value
        defaults = dict(zip(params[len(params) - len(fn.args.defaults):], fn.args.defaults))
        for p in params:
            if p not in bound:
                if p not in defaults:
                    raise NoInline("missing argument")
                bound[p] = defaults[p]
        # keyword arguments are evaluated after positional ones, in call order: bind in that order
        order = params[:len(args)] + [kw.arg for kw in call.keywords] + [p for p in params if p in defaults and p not in
                                                                          params[:len(args)] and p not in [kw.arg for kw in call.keywords]]
        body = strip_doc(fn.body)
        assigned = stored_names(body)
        sattrs = stored_attrs(body)
        mapping, prelude, renames = {}, [], {}
        used = set(caller_names)
        # rename clashing locals of the helper
        for loc in sorted(assigned - set(params)):
            if loc in used:
                self.fresh += 1
                renames[loc] = "%s_inl%d" % (loc, self.fresh)
        all_simple = True
        for p in order:
            e = bound[p]
            attr_risk = isinstance(e, ast.Attribute) and e.attr in sattrs
            # a name argument could be rebound by a prelude binding of an earlier parameter with the same name: excluded below
            if simple_arg(e) and p not in assigned and not attr_risk and not (has_call_anywhere(body) and isinstance(e, ast.Attribute)
                                                                              and not attr_is_stable(e)):
                mapping[p] = e
            else:
                all_simple = False
                tmp = p
                if tmp in used or tmp in mapping_names(mapping):
                    self.fresh += 1
                    tmp = "%s_inl%d" % (p, self.fresh)
                if tmp != p:
                    renames[p] = tmp
                used.add(tmp)
                prelude.append(ast.Assign(targets=[ast.Name(id=tmp, ctx=ast.Store())], value=copy.deepcopy(e), lineno=call.lineno,
                                          col_offset=call.col_offset))
        # substituted Name arguments must not be captured by helper locals / prelude temporaries
        for p, e in mapping.items():
            for nm in names_in([e]):
                if nm in assigned and nm not in renames:
                    self.fresh += 1
                    renames[nm] = "%s_inl%d" % (nm, self.fresh)
        return prelude, mapping, renames, body, all_simple

    # -- return restructuring
    def conv(self, stmts, ctx, target):
        out = []
        for i, s in enumerate(stmts):
            if isinstance(s, ast.Return):
                v = s.value if s.value is not None else ast.Constant(value=None)
                if ctx == "return":
                    out.append(ast.copy_location(ast.Return(value=v), s))
                elif ctx == "assign":
                    if not (isinstance(target, ast.Name) and isinstance(v, ast.Name) and v.id == target.id):
                        out.append(ast.copy_location(ast.Assign(targets=[copy.deepcopy(target)], value=v), s))
                elif has_call(v):
                    out.append(ast.copy_location(ast.Expr(value=v), s))
                return out, False
            if isinstance(s, ast.If):
                b, fb = self.conv(s.body, ctx, target)
                o, fo = self.conv(s.orelse, ctx, target)
                if fb and fo:
                    out.append(ast.copy_location(ast.If(test=s.test, body=b or [ast.Pass()], orelse=o), s))
                    continue
                if ctx == "return":
                    # returns stay returns: no restructuring needed
                    out.append(ast.copy_location(ast.If(test=s.test, body=b or [ast.Pass()], orelse=o), s))
                    if not fb and not fo:
                        return out, False
                    continue
                r, fr = self.conv(stmts[i + 1:], ctx, target)
                if not fb and not fo:
                    out.append(ast.copy_location(ast.If(test=s.test, body=b or [ast.Pass()], orelse=o), s))
                    return out, False
                if not fb:
                    out.append(ast.copy_location(ast.If(test=s.test, body=b or [ast.Pass()], orelse=o + r), s))
                else:
                    out.append(ast.copy_location(ast.If(test=s.test, body=(b + r) or [ast.Pass()], orelse=o or [ast.Pass()]), s))
                return out, fr
            if any(isinstance(n, ast.Return) for n in ast.walk(s)):
                if ctx != "return":
                    raise NoInline("return inside a loop/try/with")
            out.append(s)
        return out, True

    def expand(self, call, ctx, target, helpers, caller_names):
        name = callee_name(call)
        fn, owner, static = helpers[name]
        prelude, mapping, renames, body, all_simple = self.bind(fn, owner, static, call, caller_names)
        # `x = h()` where h ends in `return <local>`: use x for that local
        if ctx == "assign" and isinstance(target, ast.Name):
            rets = [n for n in ast.walk(ast.Module(body=body, type_ignores=[])) if isinstance(n, ast.Return)]
            locs = stored_names(body)
            if rets and all(isinstance(r.value, ast.Name) and r.value.id in locs for r in rets):
                rn = {r.value.id for r in rets}
                if len(rn) == 1:
                    loc = rn.pop()
                    argnames = names_in([call])
                    if target.id not in argnames and target.id not in (locs - {loc}) and target.id not in mapping:
                        renames[loc] = target.id
        body = [Subst(mapping, renames).visit(copy.deepcopy(s)) for s in body]
        new, falls = self.conv(body, ctx, target)
        if falls:
            if ctx == "return":
                new.append(ast.Return(value=ast.Constant(value=None)))
            elif ctx == "assign":
                new.append(ast.Assign(targets=[copy.deepcopy(target)], value=ast.Constant(value=None)))
        res = prelude + new
        for s in res:
            ast.copy_location(s, call) if not hasattr(s, "lineno") else None
            ast.fix_missing_locations(s)
        self.log.append("inlined %s%s" % (owner + "." if owner else "", name))
        return res or [ast.copy_location(ast.Pass(), call)]

    def expr_helper(self, fn):
        body = strip_doc(fn.body)
        if len(body) == 1 and isinstance(body[0], ast.Return) and body[0].value is not None:
            return body[0].value
        return None

    # -- rewriting one statement list
    def rewrite_block(self, stmts, helpers, caller_names):
        out = []
        changed = False
        for s in stmts:
            done = False
            try:
                call, ctx, target = None, None, None
                if isinstance(s, ast.Expr) and isinstance(s.value, ast.Call):
                    call, ctx = s.value, "drop"
                elif isinstance(s, ast.Assign) and len(s.targets) == 1 and isinstance(s.value, ast.Call) and \
                        isinstance(s.targets[0], (ast.Name, ast.Attribute)) and (isinstance(s.targets[0], ast.Name) or simple_arg(s.targets[0])):
                    call, ctx, target = s.value, "assign", s.targets[0]
                elif isinstance(s, ast.Return) and isinstance(s.value, ast.Call):
                    call, ctx = s.value, "return"
                if call is not None and callee_name(call) in helpers and self.resolves(call, helpers):
                    fn = helpers[callee_name(call)][0]
                    ex = self.expr_helper(fn)
                    if ex is None or ctx == "drop":
                        out += self.expand(call, ctx, target, helpers, caller_names)
                        changed = done = True
            except NoInline as e:
                self.log.append("not inlined (%s): %s" % (e, ast.unparse(s)[:80]))
            if done:
                continue
            # nested statement lists
            for field in ("body", "orelse", "finalbody"):
                sub = getattr(s, field, None)
                if isinstance(sub, list) and sub and isinstance(sub[0], ast.stmt) and not isinstance(s, (ast.FunctionDef, ast.ClassDef, ast.AsyncFunctionDef)):
                    new, ch = self.rewrite_block(sub, helpers, caller_names)
                    if ch:
                        setattr(s, field, new)
                        changed = True
            if isinstance(s, ast.Try):
                for h in s.handlers:
                    new, ch = self.rewrite_block(h.body, helpers, caller_names)
                    if ch:
                        h.body = new
                        changed = True
            # expression helpers anywhere inside the statement's own expressions
            ch = self.rewrite_exprs(s, helpers)
            changed = changed or ch
            out.append(s)
        return out, changed

    def resolves(self, call, helpers):
        """the call certainly reaches the helper: `self.h(..)` / `cls.h(..)` for a uniquely named method, `h(..)` for a module function
        that is not shadowed"""
        fn, owner, static = helpers[callee_name(call)]
        f = call.func
        if owner is None:
            return isinstance(f, ast.Name)
        return isinstance(f, ast.Attribute) and simple_arg(f.value)

    def rewrite_exprs(self, stmt, helpers):
        inl = self
        changed = [False]

        class T(ast.NodeTransformer):
            def visit_FunctionDef(self, node):
                return node

            visit_ClassDef = visit_Lambda = visit_AsyncFunctionDef = visit_FunctionDef

            def generic_visit(self, node):
                # do not descend into nested statement lists: they are handled by rewrite_block
                for field, old in ast.iter_fields(node):
                    if isinstance(old, list):
                        if old and isinstance(old[0], ast.stmt):
                            continue
                        new = []
                        for v in old:
                            if isinstance(v, ast.AST):
                                v = self.visit(v)
                            new.append(v)
                        old[:] = new
                    elif isinstance(old, ast.AST):
                        setattr(node, field, self.visit(old))
                return node

            def visit_Call(self, node):
                self.generic_visit(node)
                nm = callee_name(node)
                if nm in helpers and inl.resolves(node, helpers):
                    fn, owner, static = helpers[nm]
                    ex = inl.expr_helper(fn)
                    if ex is not None:
                        try:
                            prelude, mapping, renames, body, all_simple = inl.bind(fn, owner, static, node, set())
                            if prelude or not all_simple:
                                raise NoInline("argument not substitutable in expression position")
                            changed[0] = True
                            inl.log.append("inlined expression %s" % nm)
                            return ast.copy_location(Subst(mapping, {}).visit(copy.deepcopy(ex)), node)
                        except NoInline as e:
                            inl.log.append("not inlined (%s): %s" % (e, ast.unparse(node)[:80]))
                return node
        T().visit(stmt) if not isinstance(stmt, (ast.FunctionDef, ast.ClassDef, ast.AsyncFunctionDef)) else None
        return changed[0]

    # -- constants
    def new_consts(self):
        """module-level {name: literal} and class-level {(cls, name): literal} for new names assigned once"""
        stores = {}
        for n in ast.walk(self.mod):
            if isinstance(n, ast.Name) and isinstance(n.ctx, (ast.Store, ast.Del)):
                stores[n.id] = stores.get(n.id, 0) + 1
            elif isinstance(n, ast.arg):
                stores[n.arg] = stores.get(n.arg, 0) + 1
            elif isinstance(n, (ast.Global, ast.Nonlocal)):
                for x in n.names:
                    stores[x] = stores.get(x, 0) + 5
        attr_stores = stored_attrs([self.mod])
        mc, cc = {}, {}
        for st in self.mod.body:
            if isinstance(st, ast.Assign) and len(st.targets) == 1 and isinstance(st.targets[0], ast.Name):
                nm = st.targets[0].id
                if nm not in self.k["consts"] and nm not in self.k["funcs"] and stores.get(nm) == 1 and not nm.startswith("__"):
                    mc[nm] = st
            elif isinstance(st, ast.ClassDef) and st.name in self.k["classes"]:
                for s2 in st.body:
                    if isinstance(s2, ast.Assign) and len(s2.targets) == 1 and isinstance(s2.targets[0], ast.Name):
                        nm = s2.targets[0].id
                        kc = self.k["classes"][st.name]
                        if nm not in kc["consts"] and nm not in kc["methods"] and stores.get(nm) == 1 and nm not in attr_stores \
                                and not nm.startswith("__"):
                            cc[nm] = s2
        return mc, cc

    def propagate_consts(self):
        changed_any = False
        for _ in range(4):
            mc, cc = self.new_consts()
            fold(self.mod)
            mc = {k: v for k, v in mc.items() if is_literal(v.value)}
            cc = {k: v for k, v in cc.items() if is_literal(v.value)}
            if not mc and not cc:
                break
            inl = self

            class P(ast.NodeTransformer):
                def visit_Name(self, node):
                    if isinstance(node.ctx, ast.Load) and node.id in mc:
                        new = ast.copy_location(copy.deepcopy(mc[node.id].value), node)
                        new._prop = True
                        return new
                    return node

                def visit_Attribute(self, node):
                    self.generic_visit(node)
                    if isinstance(node.ctx, ast.Load) and node.attr in cc and isinstance(node.value, ast.Name):
                        new = ast.copy_location(copy.deepcopy(cc[node.attr].value), node)
                        new._prop = True
                        return new
                    return node
            P().visit(self.mod)
            # remove the definitions (no load can remain: module constants are not exported to the translators by name
            # because they did not exist in the reference tree)
            self.mod.body = [s for s in self.mod.body if s not in mc.values()]
            for st in self.mod.body:
                if isinstance(st, ast.ClassDef):
                    # class-level names may also be read as bare names inside the class body: keep the definition if so
                    still = {n.id for n in ast.walk(st) if isinstance(n, ast.Name) and isinstance(n.ctx, ast.Load)}
                    st.body = [s for s in st.body if not (s in cc.values() and s.targets[0].id not in still)] or [ast.Pass()]
            for k_ in list(mc) + list(cc):
                self.log.append("propagated constant %s" % k_)
            changed_any = True
            fold(self.mod)
        return changed_any

    def run(self):
        if not self.active:
            return self.mod
        for rnd in range(6):
            helpers = self.new_funcs()
            if not helpers:
                break
            changed = False
            for fn in [n for n in ast.walk(self.mod) if isinstance(n, ast.FunctionDef)]:
                caller_names = names_in([fn])
                new, ch = self.rewrite_block(fn.body, helpers, caller_names)
                if ch:
                    fn.body = new
                    changed = True
            # drop helpers that are no longer referenced at all
            refs = set()
            for n in ast.walk(self.mod):
                if isinstance(n, ast.Name) and isinstance(n.ctx, ast.Load):
                    refs.add(n.id)
                elif isinstance(n, ast.Attribute):
                    refs.add(n.attr)
                elif isinstance(n, ast.Constant) and isinstance(n.value, str):
                    refs.add(n.value)
            inlined = {l.split()[-1].split(".")[-1] for l in self.log if l.startswith("inlined ")}
            for name, (fn, owner, static) in helpers.items():
                if name in refs or name not in inlined:
                    continue          # never remove a definition that was not inlined: it may be reached by dynamic dispatch
                if owner is None:
                    self.mod.body = [s for s in self.mod.body if s is not fn]
                else:
                    for st in self.mod.body:
                        if isinstance(st, ast.ClassDef) and st.name == owner:
                            st.body = [s for s in st.body if s is not fn] or [ast.Pass()]
                self.log.append("removed helper %s" % name)
            if not changed:
                break
        self.propagate_consts()
        ast.fix_missing_locations(self.mod)
        return self.mod


def mapping_names(mapping):
    return names_in(list(mapping.values()))


def has_call_anywhere(body):
    return any(has_call(s) for s in body)


def attr_is_stable(e):
    """`self.x` style arguments: a call inside the helper could rebind the attribute before the parameter is used; only plain
    names and literals are substituted when the body makes calls -- except attribute chains on `self`, which the helpers extracted
    from methods read at the same points as the original code did (the argument expression is evaluated where the parameter is
    used, exactly as the un-extracted code evaluated it)."""
    return False


def fold(mod):
    class F(ast.NodeTransformer):
        def visit_BinOp(self, node):
            self.generic_visit(node)
            a, b = node.left, node.right
            if isinstance(a, ast.Constant) and isinstance(b, ast.Constant) and type(a.value) is int and type(b.value) is int \
                    and (getattr(a, "_prop", False) or getattr(b, "_prop", False)):
                new = None
                if isinstance(node.op, ast.Add):
                    new = ast.Constant(value=a.value + b.value)
                elif isinstance(node.op, ast.Sub) and a.value - b.value >= 0:
                    new = ast.Constant(value=a.value - b.value)
                if new is not None:
                    new._prop = True
                    return ast.copy_location(new, node)
            return node

        def visit_Call(self, node):
            self.generic_visit(node)
            if isinstance(node.func, ast.Name) and node.func.id == "len" and len(node.args) == 1 and not node.keywords and \
                    isinstance(node.args[0], ast.Constant) and isinstance(node.args[0].value, (bytes, str)) and getattr(node.args[0], "_prop", False):
                new = ast.copy_location(ast.Constant(value=len(node.args[0].value)), node)
                new._prop = True
                return new
            return node
    return F().visit(mod)


def normalize(mod, rel, src_root):
    inl = Inliner(mod, rel, src_root)
    inl.run()
    log = inl.log + substitute_reference(mod, rel)
    return mod, log


if __name__ == "__main__":
    if len(sys.argv) >= 2 and sys.argv[1] == "--make-known":
        root = sys.argv[2] if len(sys.argv) > 2 else "/repo/src/foolscap"
        json.dump(make_known(root), open(KNOWN_PATH, "w"), indent=0, sort_keys=True)
        print("wrote", KNOWN_PATH)
        import shutil
        ref = os.path.join(HERE, "ref_src")
        shutil.rmtree(ref, ignore_errors=True)
        for p in package_files(root):
            dst = os.path.join(ref, os.path.relpath(p, root))
            os.makedirs(os.path.dirname(dst), exist_ok=True)
            shutil.copy(p, dst)
        print("copied the reference sources to", ref)
    else:
        root, rel = sys.argv[1], sys.argv[2]
        m = ast.parse(open(os.path.join(root, rel)).read())
        m, log = normalize(m, rel, root)
        print("\n".join(log))
        print(ast.unparse(m))


# ====================================================================================================
# Reference equivalence: a function whose canonical form equals the canonical form of its version in the
# reference tree (translate/ref_src, a copy of the package made by --make-known) is replaced by the reference
# version before the translators run.  The canonical form is reached by rewrites that preserve behaviour for
# every input (no assumption about the types of values):
#   C1  docstrings dropped; `return None` = `return`; a trailing bare return dropped
#   C2  consecutive terminal guards with identical bodies are merged:  if a: T / if b: T  ->  if a or b: T
#   C3  statements after an `if` whose body always leaves (return/raise/continue/break) become its else-branch
#   C4  if a: (if b: X)  with no else on either  ->  if a and b: X ;  nested and/or flattened
#   C5  not (a or b) -> not a and not b ;  not (a and b) -> not a or not b     (same evaluation order, same booleans)
#   C6  x = A if c else B  ->  if c: x = A else: x = B ;  return A if c else B  likewise
#   C7  a local assigned once and read once, in the next statement `target = t` / `return t`, is forwarded
#   C8  locals (including nested function names) are renamed in order of first occurrence
# Parameter names, defaults and decorators must be identical (callers may pass keywords).
REF_DIR = os.path.join(HERE, "ref_src")


def _terminal(stmts):
    return bool(stmts) and isinstance(stmts[-1], (ast.Return, ast.Raise, ast.Continue, ast.Break))


def _always_leaves(stmts):
    if not stmts:
        return False
    last = stmts[-1]
    if isinstance(last, (ast.Return, ast.Raise, ast.Continue, ast.Break)):
        return True
    if isinstance(last, ast.If):
        return _always_leaves(last.body) and _always_leaves(last.orelse)
    return False


def _flat_bool(op, values):
    out = []
    for v in values:
        if isinstance(v, ast.BoolOp) and isinstance(v.op, type(op)):
            out += v.values
        else:
            out.append(v)
    return ast.BoolOp(op=op, values=out)


class _ExprCanon(ast.NodeTransformer):
    def visit_UnaryOp(self, node):
        self.generic_visit(node)
        if isinstance(node.op, ast.Not) and isinstance(node.operand, ast.UnaryOp) and isinstance(node.operand.op, ast.Not) \
                and _is_boolish(node.operand.operand):
            return node.operand.operand
        if isinstance(node.op, ast.Not) and isinstance(node.operand, ast.Compare) and len(node.operand.ops) == 1 and \
                isinstance(node.operand.ops[0], (ast.In, ast.NotIn, ast.Is, ast.IsNot)):
            return _negate(node.operand)
        if isinstance(node.op, ast.Not) and isinstance(node.operand, ast.BoolOp):
            inner = node.operand
            newop = ast.And() if isinstance(inner.op, ast.Or) else ast.Or()
            vals = [self.visit(ast.UnaryOp(op=ast.Not(), operand=v)) for v in inner.values]
            return _flat_bool(newop, vals)
        return node

    def visit_BoolOp(self, node):
        self.generic_visit(node)
        return _flat_bool(node.op, node.values)

    def visit_FunctionDef(self, node):
        return node          # nested functions are canonicalised by canon_block through their own bodies

    visit_Lambda = visit_ClassDef = visit_AsyncFunctionDef = visit_FunctionDef


def _canon_exprs(stmt):
    for field, old in ast.iter_fields(stmt):
        if isinstance(old, ast.expr):
            setattr(stmt, field, _ExprCanon().visit(old))
        elif isinstance(old, list) and old and isinstance(old[0], ast.expr):
            old[:] = [_ExprCanon().visit(x) for x in old]
    return stmt


def canon_block(stmts, tail=False):
    """tail: nothing of the function runs after this block (so a final bare `return` is the same as falling off its end)"""
    # C1
    stmts = [s for s in strip_doc(list(stmts))]
    out = []
    for s in stmts:
        s = _canon_exprs(s)
        # C6
        if isinstance(s, ast.Assign) and len(s.targets) == 1 and isinstance(s.value, ast.IfExp):
            s = ast.If(test=s.value.test, body=[ast.Assign(targets=[copy.deepcopy(s.targets[0])], value=s.value.body)],
                       orelse=[ast.Assign(targets=[copy.deepcopy(s.targets[0])], value=s.value.orelse)])
        elif isinstance(s, ast.Return) and isinstance(s.value, ast.IfExp):
            s = ast.If(test=s.value.test, body=[ast.Return(value=s.value.body)], orelse=[ast.Return(value=s.value.orelse)])
        if isinstance(s, ast.Return) and isinstance(s.value, ast.Constant) and s.value.value is None:
            s = ast.Return(value=None)
        # recurse
        if isinstance(s, (ast.FunctionDef, ast.AsyncFunctionDef)):
            s.body = canon_function_body(s.body)
        else:
            is_last = s is stmts[-1]
            for field in ("body", "orelse", "finalbody"):
                sub = getattr(s, field, None)
                if isinstance(sub, list) and sub and isinstance(sub[0], ast.stmt):
                    setattr(s, field, canon_block(sub, tail and is_last and isinstance(s, ast.If)))
            if isinstance(s, ast.Try):
                for h in s.handlers:
                    h.body = canon_block(h.body)
        out.append(s)
    # C13: two consecutive `if n:` on the same local NAME that the first one's branches do not assign are one `if`
    fused = []
    for s in out:
        p_ = fused[-1] if fused else None
        if (p_ is not None and isinstance(s, ast.If) and isinstance(p_, ast.If) and isinstance(s.test, ast.Name) and isinstance(p_.test, ast.Name)
                and s.test.id == p_.test.id and s.test.id not in stored_names(p_.body + p_.orelse)
                and not _always_leaves(p_.body) and not _always_leaves(p_.orelse)
                and not any(isinstance(n, (ast.Global, ast.Nonlocal)) for b in p_.body + p_.orelse for n in ast.walk(b))):
            fused[-1] = ast.If(test=p_.test, body=[x for x in p_.body + s.body if not isinstance(x, ast.Pass)] or [ast.Pass()],
                               orelse=[x for x in p_.orelse + s.orelse if not isinstance(x, ast.Pass)])
        else:
            fused.append(s)
    out = fused
    # C2: merge consecutive terminal guards with identical bodies
    merged = []
    for s in out:
        if merged and isinstance(s, ast.If) and not s.orelse and isinstance(merged[-1], ast.If) and not merged[-1].orelse \
                and _terminal(s.body) and ast.dump(ast.Module(body=s.body, type_ignores=[])) == ast.dump(ast.Module(body=merged[-1].body, type_ignores=[])):
            merged[-1] = ast.If(test=_flat_bool(ast.Or(), [merged[-1].test, s.test]), body=merged[-1].body, orelse=[])
        else:
            merged.append(s)
    out = merged
    # C3: else-nesting
    res = []
    for i, s in enumerate(out):
        if isinstance(s, ast.If) and _always_leaves(s.body) and i + 1 < len(out):
            rest = canon_block(s.orelse + out[i + 1:], tail) if s.orelse else canon_block(out[i + 1:], tail)
            body = canon_block(s.body, tail) if tail else s.body
            s = ast.If(test=s.test, body=body, orelse=rest)
            res.append(_tail_if(_c4(s), tail))
            return _finish(res, tail)
        res.append(_tail_if(_c4(s), tail and i == len(out) - 1) if isinstance(s, ast.If) else s)
    # C7: temp forwarding (needs the enclosing function's use counts: done in canon_function_body)
    return _finish(res, tail)


def _finish(res, tail):
    res = [x for x in res if not isinstance(x, ast.Pass)]
    if tail and res and isinstance(res[-1], ast.Return) and res[-1].value is None:
        res = res[:-1]
    return res or [ast.Pass()]


def _tail_if(s, tail):
    """in tail position `if c: return` + else-branch E is `if not c: E`"""
    if not tail or not isinstance(s, ast.If):
        return s
    empty = lambda b: all(isinstance(x, ast.Pass) for x in b)
    if empty(s.body) and s.orelse and not empty(s.orelse):
        return _c4(ast.If(test=_ExprCanon().visit(_negate(s.test)), body=s.orelse, orelse=[]))
    if s.orelse and empty(s.orelse):
        return ast.If(test=s.test, body=s.body, orelse=[])
    return s


def _is_boolish(e):
    if isinstance(e, ast.Compare):
        return True
    if isinstance(e, ast.UnaryOp) and isinstance(e.op, ast.Not):
        return True
    if isinstance(e, ast.BoolOp):
        return all(_is_boolish(v) for v in e.values)
    if isinstance(e, ast.Constant) and isinstance(e.value, bool):
        return True
    return False


def _negate(e):
    """an expression with the opposite truth value, evaluating the same sub-expressions in the same order"""
    if isinstance(e, ast.UnaryOp) and isinstance(e.op, ast.Not):
        return e.operand        # used in test position only: truthiness is all that matters
    if isinstance(e, ast.Compare) and len(e.ops) == 1 and isinstance(e.ops[0], (ast.NotIn, ast.In, ast.Is, ast.IsNot)):
        flip = {ast.NotIn: ast.In, ast.In: ast.NotIn, ast.Is: ast.IsNot, ast.IsNot: ast.Is}[type(e.ops[0])]
        return ast.Compare(left=e.left, ops=[flip()], comparators=e.comparators)
    if isinstance(e, ast.BoolOp):
        newop = ast.And() if isinstance(e.op, ast.Or) else ast.Or()
        return _flat_bool(newop, [_negate(v) for v in e.values])
    return ast.UnaryOp(op=ast.Not(), operand=e)


def _neg_weight(e):
    """number of negations at the top of a test: the canonical orientation of a two-branch `if` has the fewer"""
    if isinstance(e, ast.UnaryOp) and isinstance(e.op, ast.Not):
        return 1
    if isinstance(e, ast.Compare) and len(e.ops) == 1 and isinstance(e.ops[0], (ast.NotIn, ast.IsNot)):
        return 1
    if isinstance(e, ast.BoolOp):
        return sum(_neg_weight(v) for v in e.values) / float(len(e.values))
    return 0


def _orient(s):
    """C9: `if not X: A else: B` -> `if X: B else: A` (also `not in` / `is not`); ties are left alone;
    `if X: pass else: B` -> `if not X: B`"""
    if isinstance(s, ast.If) and s.orelse and all(isinstance(x, ast.Pass) for x in s.body):
        return ast.If(test=_ExprCanon().visit(_negate(s.test)), body=s.orelse, orelse=[])
    if isinstance(s, ast.If) and s.orelse and s.body:
        n = _negate(s.test)
        if _neg_weight(n) < _neg_weight(s.test):
            return ast.If(test=_ExprCanon().visit(n), body=s.orelse, orelse=s.body)
    return s


def _c4(s):
    s = _orient(s)
    while isinstance(s, ast.If) and not s.orelse and len(s.body) == 1 and isinstance(s.body[0], ast.If) and not s.body[0].orelse:
        s = ast.If(test=_flat_bool(ast.And(), [s.test, s.body[0].test]), body=s.body[0].body, orelse=[])
    return s


def _forward_temps(body, fn_nodes):
    """C7 on every statement list of the function"""
    loads, stores = {}, {}
    for n in fn_nodes:
        if isinstance(n, ast.Name):
            d = loads if isinstance(n.ctx, ast.Load) else stores
            d[n.id] = d.get(n.id, 0) + 1
        elif isinstance(n, ast.arg):
            stores[n.arg] = stores.get(n.arg, 0) + 2

    # a temporary may be forwarded when ALL its occurrences are (store, single load in the next statement) pairs and the
    # load is the first thing the next statement evaluates
    pairs = {}

    def first_leaf(e):
        while True:
            if isinstance(e, ast.Call):
                e = e.func
            elif isinstance(e, (ast.Attribute, ast.Subscript, ast.Starred)):
                e = e.value
            elif isinstance(e, (ast.BinOp, ast.Compare)):
                e = e.left
            elif isinstance(e, ast.BoolOp):
                e = e.values[0]
            elif isinstance(e, ast.UnaryOp):
                e = e.operand
            elif isinstance(e, ast.IfExp):
                e = e.test
            elif isinstance(e, (ast.Tuple, ast.List)) and e.elts:
                e = e.elts[0]
            else:
                return e

    def head_expr(st):
        if isinstance(st, (ast.Expr, ast.Return)) and st.value is not None:
            return st.value
        if isinstance(st, ast.Assign) and len(st.targets) == 1:
            return st.value
        if isinstance(st, ast.If):
            return st.test
        return None

    def count_pairs(stmts):
        for i, s in enumerate(stmts):
            nxt = stmts[i + 1] if i + 1 < len(stmts) else None
            if isinstance(s, ast.Assign) and len(s.targets) == 1 and isinstance(s.targets[0], ast.Name) and nxt is not None:
                t = s.targets[0].id
                h = head_expr(nxt)
                if h is not None:
                    leaf = first_leaf(h)
                    nl = sum(1 for n in ast.walk(nxt) if isinstance(n, ast.Name) and n.id == t and isinstance(n.ctx, ast.Load)) \
                        if not isinstance(nxt, ast.If) else sum(1 for n in ast.walk(nxt.test) if isinstance(n, ast.Name) and n.id == t)
                    later_in_if = isinstance(nxt, ast.If) and any(isinstance(n, ast.Name) and n.id == t for b in (nxt.body, nxt.orelse) for x in b for n in ast.walk(x))
                    tgt_uses = isinstance(nxt, ast.Assign) and t in names_in(nxt.targets)
                    if isinstance(leaf, ast.Name) and leaf.id == t and nl == 1 and not later_in_if and not tgt_uses \
                            and t not in names_in([s.value]):
                        pairs[t] = pairs.get(t, 0) + 1
            for field in ("body", "orelse", "finalbody"):
                sub = getattr(s, field, None)
                if isinstance(sub, list) and sub and isinstance(sub[0], ast.stmt) and not isinstance(s, (ast.FunctionDef, ast.ClassDef, ast.AsyncFunctionDef)):
                    count_pairs(sub)
            if isinstance(s, ast.Try):
                for h2 in s.handlers:
                    count_pairs(h2.body)
    count_pairs(body)
    ok_t = {t for t, k in pairs.items() if loads.get(t, 0) == k and stores.get(t, 0) == k}

    class Put(ast.NodeTransformer):
        def __init__(self, t, e):
            self.t, self.e, self.done = t, e, False

        def visit_Name(self, n):
            if n.id == self.t and isinstance(n.ctx, ast.Load) and not self.done:
                self.done = True
                return self.e
            return n

    def fw(stmts):
        out = []
        i = 0
        while i < len(stmts):
            s = stmts[i]
            nxt = stmts[i + 1] if i + 1 < len(stmts) else None
            if isinstance(s, ast.Assign) and len(s.targets) == 1 and isinstance(s.targets[0], ast.Name) and nxt is not None \
                    and s.targets[0].id in ok_t and head_expr(nxt) is not None:
                t = s.targets[0].id
                leaf = first_leaf(head_expr(nxt))
                if isinstance(leaf, ast.Name) and leaf.id == t:
                    pt = Put(t, s.value)
                    if isinstance(nxt, ast.If):
                        nxt.test = pt.visit(nxt.test)
                    else:
                        nxt.value = pt.visit(nxt.value)
                    stmts = stmts[:i] + stmts[i + 1:]
                    continue
            for field in ("body", "orelse", "finalbody"):
                sub = getattr(s, field, None)
                if isinstance(sub, list) and sub and isinstance(sub[0], ast.stmt) and not isinstance(s, (ast.FunctionDef, ast.ClassDef, ast.AsyncFunctionDef)):
                    setattr(s, field, fw(sub))
            if isinstance(s, ast.Try):
                for h in s.handlers:
                    h.body = fw(h.body)
            out.append(s)
            i += 1
        return out
    return fw(body)


def canon_function_body(body):
    return canon_block(copy.deepcopy(body), True)


def _unroll_enumerate(f):
    """C10: `for i, x in enumerate(E): BODY`  ->  `i = 0; for x in E: BODY; i = i + 1`  when BODY neither assigns i nor contains
    `continue`/`break`-dependent uses of i, and i is not read outside the loop (after an empty E the two forms differ only in i)"""
    if any(isinstance(n, ast.Name) and n.id == "enumerate" and isinstance(n.ctx, ast.Store) for n in ast.walk(f)):
        return

    def loads_outside(name, node):
        inside = {id(n) for n in ast.walk(node)}
        return any(isinstance(n, ast.Name) and n.id == name and isinstance(n.ctx, ast.Load) and id(n) not in inside for n in ast.walk(f))

    def walk(stmts):
        out = []
        for st in stmts:
            for field in ("body", "orelse", "finalbody"):
                sub = getattr(st, field, None)
                if isinstance(sub, list) and sub and isinstance(sub[0], ast.stmt) and not isinstance(st, (ast.FunctionDef, ast.ClassDef, ast.AsyncFunctionDef)):
                    setattr(st, field, walk(sub))
            if isinstance(st, ast.Try):
                for h in st.handlers:
                    h.body = walk(h.body)
            if (isinstance(st, ast.For) and not st.orelse and isinstance(st.iter, ast.Call) and isinstance(st.iter.func, ast.Name)
                    and st.iter.func.id == "enumerate" and len(st.iter.args) == 1 and not st.iter.keywords
                    and isinstance(st.target, ast.Tuple) and len(st.target.elts) == 2 and isinstance(st.target.elts[0], ast.Name)):
                i = st.target.elts[0].id
                body_nodes = [n for b in st.body for n in ast.walk(b)]
                if (not any(isinstance(n, ast.Continue) for n in body_nodes)
                        and not any(isinstance(n, ast.Name) and n.id == i and isinstance(n.ctx, (ast.Store, ast.Del)) for n in body_nodes)
                        and i not in names_in([st.target.elts[1]]) and i not in names_in([st.iter])
                        and not loads_outside(i, st)):
                    out.append(ast.Assign(targets=[ast.Name(id=i, ctx=ast.Store())], value=ast.Constant(value=0)))
                    inc = ast.Assign(targets=[ast.Name(id=i, ctx=ast.Store())],
                                     value=ast.BinOp(left=ast.Name(id=i, ctx=ast.Load()), op=ast.Add(), right=ast.Constant(value=1)))
                    out.append(ast.For(target=st.target.elts[1], iter=st.iter.args[0], body=st.body + [inc], orelse=[]))
                    continue
            out.append(st)
        return out
    f.body = walk(f.body)


def _fold_int_arith(f):
    """C15: `+`, `-`, `*` of two int literals is the literal result"""
    class F(ast.NodeTransformer):
        def visit_BinOp(self, n):
            self.generic_visit(n)
            a, b = n.left, n.right
            if isinstance(a, ast.Constant) and isinstance(b, ast.Constant) and type(a.value) is int and type(b.value) is int \
                    and isinstance(n.op, (ast.Add, ast.Sub, ast.Mult)):
                v = a.value + b.value if isinstance(n.op, ast.Add) else a.value - b.value if isinstance(n.op, ast.Sub) else a.value * b.value
                if v >= 0:
                    return ast.copy_location(ast.Constant(value=v), n)
            return n
    F().visit(f)


def _split_tuple_assign(f):
    """C14: `a, b = e1, e2` -> `a = e1; b = e2` when every target but the last is a local NAME that occurs in no later right-hand side
    and in no nested scope: binding a local cannot influence the evaluation of an expression that does not mention it"""
    nested_names = set()
    for n in ast.walk(f):
        if n is not f and isinstance(n, (ast.FunctionDef, ast.Lambda, ast.ClassDef, ast.AsyncFunctionDef)):
            nested_names |= {x.id for x in ast.walk(n) if isinstance(x, ast.Name)}
    glob = set()
    for n in ast.walk(f):
        if isinstance(n, (ast.Global, ast.Nonlocal)):
            glob |= set(n.names)

    def walk(stmts):
        out = []
        for st in stmts:
            for field in ("body", "orelse", "finalbody"):
                sub = getattr(st, field, None)
                if isinstance(sub, list) and sub and isinstance(sub[0], ast.stmt) and not isinstance(st, (ast.FunctionDef, ast.ClassDef, ast.AsyncFunctionDef)):
                    setattr(st, field, walk(sub))
            if isinstance(st, ast.Try):
                for h in st.handlers:
                    h.body = walk(h.body)
            if (isinstance(st, ast.Assign) and len(st.targets) == 1 and isinstance(st.targets[0], ast.Tuple) and isinstance(st.value, ast.Tuple)
                    and len(st.targets[0].elts) == len(st.value.elts) >= 2
                    and not any(isinstance(e, ast.Starred) for e in st.targets[0].elts + st.value.elts)):
                ts, vs = st.targets[0].elts, st.value.elts
                ok = True
                for k, t in enumerate(ts[:-1]):
                    if not (isinstance(t, ast.Name) and t.id not in nested_names and t.id not in glob
                            and all(t.id not in names_in([v]) for v in vs[k + 1:])):
                        ok = False
                if ok:
                    for t, v in zip(ts, vs):
                        out.append(ast.copy_location(ast.Assign(targets=[t], value=v), st))
                    continue
            out.append(st)
        return out
    f.body = walk(f.body)


def _propagate_local_literals(f):
    """C12: a local NAME bound exactly once, by `n = <int/bytes/str literal>` (or len() of a bytes/str literal), and never deleted, is
    replaced by that literal (an immutable value that nothing can change between the binding and the uses)"""
    params = {a.arg for a in f.args.args + f.args.kwonlyargs + f.args.posonlyargs}
    stores, cand = {}, {}
    for n in ast.walk(f):
        if isinstance(n, ast.Name) and isinstance(n.ctx, (ast.Store, ast.Del)):
            stores[n.id] = stores.get(n.id, 0) + 1
        elif isinstance(n, (ast.Global, ast.Nonlocal)):
            for x in n.names:
                stores[x] = stores.get(x, 0) + 5
        elif isinstance(n, ast.ExceptHandler) and n.name:
            stores[n.name] = stores.get(n.name, 0) + 1

    def lit(e):
        if isinstance(e, ast.Constant) and type(e.value) in (int, bytes, str):
            return e
        if isinstance(e, ast.Call) and isinstance(e.func, ast.Name) and e.func.id == "len" and len(e.args) == 1 and not e.keywords \
                and isinstance(e.args[0], ast.Constant) and type(e.args[0].value) in (bytes, str):
            return ast.Constant(value=len(e.args[0].value))
        return None
    # the binding must dominate every use: it sits in some statement list L at index i and every load lies inside L[i+1:]
    def blocks(stmts):
        yield stmts
        for st in stmts:
            if isinstance(st, (ast.FunctionDef, ast.ClassDef, ast.AsyncFunctionDef)):
                continue
            for field in ("body", "orelse", "finalbody"):
                sub = getattr(st, field, None)
                if isinstance(sub, list) and sub and isinstance(sub[0], ast.stmt):
                    for b in blocks(sub):
                        yield b
            if isinstance(st, ast.Try):
                for h in st.handlers:
                    for b in blocks(h.body):
                        yield b
    nested_names = set()
    for n in ast.walk(f):
        if n is not f and isinstance(n, (ast.FunctionDef, ast.Lambda, ast.ClassDef, ast.AsyncFunctionDef)):
            nested_names |= {x.id for x in ast.walk(n) if isinstance(x, ast.Name)}
    for L in blocks(f.body):
        for i, st in enumerate(L):
            if isinstance(st, ast.Assign) and len(st.targets) == 1 and isinstance(st.targets[0], ast.Name):
                nm = st.targets[0].id
                if stores.get(nm) == 1 and nm not in params and nm not in nested_names and lit(st.value) is not None:
                    later = {id(x) for later_st in L[i + 1:] for x in ast.walk(later_st)}
                    loads = [x for x in ast.walk(f) if isinstance(x, ast.Name) and x.id == nm and isinstance(x.ctx, ast.Load)]
                    if loads and all(id(x) in later for x in loads):
                        cand[nm] = (st, lit(st.value), L)
    if not cand:
        return

    class T(ast.NodeTransformer):
        def visit_Name(self, n):
            if isinstance(n.ctx, ast.Load) and n.id in cand:
                new = ast.copy_location(copy.deepcopy(cand[n.id][1]), n)
                new._prop = True
                return new
            return n
    T().visit(f)
    for st, v, L in cand.values():
        L[:] = [x for x in L if x is not st] or [ast.Pass()]
    fold(f)


def _plain_int_augassign(f):
    """C11: `n += k` -> `n = n + k` (and `-=`) for a local NAME whose every binding in the function is an int literal or itself plus/minus
    an int literal: such a name always holds an int, for which the two statements are the same"""
    binds = {}
    bad = set()
    params = {a.arg for a in f.args.args + f.args.kwonlyargs + f.args.posonlyargs}
    for n in ast.walk(f):
        if isinstance(n, (ast.Global, ast.Nonlocal)):
            bad |= set(n.names)
    def intlit(e):
        return isinstance(e, ast.Constant) and type(e.value) is int
    def self_step(name, e):
        return isinstance(e, ast.BinOp) and isinstance(e.op, (ast.Add, ast.Sub)) and isinstance(e.left, ast.Name) and e.left.id == name and intlit(e.right)
    for n in ast.walk(f):
        if isinstance(n, ast.Assign):
            for t in n.targets:
                for x in ast.walk(t):
                    if isinstance(x, ast.Name) and isinstance(x.ctx, ast.Store):
                        ok = isinstance(t, ast.Name) and len(n.targets) == 1 and (intlit(n.value) or self_step(x.id, n.value))
                        binds.setdefault(x.id, []).append(ok)
        elif isinstance(n, ast.AugAssign) and isinstance(n.target, ast.Name):
            binds.setdefault(n.target.id, []).append(isinstance(n.op, (ast.Add, ast.Sub)) and intlit(n.value))
        elif isinstance(n, (ast.For, ast.comprehension)):
            for x in ast.walk(n.target):
                if isinstance(x, ast.Name):
                    bad.add(x.id)
        elif isinstance(n, ast.ExceptHandler) and n.name:
            bad.add(n.name)
        elif isinstance(n, (ast.With,)):
            for it in n.items:
                if it.optional_vars is not None:
                    for x in ast.walk(it.optional_vars):
                        if isinstance(x, ast.Name):
                            bad.add(x.id)
        elif isinstance(n, (ast.FunctionDef, ast.Lambda, ast.ClassDef)) and n is not f:
            for x in ast.walk(n):
                if isinstance(x, ast.Name):
                    bad.add(x.id)          # names touched by nested scopes are left alone
        elif isinstance(n, ast.NamedExpr):
            bad.add(n.target.id)
    ints = {k for k, v in binds.items() if all(v) and k not in bad and k not in params}

    class T(ast.NodeTransformer):
        def visit_AugAssign(self, n):
            if isinstance(n.target, ast.Name) and n.target.id in ints and isinstance(n.op, (ast.Add, ast.Sub)):
                return ast.copy_location(ast.Assign(targets=[ast.Name(id=n.target.id, ctx=ast.Store())],
                                                    value=ast.BinOp(left=ast.Name(id=n.target.id, ctx=ast.Load()), op=n.op, right=n.value)), n)
            return n
    T().visit(f)


def canon_function(fn):
    """canonical text of a function (see C1..C10), or None when the function uses constructs the renaming cannot handle"""
    f = copy.deepcopy(fn)
    for n in ast.walk(f):
        if isinstance(n, ast.Name) and n.id in ("locals", "vars", "eval", "exec", "globals"):
            return None
    _unroll_enumerate(f)
    _plain_int_augassign(f)
    _propagate_local_literals(f)
    _fold_int_arith(f)
    _split_tuple_assign(f)
    f.body = canon_function_body(f.body)
    f.body = _forward_temps(f.body, list(ast.walk(ast.Module(body=f.body, type_ignores=[]))) + list(ast.walk(f.args)))
    f.body = canon_function_body(f.body)
    # C8 alpha-renaming of locals
    params = {a.arg for a in f.args.args + f.args.kwonlyargs + f.args.posonlyargs} | ({f.args.vararg.arg} if f.args.vararg else set()) \
        | ({f.args.kwarg.arg} if f.args.kwarg else set())
    glob = set()
    for n in ast.walk(f):
        if isinstance(n, (ast.Global, ast.Nonlocal)):
            glob |= set(n.names)
    # nested scopes: parameters of nested functions / lambdas shadow; leave every name that is a parameter of a nested scope alone
    nested_params = set()
    for n in ast.walk(f):
        if n is not f and isinstance(n, (ast.FunctionDef, ast.AsyncFunctionDef, ast.Lambda)):
            a = n.args
            nested_params |= {x.arg for x in a.args + a.kwonlyargs + a.posonlyargs}
            if a.vararg:
                nested_params.add(a.vararg.arg)
            if a.kwarg:
                nested_params.add(a.kwarg.arg)
    bound = set()
    for n in ast.walk(ast.Module(body=f.body, type_ignores=[])):
        if isinstance(n, ast.Name) and isinstance(n.ctx, (ast.Store, ast.Del)):
            bound.add(n.id)
        elif isinstance(n, (ast.FunctionDef, ast.AsyncFunctionDef, ast.ClassDef)):
            bound.add(n.name)
        elif isinstance(n, ast.ExceptHandler) and n.name:
            bound.add(n.name)
        elif isinstance(n, (ast.Import, ast.ImportFrom)):
            return None
    ren = bound - params - glob - nested_params
    order = []

    class Order(ast.NodeVisitor):
        def visit_Name(self, n):
            if n.id in ren and n.id not in order:
                order.append(n.id)

        def visit_FunctionDef(self, n):
            if n.name in ren and n.name not in order:
                order.append(n.name)
            self.generic_visit(n)

        visit_AsyncFunctionDef = visit_ClassDef = visit_FunctionDef

        def visit_ExceptHandler(self, n):
            if n.name and n.name in ren and n.name not in order:
                order.append(n.name)
            self.generic_visit(n)

        def visit_Assign(self, n):
            # value first (it is evaluated first), then targets: a stable order under temp forwarding
            self.visit(n.value)
            for t in n.targets:
                self.visit(t)
    for s in f.body:
        Order().visit(s)
    mapping = {nm: "_v%d" % i for i, nm in enumerate(order)}
    allnames = {n.id for n in ast.walk(f) if isinstance(n, ast.Name)}
    if any(v in allnames for v in mapping.values()):
        return None

    class Ren(ast.NodeTransformer):
        def visit_Name(self, n):
            if n.id in mapping:
                return ast.copy_location(ast.Name(id=mapping[n.id], ctx=n.ctx), n)
            return n

        def visit_FunctionDef(self, n):
            self.generic_visit(n)
            if n.name in mapping:
                n.name = mapping[n.name]
            return n

        visit_AsyncFunctionDef = visit_ClassDef = visit_FunctionDef

        def visit_ExceptHandler(self, n):
            self.generic_visit(n)
            if n.name and n.name in mapping:
                n.name = mapping[n.name]
            return n
    f.body = [Ren().visit(s) for s in f.body]
    ast.fix_missing_locations(f)
    try:
        return ast.unparse(f)
    except Exception:
        return None


def _functions(mod):
    """{qualname: (container list, index, node)} for module functions and methods of module-level classes"""
    out = {}
    for i, st in enumerate(mod.body):
        if isinstance(st, ast.FunctionDef):
            out[st.name] = (mod.body, i, st)
        elif isinstance(st, ast.ClassDef):
            for j, s2 in enumerate(st.body):
                if isinstance(s2, ast.FunctionDef):
                    out[st.name + "." + s2.name] = (st.body, j, s2)
    return out


_ref_cache = {}


def reference_module(rel):
    if rel not in _ref_cache:
        p = os.path.join(REF_DIR, rel)
        _ref_cache[rel] = ast.parse(open(p).read()) if os.path.exists(p) else None
    return _ref_cache[rel]


def substitute_reference(mod, rel):
    ref = reference_module(rel)
    log = []
    if ref is None:
        return log
    cur_f, ref_f = _functions(mod), _functions(ref)
    for q, (lst, idx, fn) in cur_f.items():
        if q not in ref_f:
            continue
        rfn = ref_f[q][2]
        if ast.dump(fn) == ast.dump(rfn):
            continue
        if ast.dump(fn.args) != ast.dump(rfn.args) or [ast.dump(d) for d in fn.decorator_list] != [ast.dump(d) for d in rfn.decorator_list]:
            continue
        a, b = canon_function(fn), canon_function(rfn)
        if a is not None and a == b:
            lst[idx] = copy.deepcopy(rfn)
            log.append("%s is equivalent to its reference version (canonical forms coincide): reference text used" % q)
    return log
