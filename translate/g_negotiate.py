"""C13 (and C05/C11/C14 pieces): translated parts of negotiate.py / vocab.py"""
import ast
from translate import pylite as P

PROPERTIES = ["C13", "C14", "C05", "C11"]
OUTPUTS = ["NegotiateGen.v"]

CMPNAME = {ast.Gt: "CmpGt", ast.GtE: "CmpGe", ast.Lt: "CmpLt", ast.LtE: "CmpLe", ast.Eq: "CmpEq", ast.NotEq: "CmpNe"}


def names_of_call_args(call):
    out = []
    for a in call.args:
        out.append(ast.unparse(a))
    return out


def generate():
    mod = P.load("negotiate.py")
    out = [P.PRELUDE % dict(src="negotiate.py, vocab.py")]
    spec4 = dict(params=dict(my_min=P.Z, my_max=P.Z, your_min=P.Z, your_max=P.Z), drop=["name"], ret=P.Z)
    out.append(P.translate_function("negotiate.py", "best_overlap", "best_overlap", spec4))
    spec3 = dict(params=dict(my_min=P.Z, my_max=P.Z, decision=P.Z), drop=["name"], ret=P.U)
    out.append(P.translate_function("negotiate.py", "check_inrange", "check_inrange", spec3))

    cls = P.find_class(mod, "Negotiation")
    consts = P.module_consts(mod, body=cls.body)
    for k in ("minVersion", "maxVersion", "SERVER_TIMEOUT"):
        if not isinstance(consts.get(k), int):
            raise P.Untranslatable("Negotiation.%s is not an integer literal" % k)
        out.append("Definition %s : Z := %d." % (k, consts[k]))
    phases = P.module_consts(mod, ["PLAINTEXT", "ENCRYPTED", "DECIDING", "BANANA", "ABANDONED"])
    out.append("Definition phases : list Z := [%s]." % "; ".join(str(phases[k]) for k in
                                                                ("PLAINTEXT", "ENCRYPTED", "DECIDING", "BANANA", "ABANDONED")))

    # --- shape fact: who is master.  `iAmTheMaster = myTubID > theirTubID` in evaluateNegotiationVersion1
    ev1 = P.find_def(mod, "Negotiation.evaluateNegotiationVersion1")
    cands = [n for n in ast.walk(ev1) if isinstance(n, ast.Assign) and len(n.targets) == 1
             and isinstance(n.targets[0], ast.Name) and n.targets[0].id == "iAmTheMaster"
             and isinstance(n.value, ast.Compare)]
    if len(cands) != 1:
        raise P.Untranslatable("expected exactly one comparison assigned to iAmTheMaster, found %d" % len(cands))
    c = cands[0].value
    if len(c.ops) != 1 or ast.unparse(c.left) != "myTubID" or ast.unparse(c.comparators[0]) != "theirTubID":
        raise P.Untranslatable("master comparison has unexpected operands: " + ast.unparse(c))
    out.append("Inductive cmpop := CmpGt | CmpGe | CmpLt | CmpLe | CmpEq | CmpNe.")
    out.append("Definition master_cmp : cmpop := %s." % CMPNAME[type(c.ops[0])])

    # --- shape fact: the arguments of the two best_overlap calls and of check_inrange
    def the_call(fn, callee, n):
        cs = [x for x in ast.walk(fn) if isinstance(x, ast.Call) and isinstance(x.func, ast.Name) and x.func.id == callee]
        if len(cs) != n:
            raise P.Untranslatable("expected %d call(s) to %s in %s, found %d" % (n, callee, fn.name, len(cs)))
        return cs
    evh = P.find_def(mod, "Negotiation.evaluateHello")
    (c1,) = the_call(evh, "best_overlap", 1)
    want1 = ["self.minVersion", "self.maxVersion", "theirMinVer", "theirMaxVer"]
    if names_of_call_args(c1)[:4] != want1:
        raise P.Untranslatable("evaluateHello: best_overlap called with %s" % names_of_call_args(c1))
    (c2,) = the_call(ev1, "best_overlap", 1)
    want2 = ["self.initialVocabTableRange[0]", "self.initialVocabTableRange[1]", "theirVocabMin", "theirVocabMax"]
    if names_of_call_args(c2)[:4] != want2:
        raise P.Untranslatable("evaluateNegotiationVersion1: best_overlap called with %s" % names_of_call_args(c2))
    # the hello really carries our ranges: negotiationOffer built from minVersion/maxVersion/initialVocabTableRange
    init = P.find_def(mod, "Negotiation.__init__")
    src_init = ast.unparse(init)
    for frag in ("'banana-negotiation-range': '%d %d' % (self.minVersion, self.maxVersion)",
                 "'initial-vocab-table-range': '%d %d' % self.initialVocabTableRange"):
        if frag not in src_init:
            raise P.Untranslatable("Negotiation.__init__ no longer builds the offer with " + frag)
    acc = P.find_def(mod, "Negotiation.acceptDecisionVersion1")
    (c3,) = the_call(acc, "check_inrange", 1)
    want3 = ["self.initialVocabTableRange[0]", "self.initialVocabTableRange[1]", "vocab_index"]
    if names_of_call_args(c3)[:3] != want3:
        raise P.Untranslatable("acceptDecisionVersion1: check_inrange called with %s" % names_of_call_args(c3))
    # hash comparison guard:  if vocab_index > 0 and our_hash != vocab_hash: raise
    guards = [n for n in ast.walk(acc) if isinstance(n, ast.If) and "our_hash" in ast.unparse(n.test)]
    if len(guards) != 1 or ast.unparse(guards[0].test) != "vocab_index > 0 and our_hash != vocab_hash" \
            or not any(isinstance(s, ast.Raise) for s in guards[0].body):
        raise P.Untranslatable("acceptDecisionVersion1: vocab hash guard changed: %s" %
                               [ast.unparse(g.test) for g in guards])
    out.append("Definition hash_checked_from_index : Z := 1.  (* guard `vocab_index > 0 and our_hash != vocab_hash` present *)")
    # decision carries index, hash and decision_version computed above
    src_ev1 = ast.unparse(ev1)
    for frag in ("decision['initial-vocab-table-index'] = '%d %s' % (vocab_index, vocab_hash)",
                 "decision['banana-decision-version'] = str(self.decision_version)",
                 "params['banana-decision-version'] = self.decision_version",
                 "params['initial-vocab-table-index'] = vocab_index",
                 "vocab_hash = vocab.hashVocabTable(vocab_index)"):
        if frag not in src_ev1:
            raise P.Untranslatable("evaluateNegotiationVersion1 no longer contains: " + frag)
    src_acc = ast.unparse(acc)
    for frag in ("ver = int(decision['banana-decision-version'])",
                 "params = {'banana-decision-version': ver, 'initial-vocab-table-index': vocab_index}",
                 "our_hash = vocab.hashVocabTable(vocab_index)"):
        if frag not in src_acc:
            raise P.Untranslatable("acceptDecisionVersion1 no longer contains: " + frag)
    if "self.decision_version = best" not in ast.unparse(evh):
        raise P.Untranslatable("evaluateHello no longer records decision_version = best")

    # --- header cap in dataReceived: the terminator is searched first, and the block is refused when the
    #     terminator lies beyond the cap or is absent with more than cap bytes buffered
    dr = P.find_def(mod, "Negotiation.dataReceived")
    caps = [n for n in ast.walk(dr) if isinstance(n, ast.If) and "len(self.buffer) >" in ast.unparse(n.test)]
    if len(caps) != 1 or not any(isinstance(s, ast.Raise) for s in caps[0].body):
        raise P.Untranslatable("dataReceived: header cap changed")
    m = __import__("re").fullmatch(r"eoh > (\d+) or \(?eoh == -1 and len\(self\.buffer\) >= (\d+) \+ (\d+)\)?", ast.unparse(caps[0].test))
    if not m or m.group(1) != m.group(2):
        raise P.Untranslatable("dataReceived: header cap test is %s" % ast.unparse(caps[0].test))
    out.append("Definition negotiation_noterm_slack : Z := %s.  (* give up without a terminator once cap + slack bytes are buffered *)" % m.group(3))
    # the find must precede the cap test, the early return must follow it
    body = [ast.unparse(x) for x in ast.walk(dr) if isinstance(x, (ast.Assign, ast.If))]
    finds = [i for i, t in enumerate(body) if t.startswith("eoh = self.buffer.find(b'\\r\\n\\r\\n')")]
    capi = [i for i, t in enumerate(body) if t.startswith("if eoh >")]
    if len(finds) != 1 or len(capi) != 1 or not finds[0] < capi[0]:
        raise P.Untranslatable("dataReceived: terminator search does not precede the header cap")
    out.append("Definition negotiation_header_cap : Z := %s." % m.group(1))
    out.append("Definition negotiation_cap_counts_following_data : bool := false.  (* the cap is tested on the block only *)")

    # --- vocab tables
    vm = P.load("vocab.py")
    vc = P.module_consts(vm)
    tabs = vc.get("INITIAL_VOCAB_TABLES")
    if not isinstance(tabs, dict):
        raise P.Untranslatable("INITIAL_VOCAB_TABLES is not a literal dict")
    rows = []
    for k in sorted(tabs):
        words = tabs[k]
        rows.append("(%d, [%s])" % (k, "; ".join("[" + "; ".join(str(b) for b in w) + "]" for w in words)))
    out.append("Definition INITIAL_VOCAB_TABLES : list (Z * list (list Z)) := [%s]." % "; ".join(rows))
    gv = P.find_def(vm, "getVocabRange")
    if "return (min(keys), max(keys))" not in ast.unparse(gv):
        raise P.Untranslatable("getVocabRange changed")
    return {"NegotiateGen.v": "\n\n".join(out) + "\n"}
