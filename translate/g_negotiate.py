"""C13 (and C05/C11/C14 pieces): translated parts of negotiate.py / vocab.py"""
import ast
from translate import pylite as P

PROPERTIES = ["C13", "C14", "C05", "C11"]
OUTPUTS = ["NegotiateGen.v"]

CMPNAME = {ast.Gt: "CmpGt", ast.GtE: "CmpGe", ast.Lt: "CmpLt", ast.LtE: "CmpLe", ast.Eq: "CmpEq", ast.NotEq: "CmpNe"}


def names_of_call_args(call, fn=None):
    """the argument expressions of a call to a module-level function.  An argument that is a local NAME is read through its binding
    when that binding is one of a run of simple assignments `n = E` IMMEDIATELY before the statement containing the call, n is bound
    nowhere else in the function and read nowhere but in this call, and the run's right-hand sides are evaluated in the same left-to-
    right order as the arguments they feed: `a = E1; b = E2; f(a, b, x)` evaluates E1, E2, x exactly as `f(E1, E2, x)` does (only the
    look-up of the global name f moves, which evaluates nothing)."""
    out = [ast.unparse(a) for a in call.args]
    if fn is None:
        return out
    # the statement list and index of the statement that contains the call
    def blocks(stmts):
        yield stmts
        for st in stmts:
            for field in ("body", "orelse", "finalbody"):
                sub = getattr(st, field, None)
                if isinstance(sub, list) and sub and isinstance(sub[0], ast.stmt) and not isinstance(st, (ast.FunctionDef, ast.ClassDef)):
                    for b in blocks(sub):
                        yield b
            if isinstance(st, ast.Try):
                for h in st.handlers:
                    for b in blocks(h.body):
                        yield b
    where = None
    for L in blocks(fn.body):
        for i, st in enumerate(L):
            own = [n for n in ast.walk(st) if n is call]
            inner = any(isinstance(getattr(st, f, None), list) and any(n is call for x in getattr(st, f) if isinstance(x, ast.AST) for n in ast.walk(x))
                        for f in ("body", "orelse", "finalbody"))
            if own and not inner:
                where = (L, i)
    if where is None:
        return out
    L, i = where
    run = {}
    order = []
    j = i - 1
    while j >= 0 and isinstance(L[j], ast.Assign) and len(L[j].targets) == 1 and isinstance(L[j].targets[0], ast.Name):
        run[L[j].targets[0].id] = L[j].value
        order.insert(0, L[j].targets[0].id)
        j -= 1
    stores, loads = {}, {}
    for n in ast.walk(fn):
        if isinstance(n, ast.Name):
            d = stores if isinstance(n.ctx, (ast.Store, ast.Del)) else loads
            d[n.id] = d.get(n.id, 0) + 1
    argnames = [a.id for a in call.args if isinstance(a, ast.Name)]
    used = [n for n in argnames if n in run and stores.get(n) == 1 and loads.get(n) == 1 and argnames.count(n) == 1]
    # same relative order as the bindings, and no other argument before them has side effects to reorder with (they are names or were
    # plain expressions already evaluated in argument order after the bindings)
    if used != [n for n in order if n in used]:
        return out
    first_used_pos = min([k for k, a in enumerate(call.args) if isinstance(a, ast.Name) and a.id in used] or [0])
    if any(not isinstance(a, (ast.Name, ast.Constant)) for a in call.args[:first_used_pos]):
        return out
    # an alias of an attribute of self: `t = self.a` in the run, t bound nowhere else and read only as t[<const>] arguments of this
    # call, nothing but names/constants/such subscripts before its last use: `f(t[0], t[1])` reads what `f(self.a[0], self.a[1])` reads
    # (subscripting the tuple the attribute holds rebinds nothing)
    alias = {}
    for n, v in run.items():
        if (isinstance(v, ast.Attribute) and isinstance(v.value, ast.Name) and v.value.id == "self" and stores.get(n) == 1):
            subs = [a for a in call.args if isinstance(a, ast.Subscript) and isinstance(a.value, ast.Name) and a.value.id == n
                    and isinstance(a.slice, ast.Constant) and isinstance(a.slice.value, int)]
            if subs and len(subs) == loads.get(n, 0):
                last = max(k for k, a in enumerate(call.args) if a in subs)
                simple = lambda a: isinstance(a, (ast.Name, ast.Constant)) or a in subs
                if all(simple(a) for a in call.args[:last]) and all(isinstance(run[m], (ast.Attribute, ast.Name, ast.Constant)) for m in order[order.index(n) + 1:]):
                    alias[n] = v
    res = []
    for a in call.args:
        if isinstance(a, ast.Name) and a.id in used:
            res.append(ast.unparse(run[a.id]))
        elif isinstance(a, ast.Subscript) and isinstance(a.value, ast.Name) and a.value.id in alias:
            res.append("%s[%d]" % (ast.unparse(alias[a.value.id]), a.slice.value))
        else:
            res.append(ast.unparse(a))
    return res


def generate():
    mod = P.load("negotiate.py")
    out = [P.PRELUDE % dict(src="negotiate.py, vocab.py")]
    spec4 = dict(params=dict(my_min=P.Z, my_max=P.Z, your_min=P.Z, your_max=P.Z), drop=["name"], ret=P.Z)
    out.append(P.translate_function("negotiate.py", "best_overlap", "best_overlap", spec4))
    spec3 = dict(params=dict(my_min=P.Z, my_max=P.Z, decision=P.Z), drop=["name"], ret=P.U)
    out.append(P.translate_function("negotiate.py", "check_inrange", "check_inrange", spec3))

    cls = P.find_class(mod, "Negotiation")
    consts = P.module_consts(mod, body=cls.body)
    for k in ("minVersion", "maxVersion", "SERVER_TIMEOUT"):
        if not isinstance(consts.get(k), int):
            raise P.Untranslatable("Negotiation.%s is not an integer literal" % k)
        out.append("Definition %s : Z := %d." % (k, consts[k]))
    phases = P.module_consts(mod, ["PLAINTEXT", "ENCRYPTED", "DECIDING", "BANANA", "ABANDONED"])
    out.append("Definition phases : list Z := [%s]." % "; ".join(str(phases[k]) for k in
                                                                ("PLAINTEXT", "ENCRYPTED", "DECIDING", "BANANA", "ABANDONED")))

    # --- shape fact: who is master.  `iAmTheMaster = myTubID > theirTubID` in evaluateNegotiationVersion1
    ev1 = P.find_def(mod, "Negotiation.evaluateNegotiationVersion1")
    cands = [n for n in ast.walk(ev1) if isinstance(n, ast.Assign) and len(n.targets) == 1
             and isinstance(n.targets[0], ast.Name) and n.targets[0].id == "iAmTheMaster"
             and isinstance(n.value, ast.Compare)]
    if len(cands) != 1:
        raise P.Untranslatable("expected exactly one comparison assigned to iAmTheMaster, found %d" % len(cands))
    c = cands[0].value
    if len(c.ops) != 1 or ast.unparse(c.left) != "myTubID" or ast.unparse(c.comparators[0]) != "theirTubID":
        raise P.Untranslatable("master comparison has unexpected operands: " + ast.unparse(c))
    out.append("Inductive cmpop := CmpGt | CmpGe | CmpLt | CmpLe | CmpEq | CmpNe.")
    out.append("Definition master_cmp : cmpop := %s." % CMPNAME[type(c.ops[0])])

    # --- shape fact: the arguments of the two best_overlap calls and of check_inrange
    def the_call(fn, callee, n):
        cs = [x for x in ast.walk(fn) if isinstance(x, ast.Call) and isinstance(x.func, ast.Name) and x.func.id == callee]
        if len(cs) != n:
            raise P.Untranslatable("expected %d call(s) to %s in %s, found %d" % (n, callee, fn.name, len(cs)))
        return cs
    evh = P.find_def(mod, "Negotiation.evaluateHello")
    (c1,) = the_call(evh, "best_overlap", 1)
    want1 = ["self.minVersion", "self.maxVersion", "theirMinVer", "theirMaxVer"]
    if names_of_call_args(c1, evh)[:4] != want1:
        raise P.Untranslatable("evaluateHello: best_overlap called with %s" % names_of_call_args(c1, evh))
    (c2,) = the_call(ev1, "best_overlap", 1)
    want2 = ["self.initialVocabTableRange[0]", "self.initialVocabTableRange[1]", "theirVocabMin", "theirVocabMax"]
    if names_of_call_args(c2, ev1)[:4] != want2:
        raise P.Untranslatable("evaluateNegotiationVersion1: best_overlap called with %s" % names_of_call_args(c2, ev1))
    # the hello really carries our ranges: negotiationOffer built from minVersion/maxVersion/initialVocabTableRange
    init = P.find_def(mod, "Negotiation.__init__")
    src_init = ast.unparse(init)
    for frag in ("'banana-negotiation-range': '%d %d' % (self.minVersion, self.maxVersion)",
                 "'initial-vocab-table-range': '%d %d' % self.initialVocabTableRange"):
        if frag not in src_init:
            raise P.Untranslatable("Negotiation.__init__ no longer builds the offer with " + frag)
    acc = P.find_def(mod, "Negotiation.acceptDecisionVersion1")
    (c3,) = the_call(acc, "check_inrange", 1)
    want3 = ["self.initialVocabTableRange[0]", "self.initialVocabTableRange[1]", "vocab_index"]
    if names_of_call_args(c3, acc)[:3] != want3:
        raise P.Untranslatable("acceptDecisionVersion1: check_inrange called with %s" % names_of_call_args(c3, acc))
    # hash comparison guard:  if vocab_index > 0 and our_hash != vocab_hash: raise
    guards = [n for n in ast.walk(acc) if isinstance(n, ast.If) and "our_hash" in ast.unparse(n.test)]
    if len(guards) != 1 or ast.unparse(guards[0].test) != "vocab_index > 0 and our_hash != vocab_hash" \
            or not any(isinstance(s, ast.Raise) for s in guards[0].body):
        raise P.Untranslatable("acceptDecisionVersion1: vocab hash guard changed: %s" %
                               [ast.unparse(g.test) for g in guards])
    out.append("Definition hash_checked_from_index : Z := 1.  (* guard `vocab_index > 0 and our_hash != vocab_hash` present *)")
    # decision carries index, hash and decision_version computed above
    src_ev1 = ast.unparse(ev1)
    for frag in ("decision['initial-vocab-table-index'] = '%d %s' % (vocab_index, vocab_hash)",
                 "decision['banana-decision-version'] = str(self.decision_version)",
                 "params['banana-decision-version'] = self.decision_version",
                 "params['initial-vocab-table-index'] = vocab_index",
                 "vocab_hash = vocab.hashVocabTable(vocab_index)"):
        if frag not in src_ev1:
            raise P.Untranslatable("evaluateNegotiationVersion1 no longer contains: " + frag)
    src_acc = ast.unparse(acc)
    for frag in ("ver = int(decision['banana-decision-version'])",
                 "params = {'banana-decision-version': ver, 'initial-vocab-table-index': vocab_index}",
                 "our_hash = vocab.hashVocabTable(vocab_index)"):
        if frag not in src_acc:
            raise P.Untranslatable("acceptDecisionVersion1 no longer contains: " + frag)
    if "self.decision_version = best" not in ast.unparse(evh):
        raise P.Untranslatable("evaluateHello no longer records decision_version = best")

    # --- header cap in dataReceived, read by MEANING: the statements between the terminator search and the split of the buffer are
    #     executed symbolically into one function of (eoh, len(self.buffer)) -> 0 refuse (raise) / 1 wait (return) / 2 split.
    #     Any arrangement of the tests (flat `or`, nested ifs, early returns, named int constants) yields a function that
    #     lib/NegotiateProofs.v proves equal to the specification over the cap and the slack; nothing else is accepted.
    dr = P.find_def(mod, "Negotiation.dataReceived")
    tries = [n for n in dr.body if isinstance(n, ast.Try)]
    if len(tries) != 1:
        raise P.Untranslatable("dataReceived: expected exactly one try block")
    tb = tries[0].body
    finds = [i for i, st in enumerate(tb) if ast.unparse(st) == "eoh = self.buffer.find(b'\\r\\n\\r\\n')"]
    if len(finds) != 1:
        raise P.Untranslatable("dataReceived: the terminator search `eoh = self.buffer.find(b'\\r\\n\\r\\n')` was not found exactly once")
    if any("self.buffer" in ast.unparse(st) and not isinstance(st, ast.Expr) for st in tb[:finds[0]]):
        raise P.Untranslatable("dataReceived: the buffer is touched inside the try block before the terminator search")
    consts_eoh, consts_len, split_k = set(), set(), []
    ienv = {}          # locals bound to int literals between the search and the split (bound once, checked below)

    def val(e):
        u = ast.unparse(e)
        if u == "eoh":
            return "eoh"
        if u == "len(self.buffer)":
            return "buflen"
        try:
            v = P.const_expr(e, ienv)
        except P.Untranslatable:
            v = None
        if type(v) is int:
            return v
        raise P.Untranslatable("dataReceived: header test compares %s" % u)

    def coqv(v):
        return ("(%d)" % v) if isinstance(v, int) else v

    def cond(e):
        if isinstance(e, ast.BoolOp):
            return "(" + (" && " if isinstance(e.op, ast.And) else " || ").join(cond(v) for v in e.values) + ")"
        if isinstance(e, ast.UnaryOp) and isinstance(e.op, ast.Not):
            return "(negb %s)" % cond(e.operand)
        if isinstance(e, ast.Compare) and len(e.ops) == 1:
            a, b = val(e.left), val(e.comparators[0])
            for x, y in ((a, b), (b, a)):
                if x == "eoh" and isinstance(y, int):
                    consts_eoh.add(y)
                if x == "buflen" and isinstance(y, int):
                    consts_len.add(y)
            op = e.ops[0]
            A, B = coqv(a), coqv(b)
            if isinstance(op, ast.Gt):
                return "(%s <? %s)" % (B, A)
            if isinstance(op, ast.GtE):
                return "(%s <=? %s)" % (B, A)
            if isinstance(op, ast.Lt):
                return "(%s <? %s)" % (A, B)
            if isinstance(op, ast.LtE):
                return "(%s <=? %s)" % (A, B)
            if isinstance(op, ast.Eq):
                return "(%s =? %s)" % (A, B)
            if isinstance(op, ast.NotEq):
                return "(negb (%s =? %s))" % (A, B)
        raise P.Untranslatable("dataReceived: header test %s" % ast.unparse(e))

    def is_split(st, rest):
        """`header, self.buffer = self.buffer[:eoh], self.buffer[eoh+K:]` or the same as two assignments"""
        u = ast.unparse(st)
        def kof(txt):
            txt = txt.strip()
            if txt.isdigit():
                return int(txt)
            return ienv.get(txt)
        m1 = __import__("re").fullmatch(r"\(?header, self\.buffer\)? = \(?self\.buffer\[:eoh\], self\.buffer\[eoh \+ (\w+):\]\)?", u)
        if m1 and kof(m1.group(1)) is not None:
            split_k.append(kof(m1.group(1)))
            return True
        if u == "header = self.buffer[:eoh]" and rest:
            m2 = __import__("re").fullmatch(r"self\.buffer = self\.buffer\[eoh \+ (\w+):\]", ast.unparse(rest[0]))
            if m2 and kof(m2.group(1)) is not None:
                split_k.append(kof(m2.group(1)))
                return True
        return False

    def run(stmts):
        if not stmts:
            raise P.Untranslatable("dataReceived: a path after the terminator search neither raises, returns nor splits the buffer")
        st, rest = stmts[0], list(stmts[1:])
        if isinstance(st, ast.Raise):
            if "BananaError" not in ast.unparse(st):
                raise P.Untranslatable("dataReceived: the header refusal raises %s" % ast.unparse(st))
            return "0"
        if isinstance(st, ast.Return):
            if st.value is not None and ast.unparse(st.value) != "None":
                raise P.Untranslatable("dataReceived: return with a value")
            return "1"
        if is_split(st, rest):
            return "2"
        if isinstance(st, ast.Assign) and len(st.targets) == 1 and isinstance(st.targets[0], ast.Name) and st.targets[0].id not in ("eoh", "header"):
            # a local bound (once in the whole function) to an int literal
            nm = st.targets[0].id
            nstores = sum(1 for n in ast.walk(dr) if isinstance(n, ast.Name) and n.id == nm and isinstance(n.ctx, (ast.Store, ast.Del)))
            v = val(st.value)
            if nstores != 1 or not isinstance(v, int):
                raise P.Untranslatable("dataReceived: local %s is not a once-bound int literal" % nm)
            ienv[nm] = v
            return run(rest)
        if isinstance(st, ast.If):
            return "(if %s then %s else %s)" % (cond(st.test), run(list(st.body) + rest), run(list(st.orelse) + rest))
        raise P.Untranslatable("dataReceived: unexpected statement between the terminator search and the split: %s" % ast.unparse(st)[:100])
    verdict = run(tb[finds[0] + 1:])
    out.append("(* Negotiation.dataReceived between `eoh = self.buffer.find(terminator)` and the split: 0 = refuse, 1 = wait for more, 2 = split *)\n"
               "Definition header_verdict (eoh buflen : Z) : Z :=\n  %s." % verdict)
    caps = sorted(c for c in consts_eoh if c != -1)
    if len(caps) != 1 or len(consts_len) != 1 or len(set(split_k)) != 1:
        raise P.Untranslatable("dataReceived: header tests use the constants eoh:%r len:%r split:%r" % (sorted(consts_eoh), sorted(consts_len), split_k))
    cap, lim = caps[0], sorted(consts_len)[0]
    if split_k[0] != 4 or lim - cap != 4:
        raise P.Untranslatable("dataReceived: terminator length %r / slack %r are not 4" % (split_k, lim - cap))
    out.append("Definition negotiation_noterm_slack : Z := %d.  (* give up without a terminator once cap + slack bytes are buffered *)" % (lim - cap))
    out.append("Definition negotiation_header_cap : Z := %d." % cap)
    out.append("Definition negotiation_cap_counts_following_data : bool := false.  (* the cap is tested on the block only *)")

    # --- vocab tables
    vm = P.load("vocab.py")
    vc = P.module_consts(vm)
    tabs = vc.get("INITIAL_VOCAB_TABLES")
    if not isinstance(tabs, dict):
        raise P.Untranslatable("INITIAL_VOCAB_TABLES is not a literal dict")
    rows = []
    for k in sorted(tabs):
        words = tabs[k]
        rows.append("(%d, [%s])" % (k, "; ".join("[" + "; ".join(str(b) for b in w) + "]" for w in words)))
    out.append("Definition INITIAL_VOCAB_TABLES : list (Z * list (list Z)) := [%s]." % "; ".join(rows))
    gv = P.find_def(vm, "getVocabRange")
    if "return (min(keys), max(keys))" not in ast.unparse(gv):
        raise P.Untranslatable("getVocabRange changed")
    return {"NegotiateGen.v": "\n\n".join(out) + "\n"}
