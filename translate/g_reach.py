"""C06: translated parts of broker.py / call.py / referenceable.py / pb.py / copyable.py / slicers/root.py

What is read from the source (an edit of any of these changes gen/ReachGen.v, or fails closed):
  * the method-name prefix of `Referenceable.doRemoteCall`           -> remote_prefix
  * the special clid of the broker and how unknown clids are looked up (`getMyReferenceByCLID`) -> broker_clid, clid_lookup
  * what `CallUnslicer.receiveChild` / `YourReferenceUnslicer.receiveClose` do with that KeyError -> call_unknown_clid, yourref_unknown_clid
  * the interface check of `CallUnslicer.receiveChild` stage 2 and the negative-clid branch   -> iface_enforced, negative_clid_ignores_name
  * `Broker._doCall`'s dispatch                                       -> docall_shape
  * first clid and the negation for callables (`initBroker`, `getTrackerForMyReference/Call`)  -> first_clid, callable_clid_negated
  * `ReferenceableTracker.decref` (translated function) and the increment in `send`            -> tracker_decref, tracker_send_incr
  * `Broker.remote_decref`: translated in full by g_reachdisp.py (gen_remote_decref); here only its signature
  * the methods of `RIBroker` (and that Broker implements it and has remote_<m> for each)        -> broker_methods
  * `RootUnslicer.open`'s handling of copyable / unknown open types     -> copyable_unknown, open_unknown
  * `Tub.getReferenceForName`, `_assignName`, `NAMEBITS`                -> name_lookup_shape, NAMEBITS
  * the key sets of the registries as they are after `import foolscap.api` (imported from $VERIF_REPO/src):
    PBRootUnslicer.topRegistries / openRegistries, copyable.CopyableRegistry -> top_types, open_types, copyable_names

Equivalent source forms accepted (each with the argument why it is equivalent for ALL inputs; everything else fails closed):
  (E1) the clid of a new tracker: the assignments to the local `clid` in getTrackerForMyReference / getTrackerForMyCall are read
       as a sign: [`clid = next(self.nextCLID)`] -> +, [`clid = next(self.nextCLID)`; `clid = -clid`] -> -, and
       [`clid = -next(self.nextCLID)`] -> -.  `clid = E; clid = -clid` and `clid = -E` evaluate E once, apply the same unary
       minus to the same value and bind the same local; nothing reads `clid` in between (the two assignments must be adjacent).
  (E2) Broker.remote_decref: `done = tracker.decref(count)` immediately followed by `if done:` (done not used elsewhere) and
       `if tracker.decref(count):` are the same (one local, assigned once, immediately before its only use; decref is called
       exactly once at the same point either way).
  (E3) Broker.remote_decref: `self.myReferenceByCLID.get(clid, None)` and `self.myReferenceByCLID.get(clid)` are accepted
       as the same ONLY after the translator has established, by scanning every module of the package (tests excluded), that
       every store to an attribute named `myReferenceByCLID` assigns an empty dict display `{}` (and every setattr() has a
       literal other name, or a name drawn from a literal tuple of other names): the receiver is then a builtin
       dict, whose `get(k)` is defined by the language as `get(k, None)`, for every key.  If any other store exists (another
       mapping type could define get differently) the one-argument form fails closed.
  (E4) RootUnslicer.open / doOpen registry loops are matched structurally, up to the names of the loop variable and locals
       (alpha-renaming of function locals) and with `child = opener(); return child` == `return opener()` (single-use temporary
       assigned immediately before its only use): `for R in self.<regs>: X = R.get(opentype); if X is not None: <return X()>`.
  (E5) RootUnslicer.open copyable branch: `if len(opentype) > 1: <lookup...return> ; return None` and
       `if len(opentype) <= 1: return None ; <lookup...return>` -- len() returns an int, for which `<= 1` is the negation of
       `> 1`, and both arms end in return, so the two layouts execute the same statements; checked by collecting, for either
       layout, the statements of the "name present" arm.
"""
import ast, os, sys
from translate import pylite as P

PROPERTIES = ["C06"]
OUTPUTS = ["ReachGen.v"]


def U(msg):
    raise P.Untranslatable(msg)


def coq_string(s):
    """python str/bytes -> Gallina string expression (bytes of the UTF-8 encoding)"""
    b = s.encode("utf-8") if isinstance(s, str) else bytes(s)
    if all(32 <= c < 127 and c != 34 for c in b):
        return '"%s"%%string' % b.decode("ascii")
    return "(bs [%s]%%N)" % "; ".join(str(c) for c in b)


def body_nodoc(fn):
    b = fn.body
    if b and isinstance(b[0], ast.Expr) and isinstance(b[0].value, ast.Constant) and isinstance(b[0].value.value, str):
        b = b[1:]
    return b


def frags(fn, what, wanted):
    src = ast.unparse(fn)
    for f in wanted:
        if f not in src:
            U("%s no longer contains: %s" % (what, f))


def enclosing_try(fn, call_pred):
    """-> list of ast.Try nodes (innermost last) enclosing the unique Call matching call_pred; fail if not unique"""
    found = []

    def walk(node, stack):
        for ch in ast.iter_child_nodes(node):
            st = stack
            if isinstance(node, ast.Try) and ch in node.body:
                st = stack + [node]
            if isinstance(ch, ast.Call) and call_pred(ch):
                found.append(st)
            walk(ch, st)
    walk(fn, [])
    if len(found) != 1:
        U("expected exactly one matching call in %s, found %d" % (fn.name, len(found)))
    return found[0]


def refusal_of(fn, call_pred, what):
    """How a KeyError raised by the matching call leaves `fn`: inside `try: ... except KeyError: raise Violation` ->
    RejectR (the request fails); not inside any try -> AbortR (the exception reaches Banana.handleData, which drops
    the connection).  Anything else: fail closed."""
    tries = enclosing_try(fn, call_pred)
    if not tries:
        return "AbortR"
    t = tries[-1]
    for h in t.handlers:
        names = []
        if h.type is None:
            names = ["*"]
        elif isinstance(h.type, ast.Name):
            names = [h.type.id]
        elif isinstance(h.type, ast.Tuple):
            names = [ast.unparse(e) for e in h.type.elts]
        if "KeyError" in names or "*" in names or "Exception" in names or "LookupError" in names:
            if len(h.body) == 1 and isinstance(h.body[0], ast.Raise) and h.body[0].exc is not None \
                    and ast.unparse(h.body[0].exc).startswith("Violation("):
                return "RejectR"
            U("%s: the KeyError handler no longer raises Violation: %s" % (what, ast.unparse(h)))
    U("%s: enclosing try does not handle KeyError" % what)


def yourref_refusal(yr):
    """YourReferenceUnslicer.receiveClose: what an id the table does not hold leads to.
      `obj = self.broker.getMyReferenceByCLID(self.clid)` outside any try            -> AbortR (KeyError escapes: connection dropped)
      inside `try ... except KeyError: raise Violation(...)`                          -> RejectR
      inside `try: obj = <lookup> except KeyError: obj = None`, and the statement that follows the try is
      `if not obj: raise Violation(...)` (None is falsy, so that raise is reached on exactly this path)  -> RejectR
    anything else fails closed"""
    pred = lambda c: is_method_call(c, "getMyReferenceByCLID")
    tries = enclosing_try(yr, pred)
    if tries:
        t = tries[-1]
        if len(t.handlers) == 1 and t.handlers[0].type is not None and ast.unparse(t.handlers[0].type) == "KeyError" \
                and t.handlers[0].name is None and [ast.unparse(x) for x in t.handlers[0].body] == ["obj = None"] \
                and [ast.unparse(x) for x in t.body] == ["obj = self.broker.getMyReferenceByCLID(self.clid)"] \
                and not t.orelse and not t.finalbody and t in yr.body:
            nxt = yr.body[yr.body.index(t) + 1:]
            if nxt and isinstance(nxt[0], ast.If) and ast.unparse(nxt[0].test) == "not obj" and not nxt[0].orelse \
                    and len(nxt[0].body) == 1 and isinstance(nxt[0].body[0], ast.Raise) and nxt[0].body[0].exc is not None \
                    and ast.unparse(nxt[0].body[0].exc).startswith("Violation("):
                return "RejectR"
            U("YourReferenceUnslicer.receiveClose: `except KeyError: obj = None` is not followed by `if not obj: raise Violation(...)`")
    return refusal_of(yr, pred, "YourReferenceUnslicer.receiveClose")


def is_method_call(c, attr):
    return isinstance(c.func, ast.Attribute) and c.func.attr == attr


def generate():
    out = [P.PRELUDE % dict(src="broker.py, call.py, referenceable.py, pb.py, copyable.py, slicers/root.py")]
    out.append("From Coq Require Import Ascii NArith.\n"
               "Definition bs (l : list N) : string := fold_right (fun c s => String (ascii_of_N c) s) EmptyString l.")
    out.append("Inductive refusal := RejectR | AbortR.")

    # ---- referenceable.py: Referenceable.doRemoteCall
    rm = P.load("referenceable.py")
    drc = P.find_def(rm, "Referenceable.doRemoteCall")
    if [a.arg for a in drc.args.args] != ["self", "methodname", "args", "kwargs"]:
        U("doRemoteCall signature changed")
    b = body_nodoc(drc)
    getattrs = [n for n in ast.walk(drc) if isinstance(n, ast.Call) and isinstance(n.func, ast.Name) and n.func.id == "getattr"]
    if len(getattrs) != 1:
        U("doRemoteCall: expected exactly one getattr, found %d" % len(getattrs))
    g = getattrs[0]
    if len(g.args) != 2 or ast.unparse(g.args[0]) != "self":
        U("doRemoteCall: getattr is not a 2-argument lookup on self: " + ast.unparse(g))
    a1 = g.args[1]
    prefix = None
    if isinstance(a1, ast.BinOp) and isinstance(a1.op, ast.Mod) and isinstance(a1.left, ast.Constant) \
            and isinstance(a1.left.value, str) and ast.unparse(a1.right) in ("methodname", "(methodname,)"):
        fmt = a1.left.value
        if fmt.count("%") == 1 and fmt.endswith("%s"):
            prefix = fmt[:-2]
    elif isinstance(a1, ast.BinOp) and isinstance(a1.op, ast.Add) and isinstance(a1.left, ast.Constant) \
            and isinstance(a1.left.value, str) and ast.unparse(a1.right) == "methodname":
        prefix = a1.left.value
    elif isinstance(a1, ast.Name) and a1.id == "methodname":
        prefix = ""
    if prefix is None:
        U("doRemoteCall: attribute name is not <literal prefix> + methodname: " + ast.unparse(a1))
    # the looked-up attribute is what gets called, and nothing else is looked up by name
    tgt = [s for s in b if isinstance(s, ast.Assign) and s.value is g]
    if len(tgt) != 1 or not isinstance(tgt[0].targets[0], ast.Name):
        U("doRemoteCall: getattr result is not bound to a local")
    mname = tgt[0].targets[0].id
    calls = [n for n in ast.walk(drc) if isinstance(n, ast.Call) and n is not g]
    if len(calls) != 1 or ast.unparse(calls[0]) != "%s(*args, **kwargs)" % mname:
        U("doRemoteCall: expected the single call %s(*args, **kwargs), found %s" % (mname, [ast.unparse(c) for c in calls]))
    out.append("Definition remote_prefix : string := %s." % coq_string(prefix))

    # ---- referenceable.py: Referenceable.getInterface looks the RemoteInterface up on the INSTANCE
    gi = P.find_def(rm, "Referenceable.getInterface")
    b = body_nodoc(gi)
    ok = (len(b) == 2 and isinstance(b[0], ast.If) and ast.unparse(b[0].test) == "not self._interface" and not b[0].orelse
          and ast.unparse(b[0].body[0]) == "self._interface = getRemoteInterface(self)"
          and ast.unparse(b[1]) == "return self._interface")
    if ok:
        # nothing else may assign self._interface
        asg = [ast.unparse(n) for n in ast.walk(gi) if isinstance(n, ast.Assign) and "self._interface" in [ast.unparse(t) for t in n.targets]]
        ok = asg == ["self._interface = getRemoteInterface(self)"]
    per_class = False
    if not ok:
        # a lookup keyed by the CLASS (self.__class__ / type(self)) is recognised as such: the model then ignores declarations on
        # the instance (C06_instance_interface_enforced no longer holds: the proof breaks; the oracle finds the input)
        gsrc = ast.unparse(gi)
        if ("self.__class__" in gsrc or "type(self)" in gsrc) and "getRemoteInterface(self)" in gsrc:
            per_class = True
        else:
            U("Referenceable.getInterface no longer computes getRemoteInterface(self) for the instance itself")
    rim = P.load("remoteinterface.py")
    gri = P.find_def(rim, "getRemoteInterface")
    frags(gri, "getRemoteInterface", ["interfaces = list(providedBy(obj))", "isinstance(i, RemoteInterfaceClass)", "return ilist[0]", "return None"])
    if not any(isinstance(x, ast.ImportFrom) and x.module == "zope.interface" and any(a.name == "providedBy" for a in x.names) for x in rim.body) \
            and "providedBy" not in [getattr(x, "id", None) for x in ast.walk(rim)]:
        U("remoteinterface.py: providedBy is not zope.interface.providedBy")
    out.append("Inductive iface_lookup := PerInstance | PerClass.   (* getRemoteInterface(self) for each instance | an answer cached per class *)")
    out.append("Definition interface_lookup : iface_lookup := %s." % ("PerClass" if per_class else "PerInstance"))

    # ---- broker.py
    bm = P.load("broker.py")
    gm = P.find_def(bm, "Broker.getMyReferenceByCLID")
    b = body_nodoc(gm)
    ifs = [s for s in b if isinstance(s, ast.If)]
    if len(ifs) != 1 or not isinstance(ifs[0].test, ast.Compare) or ast.unparse(ifs[0].test.left) != "clid" \
            or not isinstance(ifs[0].test.ops[0], ast.Eq) or not isinstance(ifs[0].test.comparators[0], ast.Constant) \
            or ast.unparse(ifs[0].body[0]) != "return self" or ifs[0].orelse:
        U("getMyReferenceByCLID: expected `if clid == <int>: return self`")
    out.append("Definition broker_clid : Z := %s." % P.zlit(int(ifs[0].test.comparators[0].value)))
    rets = [s for s in b if isinstance(s, ast.Return)]
    if len(rets) != 1:
        U("getMyReferenceByCLID: expected one fall-through return")
    r = ast.unparse(rets[0].value)
    out.append("Inductive lookup_kind := LookupRaises | LookupDefault.")
    if r == "self.myReferenceByCLID[clid].obj":
        out.append("Definition clid_lookup : lookup_kind := LookupRaises.")
    else:
        U("getMyReferenceByCLID: lookup is no longer self.myReferenceByCLID[clid].obj but " + r)

    cm = P.load("call.py")
    rc = P.find_def(cm, "CallUnslicer.receiveChild")
    out.append("Definition call_unknown_clid : refusal := %s." %
               refusal_of(rc, lambda c: is_method_call(c, "getMyReferenceByCLID"), "CallUnslicer.receiveChild"))
    yr = P.find_def(rm, "YourReferenceUnslicer.receiveClose")
    out.append("Definition yourref_unknown_clid : refusal := %s." % yourref_refusal(yr))
    yc = P.find_def(rm, "YourReferenceUnslicer.checkToken")
    if [ast.unparse(x) for x in body_nodoc(yc)] != ["if typebyte != tokens.INT:\n    raise BananaError('your-reference ID must be an INT')"]:
        U("YourReferenceUnslicer.checkToken changed")
    out.append("Definition yourref_accepts_neg : bool := false.  (* a NEG token in a your-reference is a BananaError: connection dropped *)")
    yrc = P.find_def(rm, "YourReferenceUnslicer.receiveClose")
    frags(yrc, "YourReferenceUnslicer.receiveClose", ["obj = self.broker.getMyReferenceByCLID(self.clid)", "return (obj, None)"])
    # stage 2 of CallUnslicer.receiveChild
    st2 = [s for s in rc.body if isinstance(s, ast.If) and ast.unparse(s.test) == "self.stage == 2"]
    if len(st2) != 1:
        U("CallUnslicer.receiveChild: stage 2 block not found")
    s2 = st2[0]
    neg = [s for s in s2.body if isinstance(s, ast.If) and ast.unparse(s.test) == "self.objID < 0"]
    if len(neg) != 1 or "self.methodname = None" not in ast.unparse(neg[0]) or not isinstance(neg[0].body[-1], ast.Return):
        U("CallUnslicer.receiveChild: negative-clid branch (method name ignored) changed")
    out.append("Definition negative_clid_ignores_name : bool := true.")
    idx_neg = s2.body.index(neg[0])
    # the method name is decoded after the negative-clid branch: either bare (a UnicodeDecodeError then escapes receiveChild and
    # Banana drops the connection) or under `try: ... except UnicodeDecodeError: raise Violation(...)` (that request fails)
    BARE = "self.methodname = six.ensure_str(token)"
    dec = [(i, s) for i, s in enumerate(s2.body)
           if ast.unparse(s) == BARE or (isinstance(s, ast.Try) and [ast.unparse(x) for x in s.body] == [BARE])]
    if len(dec) != 1 or dec[0][0] < idx_neg:
        U("CallUnslicer.receiveChild: `self.methodname = six.ensure_str(token)` after the negative-clid branch not found")
    d_ = dec[0][1]
    if isinstance(d_, ast.Try):
        ok_ = (len(d_.handlers) == 1 and not d_.orelse and not d_.finalbody and d_.handlers[0].name is None
               and d_.handlers[0].type is not None and ast.unparse(d_.handlers[0].type) in ("UnicodeDecodeError", "UnicodeError", "ValueError")
               and len(d_.handlers[0].body) == 1 and isinstance(d_.handlers[0].body[0], ast.Raise)
               and d_.handlers[0].body[0].exc is not None and ast.unparse(d_.handlers[0].body[0].exc).startswith("Violation("))
        if not ok_:
            U("CallUnslicer.receiveChild: the handler around six.ensure_str(token) is not `except UnicodeDecodeError: raise Violation(...)`")
        out.append("Definition methodname_undecodable : refusal := RejectR.  (* not UTF-8: Violation, that request fails *)")
    else:
        out.append("Definition methodname_undecodable : refusal := AbortR.  (* not UTF-8: UnicodeDecodeError escapes, connection dropped *)")
    ic = [s for s in s2.body if isinstance(s, ast.If) and ast.unparse(s.test) == "self.interface"]
    enforced = False
    if len(ic) == 1:
        src = ast.unparse(ic[0])
        if "ms = self.interface.get(self.methodname)" in src:
            inner = [s for s in ic[0].body if isinstance(s, ast.If) and ast.unparse(s.test) == "not ms"]
            if len(inner) == 1 and any(isinstance(x, ast.Raise) and ast.unparse(x.exc).startswith("Violation(")
                                       for x in inner[0].body):
                enforced = True
    elif len(ic) > 1:
        U("CallUnslicer.receiveChild: several `if self.interface` blocks")
    out.append("Definition iface_enforced : bool := %s." % ("true" if enforced else "false"))
    # stage 1: interface comes from obj.getInterface() for non-negative ids
    frags(rc, "CallUnslicer.receiveChild", ["self.interface = self.obj.getInterface()", "self.objID = token"])
    # receiveClose builds the delivery from exactly these
    frags(P.find_def(cm, "CallUnslicer.receiveClose"),
          "CallUnslicer.receiveClose",
          ["InboundDelivery(self.broker, self.reqID, self.obj, self.interface, self.methodname, self.methodSchema, self.allargs)"])
    # _doCall
    dc = P.find_def(bm, "Broker._doCall")
    last = dc.body[-1]
    ok = isinstance(last, ast.If) and ast.unparse(last.test) == "delivery.methodname is None" \
        and ast.unparse(last.body[-1]) == "return obj(*args, **kwargs)" \
        and [ast.unparse(s) for s in last.orelse] == ["obj = ipb.IRemotelyCallable(obj)",
                                                      "return obj.doRemoteCall(delivery.methodname, args, kwargs)"]
    if not ok:
        U("Broker._doCall: dispatch tail changed: " + ast.unparse(last))
    frags(dc, "Broker._doCall", ["obj = delivery.obj", "delivery.methodSchema.checkAllArgs(args, kwargs, True)"])
    out.append("Definition docall_shape : bool := true.  (* methodname None: the callable itself is called; else IRemotelyCallable(obj).doRemoteCall *)")

    ib = P.find_def(bm, "Broker.initBroker")
    cnt = [s for s in ib.body if isinstance(s, ast.Assign) and ast.unparse(s.targets[0]) == "self.nextCLID"]
    if len(cnt) != 1 or not (isinstance(cnt[0].value, ast.Call) and ast.unparse(cnt[0].value.func) == "count"
                             and len(cnt[0].value.args) == 1 and isinstance(cnt[0].value.args[0], ast.Constant)):
        U("initBroker: self.nextCLID = count(<int>) not found")
    out.append("Definition first_clid : Z := %s." % P.zlit(int(cnt[0].value.args[0].value)))
    t1 = P.find_def(bm, "Broker.getTrackerForMyReference")
    frags(t1, "getTrackerForMyReference", ["tracker = self.myReferenceByPUID.get(puid)",
                                          "self.myReferenceByPUID[puid] = tracker", "self.myReferenceByCLID[clid] = tracker"])
    if clid_sign(t1) != "+":
        U("getTrackerForMyReference negates the clid")
    t2 = P.find_def(bm, "Broker.getTrackerForMyCall")
    frags(t2, "getTrackerForMyCall", ["tracker = self.myReferenceByPUID.get(puid)",
                                     "self.myReferenceByPUID[puid] = tracker", "self.myReferenceByCLID[clid] = tracker"])
    out.append("Definition callable_clid_negated : bool := %s." % ("true" if clid_sign(t2) == "-" else "false"))
    fin = P.find_def(bm, "Broker.finish")
    frags(fin, "Broker.finish", ["self.myReferenceByCLID = {}", "self.myReferenceByPUID = {}"])

    # ReferenceableTracker.decref / send
    spec = dict(params=dict(count=P.Z), attrs=dict(refcount=P.Z), returns_attrs=["refcount"], ret=P.B)
    out.append(P.translate_function("referenceable.py", "ReferenceableTracker.decref", "tracker_decref", spec))
    snd = P.find_def(rm, "ReferenceableTracker.send")
    b = body_nodoc(snd)
    if not (b and isinstance(b[0], ast.AugAssign) and ast.unparse(b[0].target) == "self.refcount"
            and isinstance(b[0].op, ast.Add) and isinstance(b[0].value, ast.Constant) and isinstance(b[0].value.value, int)):
        U("ReferenceableTracker.send: does not start with self.refcount += <int>")
    if any(isinstance(n, (ast.Assign, ast.AugAssign)) for s in b[1:] for n in ast.walk(s)):
        U("ReferenceableTracker.send: assigns more than once")
    out.append("Definition tracker_send_incr : Z := %s." % P.zlit(b[0].value.value))
    init = P.find_def(rm, "ReferenceableTracker.__init__")
    frags(init, "ReferenceableTracker.__init__", ["self.refcount = 0", "self.obj = obj", "self.clid = clid"])
    out.append("Definition tracker_initial_refcount : Z := 0.")
    rsl = P.find_def(rm, "ReferenceableSlicer.slice")
    frags(rsl, "ReferenceableSlicer.slice", ["tracker = broker.getTrackerForMyReference(puid, self.obj)", "yield tracker.clid",
                                            "firstTime = tracker.send()", "url = tracker.getURL()"])
    csl = P.find_def(rm, "CallableSlicer.sliceBody")
    frags(csl, "CallableSlicer.sliceBody", ["tracker = broker.getTrackerForMyCall(puid, self.obj)", "yield tracker.clid",
                                           "firstTime = tracker.send()", "url = tracker.getURL()"])

    # Broker.remote_decref is translated statement by statement by translate/g_reachdisp.py (gen_remote_decref) and proved equal
    # to the model's decref for all inputs (C06_translated_decref); only its existence and signature are checked here
    rd = P.find_def(bm, "Broker.remote_decref")
    if [a.arg for a in rd.args.args] != ["self", "clid", "count"]:
        U("Broker.remote_decref signature changed")
    out.append("Definition decref_shape : bool := true.  (* see gen/ReachDispGen.v: gen_remote_decref *)")
    gr = P.find_def(bm, "Broker.remote_getReferenceByName")
    if [ast.unparse(s) for s in body_nodoc(gr)] != ["return self.tub.getReferenceForName(six.ensure_str(name))"]:
        U("Broker.remote_getReferenceByName changed")

    # RIBroker
    ri = P.find_class(bm, "RIBroker")
    meths = [s.name for s in ri.body if isinstance(s, ast.FunctionDef)]
    other = [s for s in ri.body if not isinstance(s, ast.FunctionDef)
             and not (isinstance(s, ast.Expr) and isinstance(s.value, ast.Constant))]
    if other:
        U("RIBroker has members that are not method definitions: " + ast.unparse(other[0]))
    bc = P.find_class(bm, "Broker")
    decs = [ast.unparse(d) for d in bc.decorator_list]
    if not any(d.startswith("implementer(") and "RIBroker" in d for d in decs):
        U("Broker is no longer declared @implementer(RIBroker, ...)")
    have = [s.name for s in bc.body if isinstance(s, ast.FunctionDef)]
    for m in meths:
        if prefix + m not in have:
            U("Broker has no method %s%s for RIBroker.%s" % (prefix, m, m))
    out.append("Definition broker_methods : list string := [%s]." % "; ".join(coq_string(m) for m in meths))
    out.append("Definition broker_remote_attrs : list string := [%s].  (* every attribute of class Broker that starts with the prefix *)"
               % "; ".join(coq_string(m) for m in have if prefix and m.startswith(prefix)))

    # slicers/root.py RootUnslicer.open
    sm = P.load("slicers/root.py")
    op = P.find_def(sm, "RootUnslicer.open")
    out.append("Definition copyable_unknown : refusal := %s." % copyable_refusal(op))
    if not (isinstance(op.body[-1], ast.Raise) and ast.unparse(op.body[-1].exc).startswith("Violation(")):
        U("RootUnslicer.open no longer ends with raise Violation(unknown OPEN type)")
    loops = [s for s in op.body if isinstance(s, ast.For)]
    if len(loops) != 1 or not registry_loop(loops[0], "self.openRegistries"):
        U("RootUnslicer.open: registry loop changed")
    copyable_branch(op)
    out.append("Definition open_unknown : refusal := RejectR.")
    do = P.find_def(sm, "RootUnslicer.doOpen")
    loops = [s for s in do.body if isinstance(s, ast.For)]
    if len(loops) != 1 or not loops[0].orelse or not registry_loop(loops[0], "self.topRegistries") or \
            not ast.unparse(loops[0].orelse[0]).startswith("raise Violation("):
        U("RootUnslicer.doOpen: registry loop changed")
    pbo = P.find_def(bm, "PBRootUnslicer.open")
    frags(pbo, "PBRootUnslicer.open", ["child = RootUnslicer.open(self, opentype)"])
    pbd = P.find_def(bm, "PBRootUnslicer.doOpen")
    frags(pbd, "PBRootUnslicer.doOpen", ["child = RootUnslicer.doOpen(self, opentype)"])

    # pb.py name table
    pm = P.load("pb.py")
    gn = P.find_def(pm, "Tub.getReferenceForName")
    b = body_nodoc(gn)
    ok = len(b) >= 3 and ast.unparse(b[0]) == "if name in self.nameToReference:\n    return self.nameToReference[name]" \
        and isinstance(b[1], ast.For) and ast.unparse(b[1].iter) == "self.nameLookupHandlers" \
        and isinstance(b[-1], ast.Raise) and ast.unparse(b[-1].exc).startswith("KeyError(")
    if not ok:
        U("Tub.getReferenceForName changed")
    loop = b[1]
    ok2 = (ast.unparse(loop.target) == "lookup" and len(loop.body) == 2 and ast.unparse(loop.body[0]) == "ref = lookup(name)"
           and isinstance(loop.body[1], ast.If) and ast.unparse(loop.body[1].test) == "ref" and not loop.body[1].orelse
           and not loop.orelse and ast.unparse(loop.body[1].body[-1]) == "return ref")
    if not ok2:
        U("Tub.getReferenceForName: handler loop changed")
    # what the loop records before returning a handler's answer
    assigned = set()
    for st_ in loop.body[1].body[:-1]:
        for n_ in ast.walk(st_):
            if isinstance(n_, ast.Assign):
                for t_ in n_.targets:
                    assigned.add(ast.unparse(t_))
            elif isinstance(n_, (ast.AugAssign, ast.Delete, ast.Call)) and not (isinstance(n_, ast.Call)):
                U("Tub.getReferenceForName: handler loop does more than assignments")
    if not assigned <= {"self.referenceToName[ref]", "self.nameToReference[name]"}:
        U("Tub.getReferenceForName: handler loop assigns %s" % sorted(assigned))
    if "self.referenceToName[ref]" not in assigned or \
            "if ref not in self.referenceToName:" not in ast.unparse(loop.body[1]):
        U("Tub.getReferenceForName: handler loop no longer records referenceToName[ref] when absent")
    cached = "self.nameToReference[name]" in assigned
    if cached:
        # only the form `self.nameToReference[name] = ref` under the same guard as referenceToName is understood
        g_ = [x for x in loop.body[1].body if isinstance(x, ast.If) and ast.unparse(x.test) == "ref not in self.referenceToName"]
        if len(g_) != 1 or "self.nameToReference[name] = ref" not in [ast.unparse(x) for x in g_[0].body]:
            U("Tub.getReferenceForName: handler answers are cached in an unexpected way")
    out.append("Definition handler_answers_cached : bool := %s.  (* does a handler's answer enter Tub.nameToReference? *)"
               % ("true" if cached else "false"))
    out.append("Definition name_lookup_shape : bool := true.  (* table first, then handlers in order, else KeyError *)")
    # Tub._assignName is translated statement by statement by translate/g_reachdisp.py (gen_assign_name) and proved equal to the
    # model's assign_name for all inputs (C06_translated_assign_name); only its existence is checked here
    P.find_def(pm, "Tub._assignName")
    tc = P.find_class(pm, "Tub")
    consts = P.module_consts(pm, body=tc.body)
    if not isinstance(consts.get("NAMEBITS"), int):
        U("Tub.NAMEBITS is not an integer literal")
    out.append("Definition NAMEBITS : Z := %d." % consts["NAMEBITS"])
    out.append("Inductive entropy := OsEntropy | StdlibPrng.   (* os.urandom / secrets | the process-wide, predictable `random` module *)")
    out.append("Definition swissnum_source : entropy := %s.  (* the only source of a name's bits: os.urandom / secrets *)"
               % swissnum_source(pm))
    tgs = P.find_def(pm, "Tub.generateSwissnumber")
    if [ast.unparse(x) for x in body_nodoc(tgs)] != ["return generateSwissnumber(bits)"]:
        U("Tub.generateSwissnumber no longer returns generateSwissnumber(bits)")
    ur = P.find_def(pm, "Tub.unregisterReference")
    frags(ur, "Tub.unregisterReference", ["name = self.referenceToName[ref]", "del self.nameToReference[name]",
                                         "del self.referenceToName[ref]"])

    # ---- copyable.py: which registry a registration lands in
    cpm = P.load("copyable.py")
    ruf = P.find_def(cpm, "registerRemoteCopyUnslicerFactory")
    tests = [x for x in ruf.body if isinstance(x, ast.If) and ast.unparse(x.body[0]) == "registry = CopyableRegistry"]
    if len(tests) != 1 or len(tests[0].body) != 1 or tests[0].orelse:
        U("registerRemoteCopyUnslicerFactory: `if <test>: registry = CopyableRegistry` not found exactly once")
    t = ast.unparse(tests[0].test)
    out.append("Inductive default_test := DefaultIfNone | DefaultIfFalsy.")
    if t in ("registry == None", "registry is None", "None == registry", "None is registry"):
        out.append("Definition default_registry_test : default_test := DefaultIfNone.")
    elif t in ("not registry", "not bool(registry)", "len(registry) == 0", "registry in (None, {})", "registry == None or not registry",
               "registry is None or not registry"):
        out.append("Definition default_registry_test : default_test := DefaultIfFalsy.")
    else:
        U("registerRemoteCopyUnslicerFactory: default-registry test not understood: " + t)
    idx = ruf.body.index(tests[0])
    tail = [ast.unparse(x) for x in ruf.body[idx + 1:]]
    if tail != ["assert typename not in registry", "registry[typename] = unslicerfactory"]:
        U("registerRemoteCopyUnslicerFactory: tail changed: %s" % tail)
    if any("registry" in ast.unparse(x) for x in ruf.body[:idx]):
        U("registerRemoteCopyUnslicerFactory: registry is used before the default test")
    # the two wrappers and the metaclass pass the caller's registry through unchanged
    rcf = P.find_def(cpm, "registerRemoteCopyFactory")
    calls_ = [ast.unparse(n) for n in ast.walk(rcf) if isinstance(n, ast.Call) and ast.unparse(n.func) == "registerRemoteCopyUnslicerFactory"]
    if len(calls_) != 2 or not all(c.endswith(", registry)") for c in calls_):
        U("registerRemoteCopyFactory no longer passes registry through: %s" % calls_)
    if any(isinstance(n, ast.Assign) and "registry" in [ast.unparse(t_) for t_ in n.targets] for n in ast.walk(rcf)):
        U("registerRemoteCopyFactory rebinds registry")
    rcp = P.find_def(cpm, "registerRemoteCopy")
    calls_ = [ast.unparse(n) for n in ast.walk(rcp) if isinstance(n, ast.Call) and ast.unparse(n.func) == "registerRemoteCopyFactory"]
    if len(calls_) != 1 or not calls_[0].endswith(", registry)"):
        U("registerRemoteCopy no longer passes registry through: %s" % calls_)
    if any(isinstance(n, ast.Assign) and "registry" in [ast.unparse(t_) for t_ in n.targets] for n in ast.walk(rcp)):
        U("registerRemoteCopy rebinds registry")
    mc = P.find_def(cpm, "RemoteCopyClass.__init__")
    frags(mc, "RemoteCopyClass.__init__", ["registry = dict.get('copyableRegistry', None)", "registerRemoteCopy(copytype, self, registry)"])
    out.append(metaclass_registers(mc))

    # ---- registries as they are after import
    src = os.path.join(P.REPO, "src")
    if sys.path[0] != src:
        sys.path.insert(0, src)
    loaded = sys.modules.get("foolscap")
    if loaded is not None and not os.path.abspath(loaded.__file__).startswith(os.path.abspath(src)):
        U("foolscap already imported from %s, not from %s" % (loaded.__file__, src))
    import foolscap.api  # noqa
    from foolscap import broker as B, copyable as C
    if not os.path.abspath(B.__file__).startswith(os.path.abspath(src)):
        U("foolscap imported from %s, not from %s" % (B.__file__, src))
    if B.Broker.unslicerClass is not B.PBRootUnslicer:
        U("Broker.unslicerClass is not PBRootUnslicer")

    def keys(regs):
        ks = []
        for r in regs:
            for k in r.keys():
                if not (isinstance(k, tuple) and all(isinstance(x, str) for x in k)):
                    U("registry key %r is not a tuple of str" % (k,))
                if k not in ks:
                    ks.append(k)
        return sorted(ks)

    def coq_keys(ks):
        return "[%s]" % "; ".join("[%s]" % "; ".join(coq_string(x) for x in k) for k in ks)
    out.append("Definition top_types : list (list string) := %s." % coq_keys(keys(B.PBRootUnslicer.topRegistries)))
    out.append("Definition open_types : list (list string) := %s." % coq_keys(keys(B.PBRootUnslicer.openRegistries)))
    names = sorted(C.CopyableRegistry.keys())
    if not all(isinstance(n, str) for n in names):
        U("CopyableRegistry has a non-str key")
    out.append("Definition copyable_names : list string := [%s]." % "; ".join(coq_string(n) for n in names))
    return {"ReachGen.v": "\n\n".join(out) + "\n"}


def metaclass_registers(mc):
    """RemoteCopyClass.__init__(self, name, bases, dict): under which name (if any) the DEFINITION of a RemoteCopy subclass puts
    the class into a copyable registry, as a function of what the class body says about `copytype` (absent / None / a string) and
    `typeToCopy`.  Statement by statement; the accepted layout is
        type.__init__(self, name, bases, dict)
        if name == 'RemoteCopy' and _RemoteCopyBase in bases: return          (RemoteCopy itself; not an application class)
        if 'copytype' not in dict: raise RuntimeError(...)
        copytype = dict['copytype']
        if <copytype | copytype is not None>: registry = dict.get('copyableRegistry', None); registerRemoteCopy(copytype, self, registry)
    anything else (another source for the name, e.g. typeToCopy, another guard) is not understood: fail closed."""
    if [a.arg for a in mc.args.args] != ["self", "name", "bases", "dict"] or mc.args.vararg or mc.args.kwarg or mc.decorator_list:
        U("RemoteCopyClass.__init__ signature changed")
    b = body_nodoc(mc)
    src = [ast.unparse(s) for s in b]
    if len(b) != 5:
        U("RemoteCopyClass.__init__: expected 5 statements, found %d: %s" % (len(b), src))
    if src[0] != "type.__init__(self, name, bases, dict)":
        U("RemoteCopyClass.__init__: first statement changed: " + src[0])
    s1, s2, s3, s4 = b[1:]
    if not (isinstance(s1, ast.If) and not s1.orelse and ast.unparse(s1.test) == "name == 'RemoteCopy' and _RemoteCopyBase in bases"
            and [ast.unparse(x) for x in s1.body] == ["return"]):
        U("RemoteCopyClass.__init__: the guard for RemoteCopy itself changed: " + src[1])
    if not (isinstance(s2, ast.If) and not s2.orelse and ast.unparse(s2.test) == "'copytype' not in dict" and len(s2.body) == 1
            and isinstance(s2.body[0], ast.Raise) and isinstance(s2.body[0].exc, ast.Call)
            and ast.unparse(s2.body[0].exc.func) == "RuntimeError"):
        U("RemoteCopyClass.__init__: `if 'copytype' not in dict: raise RuntimeError(...)` changed: " + src[2])
    if src[3] != "copytype = dict['copytype']":
        U("RemoteCopyClass.__init__: the copytype is no longer dict['copytype']: " + src[3])
    if not (isinstance(s4, ast.If) and not s4.orelse and [ast.unparse(x) for x in s4.body] ==
            ["registry = dict.get('copyableRegistry', None)", "registerRemoteCopy(copytype, self, registry)"]):
        U("RemoteCopyClass.__init__: the registration statement changed: " + src[4])
    t = ast.unparse(s4.test)
    if t in ("copytype", "bool(copytype)"):
        on_str = "if str_truthy s then McRegister s else McSkip"
    elif t in ("copytype is not None", "copytype != None", "not copytype is None"):
        on_str = "McRegister s"
    else:
        U("RemoteCopyClass.__init__: registration test not understood: " + t)
    return ("Inductive ctattr := CtAbsent | CtNone | CtStr (s : string).   (* the class body: no `copytype` / copytype = None / copytype = \"s\" *)\n"
            "Inductive mc_result := McError | McSkip | McRegister (n : string).\n"
            "Definition str_truthy (s : string) : bool := match s with EmptyString => false | _ => true end.\n"
            "(* copyable.py RemoteCopyClass.__init__, for an application class (name <> 'RemoteCopy'): the name it is registered under.\n"
            "   typeToCopy (what a Copyable is SENT as) is not consulted. *)\n"
            "Definition metaclass_registers (ct : ctattr) (typeToCopy : option string) : mc_result :=\n"
            "  match ct with\n"
            "  | CtAbsent => McError      (* copytype not in dict: raise RuntimeError *)\n"
            "  | CtNone => McSkip         (* the registration test is false for None *)\n"
            "  | CtStr s => %s\n"
            "  end." % on_str)


def swissnum_source(pm):
    """pb.generateSwissnumber(bits): after substituting locals that are assigned once and used once (E2-style single-use
    temporaries), the function must be `return base32.encode(<E>)` with <E> one of os.urandom(bits // 8),
    secrets.token_bytes(bits // 8): the name is then a pure encoding of bits//8 bytes from the OS entropy source and of
    nothing else.  `os` / `secrets` / `base32` must be the module-level imports (not rebound in the module)."""
    gs = P.find_def(pm, "generateSwissnumber")
    if [a.arg for a in gs.args.args] != ["bits"] or gs.args.vararg or gs.args.kwarg or gs.args.kwonlyargs or gs.decorator_list:
        U("generateSwissnumber signature changed")
    body = body_nodoc(gs)
    env = {}
    for st in body[:-1]:
        if not (isinstance(st, ast.Assign) and len(st.targets) == 1 and isinstance(st.targets[0], ast.Name)
                and st.targets[0].id not in env and st.targets[0].id != "bits"):
            U("generateSwissnumber: unexpected statement " + ast.unparse(st))
        env[st.targets[0].id] = st.value
    if not body or not isinstance(body[-1], ast.Return) or body[-1].value is None:
        U("generateSwissnumber does not end with return <expr>")

    class Sub(ast.NodeTransformer):
        def __init__(self):
            self.used = {}

        def visit_Name(self, n):
            if isinstance(n.ctx, ast.Load) and n.id in env:
                self.used[n.id] = self.used.get(n.id, 0) + 1
                return self.visit(ast.parse(ast.unparse(env[n.id]), mode="eval").body)
            return n
    sub = Sub()
    expr = sub.visit(ast.parse(ast.unparse(body[-1].value), mode="eval").body)
    if any(sub.used.get(k, 0) != 1 for k in env):
        U("generateSwissnumber: a local is not used exactly once")
    text = ast.unparse(expr)
    ok = {"base32.encode(os.urandom(bits // 8))": "OsEntropy", "base32.encode(secrets.token_bytes(bits // 8))": "OsEntropy"}
    if text not in ok and ("random." in text or "randbytes" in text or "getrandbits" in text) and "SystemRandom" not in text:
        return "StdlibPrng"          # C06_swissnum_bits then no longer holds: the proof breaks, the harness's attack finds the input
    if text not in ok:
        U("generateSwissnumber: the name is not base32 of os.urandom(bits // 8) / secrets.token_bytes(bits // 8) but " + text)
    # the names used must be the module-level imports, never rebound
    need = ["base32", "os" if "os.urandom" in text else "secrets"]
    for st in ast.walk(pm):
        if isinstance(st, (ast.Assign, ast.AugAssign, ast.AnnAssign, ast.FunctionDef, ast.ClassDef, ast.For, ast.With)):
            for n in ast.walk(st):
                if isinstance(n, ast.Name) and isinstance(n.ctx, ast.Store) and n.id in need:
                    U("pb.py rebinds %s" % n.id)
            if isinstance(st, (ast.FunctionDef, ast.ClassDef)) and st.name in need:
                U("pb.py defines %s" % st.name)
    imported = set()
    for st in pm.body:
        if isinstance(st, ast.Import):
            for a in st.names:
                imported.add((a.asname or a.name.split(".")[0], a.name.split(".")[0]))
        elif isinstance(st, ast.ImportFrom):
            for a in st.names:
                imported.add((a.asname or a.name, "%s.%s" % (st.module, a.name)))
    for nm in need:
        src = [full for (local, full) in imported if local == nm]
        want = {"os": ["os"], "secrets": ["secrets"], "base32": ["foolscap.base32"]}[nm]
        if not src or any(x not in want for x in src):
            U("pb.py: %s is not imported from %s but %s" % (nm, want, src))
    return ok[text]


def clid_sign(fn):
    """(E1) how the local `clid` is computed from next(self.nextCLID): '+' or '-'; anything else fails closed"""
    stmts = []

    def walk(body):
        for i, st in enumerate(body):
            if isinstance(st, ast.Assign) and len(st.targets) == 1 and ast.unparse(st.targets[0]) == "clid":
                stmts.append((ast.unparse(st.value), body, i))
            elif isinstance(st, (ast.AugAssign, ast.AnnAssign)) and ast.unparse(st.target) == "clid":
                U("%s: clid is updated in place" % fn.name)
            for fld in ("body", "orelse", "finalbody"):
                sub = getattr(st, fld, None)
                if isinstance(sub, list) and sub and isinstance(sub[0], ast.stmt):
                    walk(sub)
            for h in getattr(st, "handlers", []):
                walk(h.body)
    walk(fn.body)
    vals = [v for v, _, _ in stmts]
    if vals == ["next(self.nextCLID)"]:
        return "+"
    if vals == ["-next(self.nextCLID)"]:
        return "-"
    if vals == ["next(self.nextCLID)", "-clid"] and stmts[0][1] is stmts[1][1] and stmts[1][2] == stmts[0][2] + 1:
        return "-"
    U("%s: clid is not next(self.nextCLID) or its negation: %s" % (fn.name, vals))


def attribute_is_always_empty_dict(attr):
    """(E3) every store to `<anything>.attr` in the package (tests excluded) assigns the empty dict display"""
    n = 0
    for d, dirs, files in os.walk(P.SRC):
        dirs[:] = [x for x in dirs if x not in ("test", "__pycache__")]
        for f in files:
            if not f.endswith(".py"):
                continue
            rel = os.path.relpath(os.path.join(d, f), P.SRC)
            try:
                tree = ast.parse(P.source(rel))
            except Exception:
                return False
            for node in ast.walk(tree):
                targets = []
                if isinstance(node, ast.Assign):
                    for t in node.targets:
                        targets += [x for x in ast.walk(t)]
                    val = node.value
                elif isinstance(node, (ast.AugAssign, ast.AnnAssign)):
                    targets = [x for x in ast.walk(node.target)]
                    val = None
                elif isinstance(node, ast.Call) and isinstance(node.func, ast.Name) and node.func.id == "setattr":
                    if len(node.args) >= 2 and not (isinstance(node.args[1], ast.Constant) and node.args[1].value != attr) \
                            and not setattr_name_is_bounded(tree, node, attr):
                        return False      # a setattr whose attribute name could be ours
                    continue
                else:
                    continue
                for t in targets:
                    if isinstance(t, ast.Attribute) and t.attr == attr and isinstance(t.ctx, ast.Store):
                        if not (isinstance(val, ast.Dict) and not val.keys) or len(getattr(node, "targets", [1])) != 1 \
                                or not isinstance(node.targets[0], ast.Attribute):
                            return False
                        n += 1
                    if isinstance(t, ast.Name) and t.id == attr and isinstance(t.ctx, ast.Store):
                        return False      # a class-level / module-level binding of that name
    return n > 0


def setattr_name_is_bounded(tree, call, attr):
    """setattr(o, k, v) where k is the variable of an enclosing `for k in (<string literals>)` that is not rebound in the
    loop and whose literals do not include attr: the attribute name can then never be attr"""
    k = call.args[1]
    if not isinstance(k, ast.Name):
        return False
    for loop in ast.walk(tree):
        if isinstance(loop, ast.For) and isinstance(loop.target, ast.Name) and loop.target.id == k.id \
                and any(n is call for b in loop.body for n in ast.walk(b)):
            if not (isinstance(loop.iter, (ast.Tuple, ast.List)) and all(isinstance(e, ast.Constant) and isinstance(e.value, str)
                                                                          and e.value != attr for e in loop.iter.elts)):
                return False
            for b in loop.body:
                for n in ast.walk(b):
                    if isinstance(n, ast.Name) and n.id == k.id and isinstance(n.ctx, ast.Store):
                        return False
            return True
    return False


def registry_loop(loop, regs):
    """(E4) `for R in <regs>: X = R.get(opentype); if X is not None: [C = X(); ...] ` with the named parts free"""
    if ast.unparse(loop.iter) != regs or not isinstance(loop.target, ast.Name) or len(loop.body) != 2:
        return False
    r = loop.target.id
    a, t = loop.body
    if not (isinstance(a, ast.Assign) and len(a.targets) == 1 and isinstance(a.targets[0], ast.Name)
            and ast.unparse(a.value) == "%s.get(opentype)" % r):
        return False
    x = a.targets[0].id
    if x == r or not (isinstance(t, ast.If) and not t.orelse and ast.unparse(t.test) == "%s is not None" % x):
        return False
    b = [ast.unparse(q) for q in t.body]
    if loop.orelse:                                  # doOpen: `child = X(); break` ... else: raise Violation
        return len(t.body) == 2 and isinstance(t.body[0], ast.Assign) and ast.unparse(t.body[0].value) == "%s()" % x \
            and isinstance(t.body[1], ast.Break)
    if b == ["return %s()" % x]:
        return True
    return len(t.body) == 2 and isinstance(t.body[0], ast.Assign) and len(t.body[0].targets) == 1 \
        and isinstance(t.body[0].targets[0], ast.Name) and ast.unparse(t.body[0].value) == "%s()" % x \
        and b[1] == "return %s" % t.body[0].targets[0].id and t.body[0].targets[0].id not in (x, r)


def copyable_branch(op):
    """(E5) the ('copyable', name) branch of RootUnslicer.open in either layout: when the name is present, look it up in
    copyable.CopyableRegistry (KeyError -> Violation), call what was found with no arguments and return the result;
    otherwise return None"""
    br = [s for s in op.body if isinstance(s, ast.If) and ast.unparse(s.test) == "opentype[0] == 'copyable'"]
    if len(br) != 1 or br[0].orelse:
        U("RootUnslicer.open: the ('copyable', ...) branch is not `if opentype[0] == 'copyable':`")
    body = br[0].body
    present = None
    if len(body) == 2 and isinstance(body[0], ast.If) and not body[0].orelse and ast.unparse(body[0].test) == "len(opentype) > 1" \
            and ast.unparse(body[1]) == "return None":
        present = body[0].body
    elif len(body) >= 2 and isinstance(body[0], ast.If) and not body[0].orelse and ast.unparse(body[0].test) == "len(opentype) <= 1" \
            and [ast.unparse(q) for q in body[0].body] == ["return None"]:
        present = body[1:]
    if present is None:
        U("RootUnslicer.open: the ('copyable', ...) branch has an unknown layout")
    if len(present) < 3 or ast.unparse(present[0]) != "copyablename = opentype[1]" or not isinstance(present[1], ast.Try):
        U("RootUnslicer.open: copyable name is not taken from opentype[1] and looked up under try")
    tr = present[1]
    if len(tr.body) != 1 or not isinstance(tr.body[0], ast.Assign) or len(tr.body[0].targets) != 1 \
            or not isinstance(tr.body[0].targets[0], ast.Name) \
            or ast.unparse(tr.body[0].value) != "copyable.CopyableRegistry[copyablename]" or tr.orelse or tr.finalbody:
        U("RootUnslicer.open: copyable lookup changed")
    f = tr.body[0].targets[0].id
    rest = [ast.unparse(q) for q in present[2:]]
    ok = rest == ["return %s()" % f]
    if not ok and len(present) == 4 and isinstance(present[2], ast.Assign) and len(present[2].targets) == 1 \
            and isinstance(present[2].targets[0], ast.Name) and present[2].targets[0].id != f:
        ok = rest == ["%s = %s()" % (present[2].targets[0].id, f), "return %s" % present[2].targets[0].id]
    if not ok:
        U("RootUnslicer.open: what the copyable lookup found is not simply called and returned: %s" % rest)


def copyable_refusal(op):
    """RootUnslicer.open: `factory = copyable.CopyableRegistry[copyablename]` inside try/except KeyError: raise Violation"""
    subs = []

    def walk(node, stack):
        for ch in ast.iter_child_nodes(node):
            st = stack
            if isinstance(node, ast.Try) and ch in node.body:
                st = stack + [node]
            if isinstance(ch, ast.Subscript) and ast.unparse(ch.value) == "copyable.CopyableRegistry":
                subs.append((ch, st))
            walk(ch, st)
    walk(op, [])
    if len(subs) != 1 or ast.unparse(subs[0][0]) != "copyable.CopyableRegistry[copyablename]":
        U("RootUnslicer.open: expected exactly one lookup copyable.CopyableRegistry[copyablename]")
    st = subs[0][1]
    if not st:
        return "AbortR"
    for h in st[-1].handlers:
        if h.type is not None and ast.unparse(h.type) == "KeyError" and len(h.body) == 1 and isinstance(h.body[0], ast.Raise) \
                and ast.unparse(h.body[0].exc).startswith("Violation("):
            return "RejectR"
    U("RootUnslicer.open: KeyError of the copyable lookup is no longer turned into a Violation")
