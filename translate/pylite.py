"""PyLite: a fail-closed translator from a small subset of Python (as found in
/repo/src/foolscap) to Gallina.

Anything outside the subset raises `Untranslatable`: the generated file is then
not written, the Coq build fails, and the check reports the broken tie.

Value types:  Z (Python int), B (bool), L (bytes / list of ints, as `list Z`),
              U (None, `unit`).
A translated function has type  args -> res T  with
    Inductive res T := Ok (v : T) | Exc (tag : string).
Early `return`, `raise`, `assert`, `if/elif/else`, `while` (fuel) and
`for x in <bytes>` (fold) are supported; see DESIGN.md section 1.6.
"""
import ast, os, re

REPO = os.environ.get("VERIF_REPO", "/repo")
SRC = os.path.join(REPO, "src", "foolscap")


class Untranslatable(Exception):
    pass


def bail(node, why):
    raise Untranslatable("%s at line %s: %s" % (why, getattr(node, "lineno", "?"),
                                                 ast.dump(node)[:200] if isinstance(node, ast.AST) else node))


_cache = {}
NORMALIZE_LOG = []


def load(rel):
    """parse a module of the package; new helpers / new named constants (relative to known_defs.json) are inlined first,
    see normalize.py (VERIF_NO_NORMALIZE=1 switches the front-end off)"""
    p = os.path.join(SRC, rel)
    if p not in _cache:
        with open(p) as f:
            src = f.read()
        mod = ast.parse(src)
        if not os.environ.get("VERIF_NO_NORMALIZE"):
            from translate import normalize
            mod, log = normalize.normalize(mod, rel, SRC)
            NORMALIZE_LOG.extend("%s: %s" % (rel, l) for l in log)
        _cache[p] = (mod, src)
    return _cache[p][0]


def source(rel):
    load(rel)
    return _cache[os.path.join(SRC, rel)][1]


def find_def(mod, qual):
    """'f' or 'Class.f' -> FunctionDef (exactly one, else fail)"""
    parts = qual.split(".")
    body = mod.body
    node = None
    for i, name in enumerate(parts):
        found = [n for n in body if isinstance(n, (ast.FunctionDef, ast.ClassDef)) and n.name == name]
        if len(found) != 1:
            raise Untranslatable("expected exactly one definition of %s, found %d" % (qual, len(found)))
        node = found[0]
        body = node.body
    return node


def find_class(mod, name):
    n = find_def(mod, name)
    if not isinstance(n, ast.ClassDef):
        raise Untranslatable("%s is not a class" % name)
    return n


def const_expr(node, env=None):
    """evaluate a literal-ish expression: numbers, strings, bytes, tuples, lists, dicts,
    arithmetic on them, names bound in env, list(range(n))."""
    env = env or {}
    if isinstance(node, ast.Constant):
        return node.value
    if isinstance(node, ast.Name):
        if node.id in env:
            return env[node.id]
        bail(node, "unknown name in constant expression")
    if isinstance(node, (ast.Tuple, ast.List)):
        v = [const_expr(e, env) for e in node.elts]
        return tuple(v) if isinstance(node, ast.Tuple) else v
    if isinstance(node, ast.Dict):
        return {const_expr(k, env): const_expr(v, env) for k, v in zip(node.keys, node.values)}
    if isinstance(node, ast.UnaryOp) and isinstance(node.op, ast.USub):
        return -const_expr(node.operand, env)
    if isinstance(node, ast.BinOp):
        a, b = const_expr(node.left, env), const_expr(node.right, env)
        ops = {ast.Add: lambda: a + b, ast.Sub: lambda: a - b, ast.Mult: lambda: a * b, ast.Pow: lambda: a ** b,
               ast.FloorDiv: lambda: a // b, ast.LShift: lambda: a << b, ast.Div: lambda: a / b,
               ast.Mod: lambda: a % b}
        for k, f in ops.items():
            if isinstance(node.op, k):
                return f()
    if isinstance(node, ast.Call) and isinstance(node.func, ast.Name):
        if node.func.id == "list" and len(node.args) == 1:
            return list(const_expr(node.args[0], env))
        if node.func.id == "range":
            return range(*[const_expr(a, env) for a in node.args])
        if node.func.id == "int2byte" and len(node.args) == 1:
            return bytes([const_expr(node.args[0], env)])
    if isinstance(node, ast.Call) and isinstance(node.func, ast.Attribute) and node.func.attr == "int2byte":
        return bytes([const_expr(node.args[0], env)])
    bail(node, "not a constant expression")


def module_consts(mod, names=None, body=None):
    """module- (or class-) level `NAME = <const>` and `A, B = <const tuple/list>` assignments"""
    env = {}
    for st in (body if body is not None else mod.body):
        if isinstance(st, ast.Assign) and len(st.targets) == 1:
            t = st.targets[0]
            try:
                if isinstance(t, ast.Name):
                    env[t.id] = const_expr(st.value, env)
                elif isinstance(t, ast.Tuple) and all(isinstance(e, ast.Name) for e in t.elts):
                    v = const_expr(st.value, env)
                    if len(v) == len(t.elts):
                        for e, x in zip(t.elts, v):
                            env[e.id] = x
            except Untranslatable:
                pass
    if names is not None:
        missing = [n for n in names if n not in env]
        if missing:
            raise Untranslatable("constants not found / not literal: %s" % missing)
        return {n: env[n] for n in names}
    return env


# ----------------------------------------------------------------------------
# expression / statement translation

Z, B, L, U = "Z", "bool", "list Z", "unit"

CMP = {ast.Lt: "Z.ltb", ast.LtE: "Z.leb", ast.Gt: "Z.gtb", ast.GtE: "Z.geb", ast.Eq: "Z.eqb"}
BIN = {ast.Add: "Z.add", ast.Sub: "Z.sub", ast.Mult: "Z.mul", ast.FloorDiv: "Z.div", ast.Mod: "Z.modulo",
       ast.Pow: "Z.pow", ast.LShift: "Z.shiftl", ast.RShift: "Z.shiftr", ast.BitAnd: "Z.land",
       ast.BitOr: "Z.lor", ast.BitXor: "Z.lxor"}


def zlit(n):
    return "(%d)" % n if n < 0 else "%d" % n


class Fn:
    """translate one FunctionDef.

    spec keys:
      params   : {name: type}   (in Python order; `self` is dropped; names absent are dropped only if listed in `drop`)
      drop     : [param names ignored by the translation (e.g. a message-only `name`)]
      acc      : name of a parameter which is a byte sink callable (`stream(b)` appends); returned as result
      ret      : result type
      fuel     : {loop index: Gallina nat expression over the variables in scope at loop entry}
      consts   : {name: int/bytes} module constants that may be referenced
      calls    : {python name: (gallina name, [arg types], ret type, raises: bool)} other translated functions
      attrs    : {attr: type} `self.attr` readable as variable `self_attr`
    """

    def __init__(self, name, fdef, spec, body=None, params=None):
        self.name = name
        self.f = fdef
        self.body = body if body is not None else fdef.body
        self.pnames = params
        self.spec = spec
        self.aux = []       # generated Fixpoints
        self.nloops = 0
        self.rty = spec.get("ret", U)
        self.acc = spec.get("acc")

    # -- types
    def ty(self, e, env):
        return self.ex(e, env)[1]

    def ex(self, e, env):
        """-> (gallina text, type)"""
        if isinstance(e, ast.Constant):
            v = e.value
            if isinstance(v, bool):
                return ("true" if v else "false"), B
            if isinstance(v, int):
                return zlit(v), Z
            if isinstance(v, bytes):
                return "[" + "; ".join(str(x) for x in v) + "]", L
            if v is None:
                return "tt", U
            bail(e, "constant type")
        if isinstance(e, ast.Name):
            if e.id in env:
                return e.id, env[e.id]
            c = self.spec.get("consts", {})
            if e.id in c:
                v = c[e.id]
                if isinstance(v, bool):
                    return ("true" if v else "false"), B
                if isinstance(v, int):
                    return zlit(v), Z
                if isinstance(v, bytes):
                    return "[" + "; ".join(str(x) for x in v) + "]", L
            bail(e, "unbound name")
        if isinstance(e, ast.Attribute) and isinstance(e.value, ast.Name) and e.value.id == "self":
            a = self.spec.get("attrs", {})
            nm = "self_" + e.attr
            if nm in env:
                return nm, env[nm]
            if e.attr in a:
                return nm, a[e.attr]
            bail(e, "unknown self attribute")
        if isinstance(e, ast.UnaryOp):
            if isinstance(e.op, ast.USub):
                t, ty = self.ex(e.operand, env)
                self.need(ty, Z, e)
                return "(Z.opp %s)" % t, Z
            if isinstance(e.op, ast.Not):
                return "(negb %s)" % self.cond(e.operand, env), B
        if isinstance(e, ast.BinOp):
            a, ta = self.ex(e.left, env)
            b, tb = self.ex(e.right, env)
            if isinstance(e.op, ast.Add) and ta == L and tb == L:
                return "(%s ++ %s)" % (a, b), L
            self.need(ta, Z, e)
            self.need(tb, Z, e)
            for k, f in BIN.items():
                if isinstance(e.op, k):
                    return "(%s %s %s)" % (f, a, b), Z
            bail(e, "operator")
        if isinstance(e, ast.Compare):
            parts = []
            left = e.left
            for op, right in zip(e.ops, e.comparators):
                parts.append(self.cmp1(left, op, right, env))
                left = right
            out = parts[0]
            for p in parts[1:]:
                out = "(andb %s %s)" % (out, p)
            return out, B
        if isinstance(e, ast.BoolOp):
            f = "andb" if isinstance(e.op, ast.And) else "orb"
            parts = [self.cond(v, env) for v in e.values]
            out = parts[0]
            for p in parts[1:]:
                out = "(%s %s %s)" % (f, out, p)
            return out, B
        if isinstance(e, ast.IfExp):
            c = self.cond(e.test, env)
            a, ta = self.ex(e.body, env)
            b, tb = self.ex(e.orelse, env)
            self.need(ta, tb, e)
            return "(if %s then %s else %s)" % (c, a, b), ta
        if isinstance(e, ast.Subscript):
            v, tv = self.ex(e.value, env)
            self.need(tv, L, e)
            if isinstance(e.slice, ast.Slice):
                if e.slice.step is not None:
                    bail(e, "slice step")
                lo = self.exZ(e.slice.lower, env) if e.slice.lower is not None else None
                hi = self.exZ(e.slice.upper, env) if e.slice.upper is not None else None
                return "(py_slice %s %s %s)" % (v, "(Some %s)" % lo if lo else "None",
                                                "(Some %s)" % hi if hi else "None"), L
            bail(e, "indexing")
        if isinstance(e, ast.Call):
            return self.call(e, env)
        bail(e, "expression")

    def exZ(self, e, env):
        t, ty = self.ex(e, env)
        self.need(ty, Z, e)
        return t

    def need(self, got, want, node):
        if got != want:
            bail(node, "type %s where %s expected" % (got, want))

    def cmp1(self, left, op, right, env):
        a, ta = self.ex(left, env)
        if isinstance(op, (ast.In, ast.NotIn)) and isinstance(right, (ast.Tuple, ast.List)):
            self.need(ta, Z, left)
            alts = ["(Z.eqb %s %s)" % (a, self.exZ(x, env)) for x in right.elts]
            out = "false"
            for x in reversed(alts):
                out = "(orb %s %s)" % (x, out)
            return out if isinstance(op, ast.In) else "(negb %s)" % out
        b, tb = self.ex(right, env)
        if ta == L and tb == L and isinstance(op, (ast.Eq, ast.NotEq)):
            t = "(list_eqb %s %s)" % (a, b)
            return t if isinstance(op, ast.Eq) else "(negb %s)" % t
        self.need(ta, Z, left)
        self.need(tb, Z, right)
        if isinstance(op, ast.NotEq):
            return "(negb (Z.eqb %s %s))" % (a, b)
        for k, f in CMP.items():
            if isinstance(op, k):
                return "(%s %s %s)" % (f, a, b)
        bail(op, "comparison")

    def cond(self, e, env):
        """Python truthiness of e as a Gallina bool"""
        t, ty = self.ex(e, env)
        if ty == B:
            return t
        if ty == Z:
            return "(negb (Z.eqb %s 0))" % t
        if ty == L:
            return "(negb (list_is_nil %s))" % t
        bail(e, "truthiness of %s" % ty)

    def call(self, e, env):
        f = e.func
        if e.keywords:
            bail(e, "keyword arguments")
        nm = None
        if isinstance(f, ast.Name):
            nm = f.id
        elif isinstance(f, ast.Attribute) and isinstance(f.value, ast.Name) and f.value.id == "six":
            nm = "six." + f.attr
        if nm in ("min", "max") and len(e.args) == 2:
            return "(Z.%s %s %s)" % (nm, self.exZ(e.args[0], env), self.exZ(e.args[1], env)), Z
        if nm == "abs" and len(e.args) == 1:
            return "(Z.abs %s)" % self.exZ(e.args[0], env), Z
        if nm == "len" and len(e.args) == 1:
            v, tv = self.ex(e.args[0], env)
            self.need(tv, L, e)
            return "(Z.of_nat (List.length %s))" % v, Z
        if nm == "six.int2byte" and len(e.args) == 1:
            return "[%s]" % self.exZ(e.args[0], env), L
        if nm in ("six.iterbytes", "bytes", "six.ensure_binary") and len(e.args) == 1:
            v, tv = self.ex(e.args[0], env)
            self.need(tv, L, e)
            return v, L
        # b"".join(reversed(xs)) / b"".join(xs) where xs is a list of single bytes, modelled flat
        if isinstance(f, ast.Attribute) and f.attr == "join" and isinstance(f.value, ast.Constant) \
                and f.value.value == b"" and len(e.args) == 1:
            a = e.args[0]
            if isinstance(a, ast.Call) and isinstance(a.func, ast.Name) and a.func.id == "reversed":
                v, tv = self.ex(a.args[0], env)
                self.need(tv, L, e)
                return "(rev %s)" % v, L
            v, tv = self.ex(a, env)
            self.need(tv, L, e)
            return v, L
        calls = self.spec.get("calls", {})
        if nm in calls:
            g, argtys, rty, raises = calls[nm]
            if raises:
                bail(e, "call to raising function in expression position")
            args = []
            for a, want in zip(e.args, argtys):
                t, ty = self.ex(a, env)
                self.need(ty, want, a)
                args.append(t)
            return "(%s %s)" % (g, " ".join(args)), rty
        bail(e, "call")

    # -- statements:  block(stmts, env, k) where k(env) -> gallina text of the continuation
    def block(self, stmts, env, k):
        if not stmts:
            return k(env)
        st, rest = stmts[0], stmts[1:]
        nxt = lambda env2: self.block(rest, env2, k)
        if isinstance(st, ast.Expr) and isinstance(st.value, ast.Constant) and isinstance(st.value.value, str):
            return nxt(env)  # docstring
        if isinstance(st, ast.Pass):
            return nxt(env)
        if isinstance(st, ast.Assign):
            if len(st.targets) != 1:
                bail(st, "multiple targets")
            return self.assign(st.targets[0], st.value, env, nxt, st)
        if isinstance(st, ast.AugAssign):
            val = ast.BinOp(left=st.target, op=st.op, right=st.value)
            ast.copy_location(val, st)
            return self.assign(st.target, val, env, nxt, st)
        if isinstance(st, ast.If):
            c = self.cond(st.test, env)
            a = self.block(st.body, dict(env), nxt)
            b = self.block(st.orelse, dict(env), nxt)
            return "(if %s\n then %s\n else %s)" % (c, a, b)
        if isinstance(st, ast.Return):
            return self.ret(st.value, env, st)
        if isinstance(st, ast.Raise):
            return 'Exc "%s"%%string' % self.exc_name(st.exc)
        if isinstance(st, ast.Assert):
            return '(if %s then %s else Exc "AssertionError"%%string)' % (self.cond(st.test, env), nxt(env))
        if isinstance(st, ast.Expr) and isinstance(st.value, ast.Call):
            c = st.value
            # byte sink:  stream(b)
            if isinstance(c.func, ast.Name) and c.func.id == self.acc and len(c.args) == 1:
                t, ty = self.ex(c.args[0], env)
                self.need(ty, L, c)
                return "(let %s := %s ++ %s in\n %s)" % (self.acc, self.acc, t, nxt(env))
            # call of another translated byte-sink function with our own sink:  int2b128(n, write)
            sinks = self.spec.get("sink_calls", {})
            if isinstance(c.func, ast.Name) and c.func.id in sinks and c.args and isinstance(c.args[-1], ast.Name) \
                    and c.args[-1].id == self.acc:
                g, argtys = sinks[c.func.id]
                args = []
                for a, want in zip(c.args[:-1], argtys):
                    t, ty = self.ex(a, env)
                    self.need(ty, want, a)
                    args.append(t)
                if len(args) != len(argtys):
                    bail(c, "arity of sink call")
                return "(match %s %s %s with Exc tag => Exc tag | Ok %s =>\n %s end)" % (
                    g, " ".join(args), self.acc, self.acc, nxt(env))
            # xs.append(six.int2byte(e)) on a flat byte list
            if isinstance(c.func, ast.Attribute) and c.func.attr == "append" and isinstance(c.func.value, ast.Name) \
                    and env.get(c.func.value.id) == L and len(c.args) == 1:
                t, ty = self.ex(c.args[0], env)
                self.need(ty, L, c)
                v = c.func.value.id
                return "(let %s := %s ++ %s in\n %s)" % (v, v, t, nxt(env))
            # call to a translated raising function whose value is ignored (e.g. check_inrange)
            calls = self.spec.get("calls", {})
            if isinstance(c.func, ast.Name) and c.func.id in calls:
                g, argtys, rty, raises = calls[c.func.id]
                args = []
                for a, want in zip(c.args, argtys):
                    t, ty = self.ex(a, env)
                    self.need(ty, want, a)
                    args.append(t)
                if raises:
                    return "(match %s %s with Exc tag => Exc tag | Ok _ => %s end)" % (g, " ".join(args), nxt(env))
                return nxt(env)
            bail(st, "expression statement")
        if isinstance(st, ast.While):
            return self.loop_while(st, env, nxt)
        if isinstance(st, ast.For):
            return self.loop_for(st, env, nxt)
        bail(st, "statement")

    def exc_name(self, e):
        if isinstance(e, ast.Call):
            e = e.func
        if isinstance(e, ast.Name):
            return e.id
        if isinstance(e, ast.Attribute):
            return e.attr
        bail(e, "raise")

    def target_name(self, t):
        if isinstance(t, ast.Name):
            return t.id
        if isinstance(t, ast.Attribute) and isinstance(t.value, ast.Name) and t.value.id == "self":
            return "self_" + t.attr
        bail(t, "assignment target")

    def assign(self, target, value, env, nxt, st):
        calls = self.spec.get("calls", {})
        name = self.target_name(target)
        if isinstance(value, ast.List) and not value.elts:
            env2 = dict(env)
            env2[name] = L
            return "(let %s := @nil Z in\n %s)" % (name, nxt(env2))
        if isinstance(value, ast.Call) and isinstance(value.func, ast.Name) and value.func.id in calls \
                and calls[value.func.id][3]:
            g, argtys, rty, _ = calls[value.func.id]
            args = []
            for a, want in zip(value.args, argtys):
                t, ty = self.ex(a, env)
                self.need(ty, want, a)
                args.append(t)
            env2 = dict(env)
            env2[name] = rty
            return "(match %s %s with Exc tag => Exc tag | Ok %s => %s end)" % (g, " ".join(args), name, nxt(env2))
        t, ty = self.ex(value, env)
        if name in env and env[name] != ty:
            bail(st, "variable %s changes type" % name)
        env2 = dict(env)
        env2[name] = ty
        return "(let %s := %s in\n %s)" % (name, t, nxt(env2))

    def ret(self, value, env, st):
        if self.acc:
            if value is not None:
                bail(st, "return with value in a sink function")
            return "Ok %s" % self.acc
        mods = self.spec.get("returns_attrs")
        if value is None:
            t, ty = "tt", U
        else:
            t, ty = self.ex(value, env)
        self.need(ty, self.rty, st)
        if mods:
            return "Ok (%s, %s)" % (t, ", ".join("self_" + m for m in mods))
        return "Ok %s" % t

    def assigned(self, stmts):
        out = []
        for n in stmts:
            for x in ast.walk(n):
                tgt = None
                if isinstance(x, ast.Assign) and len(x.targets) == 1:
                    tgt = x.targets[0]
                elif isinstance(x, ast.AugAssign):
                    tgt = x.target
                elif isinstance(x, ast.Expr) and isinstance(x.value, ast.Call):
                    c = x.value
                    if isinstance(c.func, ast.Name) and c.func.id == self.acc:
                        tgt = ast.Name(id=self.acc)
                    elif isinstance(c.func, ast.Attribute) and c.func.attr == "append" and isinstance(c.func.value, ast.Name):
                        tgt = c.func.value
                if tgt is not None:
                    nm = self.target_name(tgt)
                    if nm not in out:
                        out.append(nm)
        return out

    def loop_while(self, st, env, nxt):
        if st.orelse:
            bail(st, "while-else")
        self.nloops += 1
        idx = self.nloops
        fuel = self.spec.get("fuel", {}).get(idx)
        if fuel is None:
            bail(st, "no fuel given for loop %d" % idx)
        for v in self.assigned(st.body):
            if v not in env:
                bail(st, "loop assigns %s which is not initialised before the loop" % v)
        lname = "%s_loop%d" % (self.name, idx)
        params = list(env.items())
        args = " ".join(n for n, _ in params)
        sig = " ".join("(%s : %s)" % (n, t) for n, t in params)
        c = self.cond(st.test, env)
        body = self.block(st.body, dict(env), lambda env2: "%s fuel %s" % (lname, args))
        exit_ = nxt(dict(env))
        self.aux.append(
            "Fixpoint %s (fuel : nat) %s {struct fuel} : res (%s) :=\n match fuel with\n | O => Exc \"OutOfFuel\"%%string\n"
            " | S fuel =>\n  if %s\n  then %s\n  else %s\n end." % (lname, sig, self.full_rty(), c, body, exit_))
        return "(%s (%s) %s)" % (lname, fuel, args)

    def loop_for(self, st, env, nxt):
        # `for i, x in enumerate(E): BODY` is `i = 0; for x in E: BODY; i = i + 1` when BODY does not assign i and i is not read after
        # the loop (after the loop the two forms leave different values in i)
        if (not st.orelse and isinstance(st.target, ast.Tuple) and len(st.target.elts) == 2 and all(isinstance(e, ast.Name) for e in st.target.elts)
                and isinstance(st.iter, ast.Call) and isinstance(st.iter.func, ast.Name) and st.iter.func.id == "enumerate"
                and len(st.iter.args) == 1 and not st.iter.keywords):
            i, x = st.target.elts[0].id, st.target.elts[1].id
            inside = {id(n) for n in ast.walk(st)}
            scope = getattr(self, "f", None)
            outside_loads = [n for n in (ast.walk(scope) if scope is not None else []) if isinstance(n, ast.Name) and n.id == i
                             and isinstance(n.ctx, ast.Load) and id(n) not in inside]
            body_stores = [n for b in st.body for n in ast.walk(b) if isinstance(n, ast.Name) and n.id == i and isinstance(n.ctx, ast.Store)]
            if scope is None or outside_loads or body_stores or i in env:
                bail(st, "enumerate form (index read after the loop, assigned in the body, or already bound)")
            init = ast.copy_location(ast.Assign(targets=[ast.Name(id=i, ctx=ast.Store())], value=ast.Constant(value=0)), st)
            inc = ast.copy_location(ast.Assign(targets=[ast.Name(id=i, ctx=ast.Store())],
                                               value=ast.BinOp(left=ast.Name(id=i, ctx=ast.Load()), op=ast.Add(), right=ast.Constant(value=1))), st)
            loop = ast.copy_location(ast.For(target=ast.Name(id=x, ctx=ast.Store()), iter=st.iter.args[0], body=list(st.body) + [inc], orelse=[]), st)
            for n in (init, inc, loop):
                ast.fix_missing_locations(n)
            return self.block([init, loop], env, nxt)
        # `for t in (a, b, ...): BODY` over a short literal of names/constants is BODY[t:=a]; BODY[t:=b]; ... when BODY has no
        # break/continue, does not assign t, and t is not read after the loop
        unrolled = self.unroll_literal_for(st, env)
        if unrolled is not None:
            return self.block(unrolled, env, nxt)
        if st.orelse or not isinstance(st.target, ast.Name):
            bail(st, "for form")
        for x in ast.walk(ast.Module(body=st.body, type_ignores=[])):
            if isinstance(x, (ast.Return, ast.Raise, ast.Break, ast.Continue, ast.Assert, ast.While, ast.For)):
                bail(x, "control flow inside for")
        seq, ts = self.ex(st.iter, env)
        self.need(ts, L, st)
        vs = self.assigned(st.body)
        for v in vs:
            if v not in env:
                bail(st, "loop assigns %s which is not initialised before the loop" % v)
        if not vs:
            bail(st, "for without state")
        tup = "(%s)" % ", ".join(vs) if len(vs) > 1 else vs[0]
        pat = "'" + tup if len(vs) > 1 else tup
        env2 = dict(env)
        env2[st.target.id] = Z
        body = self.block(st.body, env2, lambda e3: tup)
        return "(let %s := fold_left (fun %s %s => %s) %s %s in\n %s)" % (pat, pat, st.target.id, body, seq, tup, nxt(dict(env)))

    def unroll_literal_for(self, st, env):
        if st.orelse or not isinstance(st.iter, (ast.Tuple, ast.List)) or not (1 <= len(st.iter.elts) <= 6):
            return None
        atom = lambda e: isinstance(e, ast.Name) or (isinstance(e, ast.Constant) and isinstance(e.value, (int, str, bytes, bool, type(None))))
        if isinstance(st.target, ast.Name):
            names = [st.target.id]
            rows = [[e] for e in st.iter.elts]
        elif isinstance(st.target, ast.Tuple) and all(isinstance(e, ast.Name) for e in st.target.elts):
            names = [e.id for e in st.target.elts]
            if not all(isinstance(e, ast.Tuple) and len(e.elts) == len(names) for e in st.iter.elts):
                return None
            rows = [list(e.elts) for e in st.iter.elts]
        else:
            return None
        if len(set(names)) != len(names) or not all(atom(e) for r in rows for e in r):
            return None
        for b in st.body:
            for n in ast.walk(b):
                if isinstance(n, (ast.Break, ast.Continue, ast.FunctionDef, ast.Lambda, ast.ListComp, ast.GeneratorExp, ast.DictComp, ast.SetComp)):
                    return None
                if isinstance(n, ast.Name) and n.id in names and not isinstance(n.ctx, ast.Load):
                    return None
        # the row atoms must not be assigned in the body either (they are read again by the later copies)
        row_names = {e.id for r in rows for e in r if isinstance(e, ast.Name)}
        for b in st.body:
            for n in ast.walk(b):
                if isinstance(n, ast.Name) and n.id in row_names and not isinstance(n.ctx, ast.Load):
                    return None
        inside = {id(n) for n in ast.walk(st)}
        scope = getattr(self, "f", None)
        if scope is None or any(isinstance(n, ast.Name) and n.id in names and id(n) not in inside for n in ast.walk(scope)) or any(n in env for n in names):
            return None
        import copy

        class Sub(ast.NodeTransformer):
            def __init__(s2, m):
                s2.m = m

            def visit_Name(s2, n):
                if n.id in s2.m and isinstance(n.ctx, ast.Load):
                    return ast.copy_location(copy.deepcopy(s2.m[n.id]), n)
                return n
        out = []
        for r in rows:
            m = dict(zip(names, r))
            for b in st.body:
                out.append(ast.fix_missing_locations(Sub(m).visit(copy.deepcopy(b))))
        return out

    def full_rty(self):
        if self.acc:
            return L
        mods = self.spec.get("returns_attrs")
        if mods:
            a = self.spec["attrs"]
            return " * ".join([self.rty] + [a[m] for m in mods])
        return self.rty

    def emit(self):
        spec = self.spec
        env = {}
        pnames = self.pnames if self.pnames is not None else [a.arg for a in self.f.args.args if a.arg != "self"]
        for p in pnames:
            if p in spec.get("drop", []):
                continue
            if p == self.acc:
                env[p] = L
                continue
            if p not in spec["params"]:
                raise Untranslatable("parameter %s of %s not described" % (p, self.name))
            env[p] = spec["params"][p]
        extra = [p for p in spec["params"] if p not in pnames]
        if extra:
            raise Untranslatable("%s no longer has parameter(s) %s" % (self.name, extra))
        for a, t in spec.get("attrs", {}).items():
            env["self_" + a] = t
        sig = " ".join("(%s : %s)" % (n, t) for n, t in env.items())

        def fall_off(env2):
            # falling off the end of the function: return None
            if self.acc:
                return "Ok %s" % self.acc
            if self.rty != U:
                raise Untranslatable("%s can fall off its end but is declared to return %s" % (self.name, self.rty))
            mods = spec.get("returns_attrs")
            if mods:
                return "Ok (tt, %s)" % ", ".join("self_" + m for m in mods)
            return "Ok tt"
        body = self.block(self.body, env, fall_off)
        out = "\n\n".join(self.aux)
        if out:
            out += "\n\n"
        out += "Definition %s %s : res (%s) :=\n %s." % (self.name, sig, self.full_rty(), body)
        return out


PRELUDE = '''(* GENERATED by /verif/translate from %(src)s -- do not edit; regenerated on every run *)
From Coq Require Import ZArith List String Bool.
Import ListNotations.
Require Import Verif.lib.PyLite.
Local Open Scope Z_scope.
'''


def translate_function(rel, qual, name, spec):
    mod = load(rel)
    f = find_def(mod, qual)
    if not isinstance(f, ast.FunctionDef):
        raise Untranslatable("%s is not a function" % qual)
    if f.args.vararg or f.args.kwarg or f.args.kwonlyargs:
        raise Untranslatable("%s has star-args" % qual)
    return Fn(name, f, spec).emit()


def translate_block(name, stmts, params, spec):
    """translate a statement list (e.g. one branch of a method) as a function of `params` (ordered names)"""
    return Fn(name, None, spec, body=stmts, params=params).emit()


def write_if_changed(path, text):
    os.makedirs(os.path.dirname(path), exist_ok=True)
    try:
        if open(path).read() == text:
            return False
    except OSError:
        pass
    with open(path, "w") as f:
        f.write(text)
    return True
