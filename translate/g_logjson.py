"""C18: the JSON fallback chain of logging/flogfile.py as translated facts for lib/LogJson.v.

    serialize_to_json_utf8   which stages exist and WHICH exception classes each `except` selects
    _make_jsonable           the container types it descends into, whether it looks for containers that contain
                             themselves, the key types it keeps, whether repr(key) is guarded
    _last_resort             the scalar types kept, the bound on integers, the default depth, key replacement
    ExtendedEncoder.default  the Failure / repr / repr-of-the-exception / give-up nest
    serialize_wrapper / serialize_header   the names of the wrapper keys
    log.format_message       whether the key normalisation runs outside the try; what the two `except` clauses select

Each function is matched against its expected text with HOLES at the places listed above; the content of every hole is
emitted as a small enumerated value that the model *interprets*.  Anything else raises Untranslatable (fail closed).
Message texts (string literals longer than 24 characters) are not part of the facts: they are blanked before matching.

Accepted alternative forms (each with its equivalence argument, independent of the values involved):
L1  _last_resort, dict branch:  `return dict([(K(k), R(v)) for k, v in list(o.items())])`  ==
        `out = {}` / `for k, v in list(o.items()): (if not isinstance(k, str): k = LIT) ; out[k] = R(v)` / `return out`
    with K(k) = `k if isinstance(k, str) else LIT`.  Both walk the same snapshot list(o.items()) in order, compute the same key
    and call R on the same value in the same order; dict() of a list of pairs inserts them in order exactly as successive
    `out[key] = value` do (first position, last value for equal keys); K and the isinstance test have no effect besides their value.
L2  serialize_header:  building `{'header': {'type': type}}` first and filling header['header'], or filling a local dict
    {'type': type} first and wrapping it afterwards; an `assert 'type' not in kwargs` in between never fails ('type' is a
    named parameter, so the call convention never puts it into **kwargs).  Same dict, same insertion order.
L3  a type tuple / exception tuple written as a module-level name bound exactly once (resolve_const).
L4  format_message: the if/elif chain that chooses (fmt, args) moved into a module-level helper H(e) written as an
    early-return chain and called as `fmt, args = H(e)` inside the same try.  `if C: S; return X` followed by REST is
    `if C: S; return X else: REST`; returning the pair and unpacking it binds the same two values; within each branch the
    operations that can raise or have effects (the asserts, six.ensure_str, e[...]) occur in the same order; an exception
    raised inside H propagates to the same handler."""
import ast, copy
from translate import pylite as P
from translate.g_logbuf import inline_tail_return_helper

PROPERTIES = ["C18"]
OUTPUTS = ["LogJsonGen.v"]

TYPES = {"str": "TStr", "int": "TInt", "float": "TFloat", "bool": "TBool", "bytes": "TBytes", "dict": "TDict",
         "list": "TList", "tuple": "TTuple"}
EXC = {"Exception": "CAll", "BaseException": "CAll", "TypeError": "CTypeError", "ValueError": "CValueError",
       "RecursionError": "CRecursionError", "RuntimeError": "CRuntimeError"}
# classes no failure of the model belongs to (listing them in an except clause changes nothing)
EXC_IRRELEVANT = {"OverflowError", "UnicodeError", "UnicodeEncodeError", "UnicodeDecodeError", "KeyError", "IndexError",
                  "AttributeError", "ZeroDivisionError", "ArithmeticError", "LookupError"}


def U(n):
    return ast.unparse(n)


def bail(msg):
    raise P.Untranslatable(msg)


MODULE = [None]


def resolve_const(node):
    """a module-level name bound exactly once (one plain assignment at module level, no other store, no global statement
    anywhere) stands for the expression it was bound to: the name is looked up when the function runs, after the module
    body has finished, and nothing can have rebound it"""
    mod = MODULE[0]
    if not (isinstance(node, ast.Name) and mod is not None):
        return node
    if node.id in TYPES or node.id in EXC or node.id in EXC_IRRELEVANT:
        return node
    binds = [st for st in mod.body if isinstance(st, ast.Assign) and len(st.targets) == 1 and isinstance(st.targets[0], ast.Name)
             and st.targets[0].id == node.id]
    stores = [n for n in ast.walk(mod) if (isinstance(n, ast.Name) and n.id == node.id and isinstance(n.ctx, (ast.Store, ast.Del)))
              or (isinstance(n, (ast.Global, ast.Nonlocal)) and node.id in n.names)
              or (isinstance(n, ast.arg) and n.arg == node.id)
              or (isinstance(n, (ast.FunctionDef, ast.ClassDef)) and n.name == node.id)
              or (isinstance(n, ast.alias) and (n.asname or n.name) == node.id)]
    if len(binds) != 1 or len(stores) != 1:
        return node
    return binds[0].value


def type_list(node, what):
    """`T` or `(T1, T2, ..)` with Ti a builtin type name or type(None); or a module constant bound to such a tuple"""
    node = resolve_const(node)
    elts = node.elts if isinstance(node, ast.Tuple) else [node]
    out = []
    for e in elts:
        if isinstance(e, ast.Name) and e.id in TYPES:
            out.append(TYPES[e.id])
        elif U(e) == "type(None)":
            out.append("TNone")
        else:
            bail("%s: type %s is not one the model knows" % (what, U(e)))
    return out


def catch_list(h, what):
    if h.name:
        bail("%s: handler binds the exception" % what)
    if h.type is None:
        return ["CAll"]
    ht = resolve_const(h.type)
    elts = ht.elts if isinstance(ht, ast.Tuple) else [ht]
    out = []
    for e in elts:
        if not isinstance(e, ast.Name):
            bail("%s: exception class %s" % (what, U(e)))
        if e.id in EXC:
            out.append(EXC[e.id])
        elif e.id in EXC_IRRELEVANT:
            continue
        else:
            bail("%s: exception class %s is not one the model knows" % (what, e.id))
    return out


class Blank(ast.NodeTransformer):
    """long string literals (message texts) -> '..'"""
    def visit_Constant(self, n):
        if isinstance(n.value, str) and len(n.value) > 24:
            return ast.Constant(value="..")
        return n


def body_of(fn):
    return [s for s in fn.body if not (isinstance(s, ast.Expr) and isinstance(s.value, ast.Constant))]


def text(stmts):
    return "\n".join(U(ast.fix_missing_locations(Blank().visit(copy.deepcopy(s)))) for s in stmts)


def hole(node, name):
    return ast.copy_location(ast.Name(id=name, ctx=ast.Load()), node)


def coq_list(xs):
    return "[" + "; ".join(xs) + "]"


def make_jsonable_facts(fm):
    fn = copy.deepcopy(P.find_def(fm, "_make_jsonable"))
    a = fn.args
    if [x.arg for x in a.args] != ["o", "_seen"] or len(a.defaults) != 1 or U(a.defaults[0]) != "()" or a.vararg or a.kwarg \
            or a.kwonlyargs or fn.decorator_list:
        bail("_make_jsonable: signature changed")
    b = body_of(fn)
    if len(b) != 2 or not isinstance(b[0], ast.If) or b[0].orelse or U(b[1]) != "return o":
        bail("_make_jsonable: expected `if isinstance(o, CONTAINERS): ..; return o`")
    t = b[0].test
    if not (isinstance(t, ast.Call) and U(t.func) == "isinstance" and len(t.args) == 2 and U(t.args[0]) == "o"):
        bail("_make_jsonable: container test changed: " + U(t))
    conts = type_list(t.args[1], "_make_jsonable containers")
    inner = list(b[0].body)
    cyc = False
    if inner and isinstance(inner[0], ast.If) and U(inner[0].test) == "id(o) in _seen":
        if text(inner[0].body) != "return {'@': 'UnJSONable', 'message': '..'}" or inner[0].orelse:
            bail("_make_jsonable: the replacement of a container that contains itself changed")
        cyc = True
        inner = inner[1:]
    if not inner or U(inner[0]) != "_seen = _seen + (id(o),)":
        bail("_make_jsonable: `_seen = _seen + (id(o),)` missing")
    inner = inner[1:]
    if len(inner) != 2 or not isinstance(inner[0], ast.If) or U(inner[0].test) != "isinstance(o, dict)" or inner[0].orelse \
            or U(inner[1]) != "return [_make_jsonable(v, _seen) for v in o]":
        bail("_make_jsonable: dict / sequence branches changed")
    d = inner[0].body
    if len(d) != 3 or U(d[0]) != "out = {}" or U(d[2]) != "return out" or not isinstance(d[1], ast.For) \
            or U(d[1].target) != "(k, v)" or U(d[1].iter) != "list(o.items())" or d[1].orelse:
        bail("_make_jsonable: dict loop changed")
    lb = d[1].body
    if len(lb) != 2 or U(lb[1]) != "out[k] = _make_jsonable(v, _seen)" or not isinstance(lb[0], ast.If) or lb[0].orelse:
        bail("_make_jsonable: dict loop body changed")
    kt = lb[0].test
    if not (isinstance(kt, ast.UnaryOp) and isinstance(kt.op, ast.Not) and isinstance(kt.operand, ast.Call)
            and U(kt.operand.func) == "isinstance" and U(kt.operand.args[0]) == "k"):
        bail("_make_jsonable: key test changed: " + U(kt))
    keep = type_list(kt.operand.args[1], "_make_jsonable keys")
    kb = lb[0].body
    if len(kb) == 1 and U(kb[0]) == "k = repr(k)":
        guarded = False
    elif len(kb) == 1 and isinstance(kb[0], ast.Try) and [U(x) for x in kb[0].body] == ["k = repr(k)"] \
            and len(kb[0].handlers) == 1 and not kb[0].orelse and not kb[0].finalbody \
            and catch_list(kb[0].handlers[0], "_make_jsonable repr(key)") == ["CAll"] \
            and len(kb[0].handlers[0].body) == 1 and isinstance(kb[0].handlers[0].body[0], ast.Assign) \
            and U(kb[0].handlers[0].body[0].targets[0]) == "k" and isinstance(kb[0].handlers[0].body[0].value, ast.Constant) \
            and isinstance(kb[0].handlers[0].body[0].value.value, str):
        guarded = True
    else:
        bail("_make_jsonable: replacement of an odd key changed")
    return conts, cyc, keep, guarded


def last_resort_facts(fm):
    fn = P.find_def(fm, "_last_resort")
    a = fn.args
    if [x.arg for x in a.args] != ["o", "depth"] or len(a.defaults) != 1 or a.vararg or a.kwarg or a.kwonlyargs or fn.decorator_list:
        bail("_last_resort: signature changed")
    depth = P.const_expr(a.defaults[0])
    if not isinstance(depth, int) or isinstance(depth, bool) or depth < 0 or depth > 64:
        bail("_last_resort: default depth is not a small integer literal")
    b = body_of(fn)
    if len(b) != 4:
        bail("_last_resort: expected four statements, found %d" % len(b))
    s1, s2, s3, s4 = b
    if not (isinstance(s1, ast.If) and not s1.orelse and [U(x) for x in s1.body] == ["return o"] and isinstance(s1.test, ast.Call)
            and U(s1.test.func) == "isinstance" and U(s1.test.args[0]) == "o"):
        bail("_last_resort: scalar test changed")
    scalars = type_list(s1.test.args[1], "_last_resort scalars")
    if not (isinstance(s2, ast.If) and not s2.orelse and [U(x) for x in s2.body] == ["return o"]):
        bail("_last_resort: integer test changed")
    if U(s2.test) == "isinstance(o, int)":
        bound = None
    else:
        t = s2.test
        if not (isinstance(t, ast.BoolOp) and isinstance(t.op, ast.And) and len(t.values) == 2 and U(t.values[0]) == "isinstance(o, int)"
                and isinstance(t.values[1], ast.Compare) and len(t.values[1].ops) == 1 and isinstance(t.values[1].ops[0], ast.Lt)
                and U(t.values[1].left) == "abs(o)"):
            bail("_last_resort: integer test changed: " + U(t))
        bound = P.const_expr(t.values[1].comparators[0])
        if not isinstance(bound, int) or isinstance(bound, bool):
            bail("_last_resort: integer bound is not a constant")
    # two accepted forms of the dict branch (module docstring, L1): the comprehension handed to dict() and the explicit loop
    want3a = ("if isinstance(o, dict) and depth:\n    return dict([(k if isinstance(k, str) else %s, _last_resort(v, depth - 1)) "
              "for k, v in list(o.items())])")
    want3b = ("if isinstance(o, dict) and depth:\n    out = {}\n    for k, v in list(o.items()):\n        if not isinstance(k, str):\n"
              "            k = %s\n        out[k] = _last_resort(v, depth - 1)\n    return out")
    ok3 = False
    if isinstance(s3, ast.If):
        lits = [n.value for n in ast.walk(s3) if isinstance(n, ast.Constant) and isinstance(n.value, str)]
        if len(lits) == 1:
            ok3 = U(s3) in (want3a % repr(lits[0]), want3b % repr(lits[0]))
    if not ok3:
        bail("_last_resort: dict branch changed: " + U(s3))
    if not (isinstance(s4, ast.Return) and isinstance(s4.value, ast.Constant) and isinstance(s4.value.value, str)):
        bail("_last_resort: final replacement is not a text literal")
    for n in ast.walk(fn):
        if isinstance(n, ast.Raise):
            bail("_last_resort contains a raise")
    return scalars, bound, depth


DEFAULT_TEXT = """if isinstance(o, failure.Failure):
    return {'@': 'Failure', 'str': str(o), 'repr': repr(o), 'traceback': o.getTraceback()}
try:
    return {'@': 'UnJSONable', 'message': '..', 'repr': repr(o)}
except Exception as e:
    try:
        return {'@': 'Unreprable', 'message': '..', 'exception_repr': repr(e)}
    except Exception:
        return {'@': 'ReallyUnreprable', 'message': '..'}"""


FMT_TRY = """if 'format' in e:
    fmt = six.ensure_str(e['format'])
    args = e
elif 'args' in e:
    assert 'message' in e
    fmt = six.ensure_str(e['message'])
    args = e['args']
    if isinstance(args, list):
        args = tuple(args)
elif 'message' in e:
    fmt = '%(message)s'
    assert isinstance(e['message'], (bytes, str))
    args = {'message': six.ensure_str(e['message'])}
else:
    fmt = ''
    args = {}
assert isinstance(fmt, (bytes, str))
return six.ensure_text(fmt % args)"""

# accepted form L4: the selection moved into a module-level helper written as an early-return chain
FMT_TRY_B = """fmt, args = %s(e)
assert isinstance(fmt, (bytes, str))
return six.ensure_text(fmt %% args)"""

FMT_HELPER_B = """if 'format' in e:
    return (six.ensure_str(e['format']), e)
if 'args' in e:
    assert 'message' in e
    fmt = six.ensure_str(e['message'])
    args = e['args']
    if isinstance(args, list):
        args = tuple(args)
    return (fmt, args)
if 'message' in e:
    assert isinstance(e['message'], (bytes, str))
    return ('%(message)s', {'message': six.ensure_str(e['message'])})
return ('', {})"""

FMT_INNER = """if not isinstance(msg, (bytes, str)):
    msg = repr(msg)
msg = six.ensure_text(msg, errors='replace')"""


def generate():
    out = [P.PRELUDE % dict(src="logging/flogfile.py (serialize_to_json_utf8, _make_jsonable, _last_resort, ExtendedEncoder)")]
    out.append("Inductive vtype := TStr | TInt | TFloat | TBool | TNone | TBytes | TList | TTuple | TDict | TOther.")
    out.append("Inductive exnclass := CAll | CTypeError | CValueError | CRecursionError | CRuntimeError.")
    fm = P.load("logging/flogfile.py")
    MODULE[0] = fm

    # ---- serialize_to_json_utf8
    sj = P.find_def(fm, "serialize_to_json_utf8")
    if [x.arg for x in sj.args.args] != ["f", "obj"]:
        bail("serialize_to_json_utf8: signature changed")
    sjb = body_of(sj)
    if len(sjb) != 2 or U(sjb[1]) != "f.write(six.ensure_binary(s))":
        bail("serialize_to_json_utf8: the line is no longer written by one f.write after the encoding")
    first = inline_tail_return_helper(fm, sjb[0], "s", "obj")
    d1 = "s = json.dumps(obj, cls=ExtendedEncoder)"
    d2 = "s = json.dumps(_make_jsonable(obj), cls=ExtendedEncoder)"
    d3 = "s = json.dumps(_last_resort(obj))"
    c1, c2, stages = [], [], 1

    def one_try(t, what, want):
        if not (isinstance(t, ast.Try) and [U(x) for x in t.body] == [want] and len(t.handlers) == 1 and not t.orelse
                and not t.finalbody and len(t.handlers[0].body) == 1):
            bail("serialize_to_json_utf8: %s changed: %s" % (what, U(t)))
        return catch_list(t.handlers[0], what), t.handlers[0].body[0]
    if U(first) == d1:
        pass
    else:
        c1, nxt = one_try(first, "first stage", d1)
        stages = 2
        if U(nxt) == d2:
            pass
        else:
            c2, last = one_try(nxt, "second stage", d2)
            if U(last) != d3:
                bail("serialize_to_json_utf8: last stage is " + U(last))
            stages = 3
    out.append("Definition ser_stages : Z := %d." % stages)
    out.append("Definition ser_catch1 : list exnclass := %s.   (* classes selected by the `except` after json.dumps(obj, cls=ExtendedEncoder) *)" % coq_list(c1))
    out.append("Definition ser_catch2 : list exnclass := %s.   (* classes selected by the `except` after json.dumps(_make_jsonable(obj), ..) *)" % coq_list(c2))

    # ---- _make_jsonable
    conts, cyc, keep, guarded = make_jsonable_facts(fm)
    out.append("Definition mj_container_types : list vtype := %s." % coq_list(conts))
    out.append("Definition mj_cycle_check : bool := %s.   (* `if id(o) in _seen: return {replacement}` *)" % ("true" if cyc else "false"))
    out.append("Definition mj_key_keep : list vtype := %s." % coq_list(keep))
    out.append("Definition mj_key_repr_guarded : bool := %s." % ("true" if guarded else "false"))

    # ---- _last_resort
    scalars, bound, depth = last_resort_facts(fm)
    out.append("Definition lr_scalar_types : list vtype := %s." % coq_list(scalars))
    out.append("Definition lr_int_bound : option Z := %s.   (* isinstance(o, int) and abs(o) < BOUND *)"
               % ("None" if bound is None else "Some (%s)" % P.zlit(bound)))
    out.append("Definition lr_default_depth : Z := %d." % depth)

    # ---- ExtendedEncoder.default
    df = P.find_def(fm, "ExtendedEncoder.default")
    if [x.arg for x in df.args.args] != ["self", "o"] or text(body_of(df)) != DEFAULT_TEXT:
        bail("ExtendedEncoder.default changed: " + text(body_of(df)))
    enc = P.find_class(fm, "ExtendedEncoder")
    if [U(b) for b in enc.bases] != ["json.JSONEncoder"] or [n.name for n in enc.body if isinstance(n, ast.FunctionDef)] != ["default"]:
        bail("ExtendedEncoder no longer is json.JSONEncoder + default()")
    out.append("Definition enc_default_nest : bool := true.   (* Failure -> record; repr(o) -> record; repr(exception) -> record; give-up record *)")

    # ---- wrappers
    sw = P.find_def(fm, "serialize_wrapper")
    if [U(x) for x in sw.body] != ["wrapper = {'from': from_, 'rx_time': rx_time, 'd': ev}", "serialize_to_json_utf8(f, wrapper)",
                                   "f.write(b'\\n')"]:
        bail("serialize_wrapper changed")
    sh = P.find_def(fm, "serialize_header")
    # two accepted ways of building {'header': {'type': type, **kwargs}} (same dict, same insertion order: 'type' first --
    # it cannot occur in kwargs, being a named parameter -- then the kwargs in their order)
    shb = [U(x) for x in sh.body if U(x) != "assert 'type' not in kwargs"]
    form_a = ["header = {'header': {'type': type}}", "for k, v in list(kwargs.items()):\n    header['header'][k] = v"]
    form_b = ["fields = {'type': type}", "for k, v in list(kwargs.items()):\n    fields[k] = v"]
    tail = shb[-2:]
    okh = len(shb) >= 4 and tail[1] == "f.write(b'\\n')"
    if okh and shb[:-2] == form_a:
        okh = tail[0] == "serialize_to_json_utf8(f, header)"
    elif okh and shb[:2] == form_b and len(shb) == 5:
        var = shb[2].split(" = ")[0]
        okh = shb[2] == "%s = {'header': fields}" % var and var.isidentifier() and tail[0] == "serialize_to_json_utf8(f, %s)" % var
    elif okh and shb[:-2] == form_b:
        okh = tail[0] == "serialize_to_json_utf8(f, {'header': fields})"
    else:
        okh = False
    if not okh or [a.arg for a in sh.args.args] != ["f", "type"] or sh.args.kwarg is None or sh.args.kwarg.arg != "kwargs":
        bail("serialize_header changed: %r" % shb)
    out.append("Definition wrapper_nesting : Z := 1.   (* {'from','rx_time','d': EVENT} *)")
    out.append("Definition header_nesting : Z := 2.    (* {'header': {'type', 'trigger': EVENT, ..}} *)")
    ge = P.find_def(fm, "get_events")
    if "for line in f.readlines():\n            yield json.loads(line.decode('utf-8'))" not in U(ge):
        bail("get_events no longer yields json.loads of every line")
    # ---- log.format_message: which statement runs outside the try, what the two handlers select
    lm = P.load("logging/log.py")
    fmf = P.find_def(lm, "format_message")
    fb = body_of(fmf)
    ens = "e = ensure_dict_str_keys(e)"
    if len(fb) == 2 and U(fb[0]) == ens and isinstance(fb[1], ast.Try):
        outside, tr, tbody = True, fb[1], fb[1].body
    elif len(fb) == 1 and isinstance(fb[0], ast.Try) and fb[0].body and U(fb[0].body[0]) == ens:
        outside, tr, tbody = False, fb[0], fb[0].body[1:]
    else:
        bail("format_message: expected `e = ensure_dict_str_keys(e)` then one try statement (or that line first inside it)")
    okt = text(tbody) == FMT_TRY
    if not okt and tbody and isinstance(tbody[0], ast.Assign) and isinstance(tbody[0].value, ast.Call) \
            and isinstance(tbody[0].value.func, ast.Name):
        hname = tbody[0].value.func.id
        hs = [n for n in lm.body if isinstance(n, ast.FunctionDef) and n.name == hname]
        okt = len(hs) == 1 and text(tbody) == FMT_TRY_B % hname and [a.arg for a in hs[0].args.args] == ["e"] \
            and not hs[0].decorator_list and not hs[0].args.defaults and text(body_of(hs[0])) == FMT_HELPER_B
    if not okt or len(tr.handlers) != 1 or tr.orelse or tr.finalbody:
        bail("format_message: the try body changed: " + text(tbody))
    oc = catch_list(tr.handlers[0], "format_message")
    hb = tr.handlers[0].body
    get_forms = ("msg = e.get('message', '[no message]')", "msg = e.get('message', '[no message]') if isinstance(e, dict) else '[no message]'")
    if len(hb) != 3 or U(hb[0]) not in get_forms or U(hb[2]) != "return msg + ' [formatting failed]'" or not isinstance(hb[1], ast.Try) \
            or text(hb[1].body) != FMT_INNER or len(hb[1].handlers) != 1 or hb[1].orelse or hb[1].finalbody \
            or [U(x) for x in hb[1].handlers[0].body] != ["msg = '[unprintable message]'"]:
        bail("format_message: the fallback changed: " + text(hb))
    ic = catch_list(hb[1].handlers[0], "format_message fallback")
    out.append("Definition fmt_keys_outside_try : bool := %s.   (* `e = ensure_dict_str_keys(e)` %s the try *)"
               % ("true" if outside else "false", "precedes" if outside else "is the first statement of"))
    out.append("Definition fmt_outer_catch : list exnclass := %s." % coq_list(oc))
    out.append("Definition fmt_inner_catch : list exnclass := %s." % coq_list(ic))
    return {"LogJsonGen.v": "\n\n".join(out) + "\n"}
