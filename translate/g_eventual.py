"""C17: eventual.py -> translated code; promise.py, observer.py -> shape facts and constants (coq/gen/EventualGen.v).

eventual.py: every method of _SimpleCallQueue (append, _turn, flush) and the three module functions (eventually,
fireEventually, flushEventualQueue) are translated STATEMENT BY STATEMENT (class QT below) into an action
world -> world * trace * flow over the primitives of coq/lib/EventualBase.v: one primitive per statement form (stores to
_events / _timer / _in_turn / _flushObservers, the tuple swap that takes the batch out, `for cb, args, kwargs in events`
with its body, try/except with the handler's type, `while <test>` with its body, pop(0).callback(None), the snapshot
loop over observers, d = defer.Deferred(), return values) and one combinator per control form (seq, cond, try_catch,
exceptions and returns as control flow).  Tests are translated as Python truthiness of the fields with not/and/or.
Only the ENVIRONMENT stays hand-written (coq/lib/Eventual.v): what invoking an entry does, what firing a Deferred does,
the reactor.  The class must have exactly the four methods with the known signatures, __init__ must set up exactly the
four fields, the module must bind the one queue object and define exactly the three functions; any statement outside
the vocabulary raises Untranslatable (fail closed).  Code INSIDE the vocabulary is translated whatever it does
(reordered statements, a different handler type, the snapshot loop, append calling cb): the model then follows the
code and the tie theorem of coq/lib/EventualProofs.v decides whether it still is the reference machine.

promise.py / observer.py: purpose-written AST queries that fail closed when the surrounding code no longer has a form
the model of coq/lib/Promise.v can express.  A fact that *can* be expressed either way (`_break` assigns or compares,
which states queue, drain order, ...) is emitted as an enumerated value, so that an edit changes gen/EventualGen.v and
the proofs are re-checked against the changed model.

FORMS ACCEPTED BY MEANING (each is equivalent to the form the queries were written for, for all inputs, with no
assumption about the types of the values involved):

 (E1) A function of eventual.py / promise.py / observer.py that differs from the reference tree (translate/ref_src)
      is replaced by its reference text when, after the step below, the canonical forms of translate/normalize.py
      coincide (renamed locals, else-nesting, tail returns, ... : see normalize.py C1..C10).  The extra step
      ("temporaries with a pure prefix"):   `x = E` immediately followed by a statement S (expression statement,
      return, single-target assignment, or the test of an if) is rewritten to S[x := E] when x is a local that is
      stored exactly once and loaded exactly once in the whole function, the function has no nested def / lambda /
      comprehension / global / nonlocal / del of a name, and everything S evaluates BEFORE it reaches x is a load of
      a PARAMETER of the function (never assigned or deleted in it) or a constant.
      Argument: Python evaluates S left to right; the loads in front of x are loads of fast locals that are
      certainly bound (parameters), which cannot raise, have no side effect and whose value cannot be changed by
      evaluating E (no nested scope can rebind them).  So evaluating E first and those loads afterwards yields the
      same values, the same side effects in the same order and the same exceptions.  x is dead afterwards (no other
      load), so dropping the binding is unobservable.  Example: `forwarded = target._send(..); resolver(forwarded)`
      == `resolver(target._send(..))`;  `d = when(t); d.addBoth(f)` == `when(t).addBoth(f)`.
 (E2) A state test `self._state in NAME` is read as `self._state in (A, B, ...)` when NAME is a module-level name of
      promise.py that is bound exactly once in the whole module, by a top-level assignment `NAME = (A, B, ...)` /
      `[A, B, ...]` whose elements are the state constants (themselves bound once, at top level, before NAME), is
      never the target of global / del / augmented assignment, and is not a parameter or local of the function that
      uses it.  Argument: the global then denotes, at every call, a tuple/list with exactly the elements the literal
      would be built from (the constants are never rebound either), and `in` on a tuple or list compares with the
      elements left to right in both cases.
 (E3) The guard of `_break` that delivers the queued messages is recognised as "an if statement without else whose
      test is a state test over exactly {EVENTUAL, CHAINED} (directly or via E2) and whose body is the single
      statement self._deliver_queued_messages()", instead of by its text.
 (E4) "pure value temporaries" (extends the rewriting step of E1, same side conditions on x and on the function):
      `x = E` immediately followed by S is also rewritten to S[x := E] -- whatever S evaluates before it reaches x --
      when E is built only from loads of never-assigned PARAMETERS, constants, and tuple displays of such.
      Argument: evaluating such an E cannot raise, has no side effect, and yields an equal value (a fresh tuple of the same
      objects) at whichever point of S it is evaluated: parameters are fast locals that only a statement of this function
      could rebind, there is none, and S (an expression statement / return / single-name assignment / if-test of a
      function without nested scopes, and -- checked -- without a walrus) cannot.  x occurs once in S and nowhere else, so
      E is evaluated at most once, like before.  Example: `event = (cb, args, kwargs); self._events.append(event)` ==
      `self._events.append((cb, args, kwargs))`.
 (E5) `for v in IT:  T = v;  REST`  is read as  `for T in IT:  REST`  when v is a plain local name that is stored only as
      this loop target and loaded only by that first statement of the loop body, T is a tuple/list of plain names other
      than v, and the function has no nested scope and never mentions locals/vars/eval/exec/dir.
      Argument: per iteration both forms fetch the next item and unpack THE SAME object into T before anything else of the
      body runs; the unpacking raises the same exception (wrong length / not iterable) at a point that is enclosed by
      exactly the same try blocks (the statement sits directly in the loop body); break/continue/else are untouched.  The
      only difference is that v stays bound to the last item, which nothing can observe: v has no other load.
 (E6) `while A:  if B: break;  REST`  (also with REST as the else-branch; the while has no else) is read as
      `while A and not B:  REST`.
      Argument: every round evaluates the truth of A; if false both leave the loop to the same continuation (no
      while-else); otherwise both evaluate the truth of B exactly once (`not B` calls bool(B) once, like `if B`); if true
      `break` and a false loop test leave to the same continuation, else REST runs and the loop repeats.  `continue` in
      REST jumps to the test in both forms, `break` leaves in both.  No assumption on the types of A and B.
 E4..E6 are applied, like the rewriting of E1, to BOTH the function and its reference version before the canonical forms
 are compared; a function is still only accepted when the two canonical forms are identical, so an edit that changes
 what a function does (C17-s1: snapshot loop, C17-r2s1: `except Exception`, C17-r3s2: batches capped, C17-r5s1: extra
 queue) is not accepted by these rules.
 (E7) In a method of a class C that is declared `class C(object)` (or without bases) and whose body defines no
      `__setattr__`, `__slots__`, `__getattribute__`, no property / descriptor / function named A or `_state` (a
      class-level default `_state = <constant name>` is allowed: an int is not a descriptor), the sequence
          t = (self._state in (...))          # a state test, t a local stored once and loaded once
          self.A1 = x1; ...; self.Ak = xk     # k >= 1 plain instance-attribute stores, Ai != '_state', xi parameters
          if t: ...
      is read as the same statements with the test `self._state in (...)` placed in the `if`.  Argument: without
      `__setattr__` / data descriptors on the class (object's own `__setattr__` is used), `self.Ai = xi` only binds
      the key Ai in the instance dictionary (or raises before doing anything, in either order of the statements the
      same exception at the same point relative to all other effects, because the state test itself cannot raise:
      `_state` is found either in the instance dictionary or as the class default, and `in` on a tuple of ints compares
      ints); it does not rebind `_state`, and loading a parameter has no effect.  So the value of the state test is
      the same before and after those stores; t is dead afterwards.
 (E8) `for X in L:` whose body starts with `(a, b, ..) = X`, X being a local of the function that is neither loaded nor
      stored anywhere else, is read as `for (a, b, ..) in L:` with the rest of the body.  Argument: the for statement
      binds X to the item and the first body statement immediately unpacks that same object; binding the tuple target
      directly performs the same unpacking (same TypeError/ValueError, raised before anything else of the iteration
      happens); X is otherwise dead.
 (E9) Precondition, decided on the whole module promise.py: every assignment to an attribute named `_state` (of any
      object) assigns one of the state constants EVENTUAL / CHAINED / NEAR / BROKEN by name (each bound once, at top
      level, to an int), the class default is `_state = EVENTUAL`, and the module contains no `setattr`, `__dict__`,
      `vars(` or augmented assignment that could store it otherwise.  Then `self._state` is always an int, and
          x = self._state
          if T1(x): .. elif T2(x): .. else: ..
      where every Ti compares x (==, !=, in, not in) with state constants / tuples of them and x is a local used
      nowhere else, is read with `self._state` in place of x.  Argument: comparing ints with ints and tuples of ints
      runs no user code, so nothing can rebind `_state` between the single read and the tests; re-reading it yields
      the same int.
Everything else still fails closed (Untranslatable)."""
import ast
from translate import pylite as P

PROPERTIES = ["C17"]
OUTPUTS = ["EventualGen.v"]

U = P.Untranslatable


def S(src):
    """normal form of a statement's source text (the same the unparser prints for the node)"""
    return ast.unparse(ast.parse(src))


# ------------------------------------------------------------------------------------------------ (E1)
import copy


def _pure_prefix_forward(fn):
    """apply the rewriting of (E1) to a deep copy of fn; returns the copy (unchanged when a side condition fails)"""
    f = copy.deepcopy(fn)
    for n in ast.walk(f):
        if n is not f and isinstance(n, (ast.FunctionDef, ast.AsyncFunctionDef, ast.Lambda, ast.ListComp, ast.SetComp,
                                         ast.DictComp, ast.GeneratorExp, ast.Global, ast.Nonlocal, ast.ClassDef)):
            return f
        if isinstance(n, ast.Delete) and any(isinstance(t, ast.Name) for t in n.targets):
            return f
    params = {a.arg for a in f.args.args + f.args.kwonlyargs + f.args.posonlyargs}
    loads, stores = {}, {}
    for n in ast.walk(f):
        if isinstance(n, ast.Name):
            d = loads if isinstance(n.ctx, ast.Load) else stores
            d[n.id] = d.get(n.id, 0) + 1
    safe_params = {p for p in params if stores.get(p, 0) == 0}

    def reach(e, x):
        """evaluation-order walk: 'found' x is reached with only pure loads before it; 'pure' no x, nothing but
        parameter loads / constants; 'impure' something else is evaluated first"""
        if isinstance(e, ast.Name):
            if e.id == x and isinstance(e.ctx, ast.Load):
                return "found"
            return "pure" if e.id in safe_params else "impure"
        if isinstance(e, ast.Constant):
            return "pure"
        if isinstance(e, ast.Attribute):
            r = reach(e.value, x)
            return "found" if r == "found" else "impure"
        if isinstance(e, ast.Call):
            for sub in [e.func] + list(e.args) + [k.value for k in e.keywords]:
                if isinstance(sub, ast.Starred):
                    sub = sub.value
                r = reach(sub, x)
                if r != "pure":
                    return r
            return "impure"
        return "impure"

    def pure_value(e):
        """(E4) a constant, a load of a never-assigned parameter, or a tuple display of such"""
        if isinstance(e, ast.Constant):
            return True
        if isinstance(e, ast.Name):
            return isinstance(e.ctx, ast.Load) and e.id in safe_params
        if isinstance(e, ast.Tuple):
            return isinstance(e.ctx, ast.Load) and all(pure_value(x) for x in e.elts)
        return False

    def occurs_once(e, x):
        """x is loaded exactly once inside expression e, and e has no walrus"""
        if any(isinstance(n, ast.NamedExpr) for n in ast.walk(e)):
            return False
        return sum(1 for n in ast.walk(e) if isinstance(n, ast.Name) and n.id == x and isinstance(n.ctx, ast.Load)) == 1

    def head(st):
        if isinstance(st, (ast.Expr, ast.Return)) and st.value is not None:
            return st, "value"
        if isinstance(st, ast.Assign) and len(st.targets) == 1 and isinstance(st.targets[0], ast.Name):
            return st, "value"
        if isinstance(st, ast.If):
            return st, "test"
        return None, None

    class Put(ast.NodeTransformer):
        def __init__(self, t, e):
            self.t, self.e = t, e

        def visit_Name(self, n):
            return self.e if (n.id == self.t and isinstance(n.ctx, ast.Load)) else n

    def fw(stmts):
        out = []
        i = 0
        stmts = list(stmts)
        while i < len(stmts):
            st = stmts[i]
            nxt = stmts[i + 1] if i + 1 < len(stmts) else None
            if isinstance(st, ast.Assign) and len(st.targets) == 1 and isinstance(st.targets[0], ast.Name) and nxt is not None:
                x = st.targets[0].id
                holder, field = head(nxt)
                if holder is not None and x not in params and stores.get(x) == 1 and loads.get(x) == 1 \
                        and (reach(getattr(holder, field), x) == "found"
                             or (pure_value(st.value) and occurs_once(getattr(holder, field), x))):      # (E4)
                    setattr(holder, field, Put(x, st.value).visit(getattr(holder, field)))
                    stmts = stmts[:i] + stmts[i + 1:]
                    continue
            for fld in ("body", "orelse", "finalbody"):
                sub = getattr(st, fld, None)
                if isinstance(sub, list) and sub and isinstance(sub[0], ast.stmt):
                    setattr(st, fld, fw(sub))
            if isinstance(st, ast.Try):
                for h in st.handlers:
                    h.body = fw(h.body)
            out.append(st)
            i += 1
        return out
    f.body = fw(f.body)
    if not any(isinstance(n, ast.Name) and n.id in ("locals", "vars", "eval", "exec", "dir") for n in ast.walk(f)):
        f.body = _loop_forms(f.body, loads, stores, params)
    return ast.fix_missing_locations(f)


def _loop_forms(stmts, loads, stores, params):
    """(E5) and (E6) of the module docstring, applied bottom-up to a statement list of a function without nested scopes"""
    out = []
    for st in stmts:
        for fld in ("body", "orelse", "finalbody"):
            sub = getattr(st, fld, None)
            if isinstance(sub, list) and sub and isinstance(sub[0], ast.stmt):
                setattr(st, fld, _loop_forms(sub, loads, stores, params))
        if isinstance(st, ast.Try):
            for h in st.handlers:
                h.body = _loop_forms(h.body, loads, stores, params)
        # (E5)  for v in IT: T = v; REST   ->   for T in IT: REST
        if isinstance(st, ast.For) and isinstance(st.target, ast.Name) and len(st.body) >= 2:
            v, first = st.target.id, st.body[0]
            if v not in params and stores.get(v) == 1 and loads.get(v) == 1 \
                    and isinstance(first, ast.Assign) and len(first.targets) == 1 \
                    and isinstance(first.value, ast.Name) and first.value.id == v \
                    and isinstance(first.targets[0], (ast.Tuple, ast.List)) \
                    and all(isinstance(e, ast.Name) and e.id != v for e in first.targets[0].elts):
                st.target = first.targets[0]
                st.body = st.body[1:]
        # (E6)  while A: if B: break; REST   ->   while A and not B: REST
        if isinstance(st, ast.While) and not st.orelse and st.body and isinstance(st.body[0], ast.If):
            g = st.body[0]
            rest = list(g.orelse) + list(st.body[1:])
            if len(g.body) == 1 and isinstance(g.body[0], ast.Break) and rest:
                st.test = ast.BoolOp(op=ast.And(), values=[st.test, ast.UnaryOp(op=ast.Not(), operand=g.test)])
                st.body = rest
        out.append(st)
    return out


_e1_done = set()


def accept_equivalent_functions(mod, rel, log):
    """(E1): substitute the reference text for functions whose canonical forms coincide after pure-prefix forwarding"""
    if rel in _e1_done:
        return
    _e1_done.add(rel)
    from translate import normalize as N
    ref = N.reference_module(rel)
    if ref is None:
        return
    cur_f, ref_f = N._functions(mod), N._functions(ref)
    for q, (lst, idx, fn) in cur_f.items():
        if q not in ref_f:
            continue
        rfn = ref_f[q][2]
        if ast.dump(fn) == ast.dump(rfn):
            continue
        if ast.dump(fn.args) != ast.dump(rfn.args) or [ast.dump(d) for d in fn.decorator_list] != [ast.dump(d) for d in rfn.decorator_list]:
            continue
        a, b = N.canon_function(_pure_prefix_forward(fn)), N.canon_function(_pure_prefix_forward(rfn))
        if a is not None and a == b:
            lst[idx] = copy.deepcopy(rfn)
            log.append("(* g_eventual E1: %s.%s is equivalent to its reference version; reference text used *)" % (rel, q))


# ------------------------------------------------------------------------------------------------ (E7) (E8) (E9)
def _name_uses(fn, name):
    loads = stores = 0
    for n in ast.walk(fn):
        if isinstance(n, ast.Name) and n.id == name:
            if isinstance(n.ctx, ast.Load):
                loads += 1
            else:
                stores += 1
    return loads, stores


def _plain_function(fn):
    for n in ast.walk(fn):
        if n is not fn and isinstance(n, (ast.FunctionDef, ast.AsyncFunctionDef, ast.Lambda, ast.ListComp, ast.SetComp,
                                         ast.DictComp, ast.GeneratorExp, ast.Global, ast.Nonlocal, ast.ClassDef)):
            return False
        if isinstance(n, ast.Delete) and any(isinstance(t, ast.Name) for t in n.targets):
            return False
    return True


def unpack_loop_variables(fn, log, where):
    """(E8) on every for loop of fn (in place)"""
    if not _plain_function(fn):
        return
    params = {a.arg for a in fn.args.args + fn.args.kwonlyargs + fn.args.posonlyargs}
    for n in ast.walk(fn):
        if isinstance(n, ast.For) and isinstance(n.target, ast.Name) and len(n.body) >= 2:
            x = n.target.id
            st = n.body[0]
            if x in params or not (isinstance(st, ast.Assign) and len(st.targets) == 1 and isinstance(st.targets[0], ast.Tuple)
                                   and isinstance(st.value, ast.Name) and st.value.id == x):
                continue
            if not all(isinstance(e, ast.Name) for e in st.targets[0].elts) or any(e.id == x for e in st.targets[0].elts):
                continue
            if _name_uses(fn, x) != (1, 1):
                continue
            n.target = st.targets[0]
            n.body = n.body[1:]
            log.append("(* g_eventual E8: %s: loop variable %s unpacked in the loop header *)" % (where, x))
    ast.fix_missing_locations(fn)


def class_has_plain_attributes(cls, attrs):
    """side conditions of (E7) on the class"""
    if any(not (isinstance(b, ast.Name) and b.id == "object") for b in cls.bases) or cls.keywords or cls.decorator_list:
        return False
    bad = {"__setattr__", "__slots__", "__getattribute__", "__delattr__"}
    for st in cls.body:
        if isinstance(st, (ast.FunctionDef, ast.AsyncFunctionDef, ast.ClassDef)):
            if st.name in bad or st.name in attrs or st.name == "_state":
                return False
        elif isinstance(st, ast.Assign):
            for t in st.targets:
                for nm in ast.walk(t):
                    if isinstance(nm, ast.Name):
                        if nm.id in bad or nm.id in attrs:
                            return False
                        if nm.id == "_state" and not isinstance(st.value, (ast.Name, ast.Constant)):
                            return False
        elif isinstance(st, (ast.AnnAssign, ast.AugAssign)):
            return False
    return True


def forward_state_test(cls, fn, log, where):
    """(E7) on the top-level statements of fn (in place)"""
    if not _plain_function(fn):
        return
    params = {a.arg for a in fn.args.args + fn.args.kwonlyargs + fn.args.posonlyargs}
    body = fn.body
    for i, st in enumerate(body):
        if not (isinstance(st, ast.Assign) and len(st.targets) == 1 and isinstance(st.targets[0], ast.Name)):
            continue
        t = st.targets[0].id
        v = st.value
        if t in params or not (isinstance(v, ast.Compare) and len(v.ops) == 1 and isinstance(v.ops[0], ast.In)
                               and is_self_attr(v.left, "_state") and isinstance(v.comparators[0], (ast.Tuple, ast.List, ast.Name))):
            continue
        if _name_uses(fn, t) != (1, 1):
            continue
        j = i + 1
        attrs = []
        while j < len(body) and isinstance(body[j], ast.Assign) and len(body[j].targets) == 1 \
                and is_self_attr(body[j].targets[0]) and body[j].targets[0].attr != "_state" \
                and isinstance(body[j].value, ast.Name) and body[j].value.id in params \
                and _name_uses(fn, body[j].value.id)[1] == 0:
            attrs.append(body[j].targets[0].attr)
            j += 1
        if not attrs or j >= len(body) or not (isinstance(body[j], ast.If) and isinstance(body[j].test, ast.Name)
                                               and body[j].test.id == t):
            continue
        if "self" not in params or _name_uses(fn, "self")[1] != 0 or not class_has_plain_attributes(cls, set(attrs)):
            continue
        body[j].test = v
        del body[i]
        log.append("(* g_eventual E7: %s: state test %s moved into the if behind the stores of %s *)" % (where, t, ", ".join(attrs)))
        ast.fix_missing_locations(fn)
        return


def state_attr_is_int_constant(mod, names):
    """the precondition of (E9)"""
    src = ast.unparse(mod)
    if "setattr" in src or "__dict__" in src or "vars(" in src:
        return False
    for n in ast.walk(mod):
        if isinstance(n, ast.AugAssign) and isinstance(n.target, ast.Attribute) and n.target.attr == "_state":
            return False
        if isinstance(n, ast.Assign):
            for t in n.targets:
                for a in ast.walk(t):
                    if isinstance(a, ast.Attribute) and a.attr == "_state" and isinstance(a.ctx, ast.Store):
                        if not (len(n.targets) == 1 and t is a and isinstance(n.value, ast.Name) and n.value.id in names):
                            return False
        if isinstance(n, (ast.AnnAssign, ast.NamedExpr, ast.With, ast.For)):
            for a in ast.walk(n.target if hasattr(n, "target") else n):
                if isinstance(a, ast.Attribute) and a.attr == "_state" and isinstance(a.ctx, ast.Store):
                    return False
    try:
        consts = P.module_consts(mod, names)
    except U:
        return False
    return all(isinstance(consts.get(k), int) and not isinstance(consts.get(k), bool) for k in names)


def inline_state_alias(mod, fn, names, log, where):
    """(E9) on the top-level statements of fn (in place)"""
    if not _plain_function(fn) or not state_attr_is_int_constant(mod, names):
        return
    params = {a.arg for a in fn.args.args + fn.args.kwonlyargs + fn.args.posonlyargs}
    if "self" not in params or _name_uses(fn, "self")[1] != 0:
        return
    body = fn.body
    for i, st in enumerate(body[:-1]):
        if not (isinstance(st, ast.Assign) and len(st.targets) == 1 and isinstance(st.targets[0], ast.Name)
                and is_self_attr(st.value, "_state") and isinstance(body[i + 1], ast.If)):
            continue
        x = st.targets[0].id
        if x in params:
            continue
        tests = []
        node = body[i + 1]
        while True:
            tests.append(node)
            if len(node.orelse) == 1 and isinstance(node.orelse[0], ast.If):
                node = node.orelse[0]
            else:
                break

        def ok_operand(e):
            if isinstance(e, ast.Name):
                return e.id in names
            return isinstance(e, (ast.Tuple, ast.List)) and all(isinstance(k, ast.Name) and k.id in names for k in e.elts)
        nload = 0
        good = True
        for t in tests:
            c = t.test
            if not (isinstance(c, ast.Compare) and len(c.ops) == 1 and isinstance(c.ops[0], (ast.Eq, ast.NotEq, ast.In, ast.NotIn))
                    and isinstance(c.left, ast.Name) and c.left.id == x and ok_operand(c.comparators[0])):
                good = False
                break
            nload += 1
        if not good or _name_uses(fn, x) != (nload, 1):
            continue
        for t in tests:
            t.test.left = ast.Attribute(value=ast.Name(id="self", ctx=ast.Load()), attr="_state", ctx=ast.Load())
        del body[i]
        log.append("(* g_eventual E9: %s: the alias %s of self._state is read in place *)" % (where, x))
        ast.fix_missing_locations(fn)
        return


# ------------------------------------------------------------------------------------------------ (E2)
def module_state_tuple(mod, name, consts, user_fn):
    """the elements of NAME = (A, B, ..) under the side conditions of (E2), else None"""
    tops = [st for st in mod.body if isinstance(st, ast.Assign) and any(isinstance(t, ast.Name) and t.id == name for t in st.targets)]
    nstores = 0
    for n in ast.walk(mod):
        if isinstance(n, ast.Name) and n.id == name and not isinstance(n.ctx, ast.Load):
            nstores += 1
        if isinstance(n, (ast.Global, ast.Nonlocal)) and name in n.names:
            return None
        if isinstance(n, ast.arg) and n.arg == name:
            return None
        if isinstance(n, (ast.Import, ast.ImportFrom)) and any((a.asname or a.name) == name for a in n.names):
            return None
    if len(tops) != 1 or nstores != 1 or len(tops[0].targets) != 1:
        return None
    v = tops[0].value
    if not isinstance(v, (ast.Tuple, ast.List)):
        return None
    pos = mod.body.index(tops[0])
    for e in v.elts:
        if not (isinstance(e, ast.Name) and e.id in consts):
            return None
        # the constant is bound once, at top level, before NAME
        cst = [k for k, st in enumerate(mod.body) if isinstance(st, ast.Assign) and e.id in names_stored(st)]
        cnt = sum(1 for n in ast.walk(mod) if isinstance(n, ast.Name) and n.id == e.id and not isinstance(n.ctx, ast.Load))
        if len(cst) != 1 or cnt != 1 or cst[0] > pos:
            return None
    return list(v.elts)


def names_stored(st):
    return {n.id for t in st.targets for n in ast.walk(t) if isinstance(n, ast.Name)}


def is_self_attr(n, attr=None):
    return isinstance(n, ast.Attribute) and isinstance(n.value, ast.Name) and n.value.id == "self" \
        and (attr is None or n.attr == attr)


def stmts_no_doc(fn):
    return [s for s in fn.body if not (isinstance(s, ast.Expr) and isinstance(s.value, ast.Constant)
                                       and isinstance(s.value.value, str))]


def walk_stmts(stmts):
    for s in stmts:
        for x in ast.walk(s):
            yield x


def append_position(fn, listattr, what):
    """how `fn` adds to self.<listattr>:  .append(x) -> Tail, .insert(0, x) -> Head"""
    calls = [x for x in ast.walk(fn) if isinstance(x, ast.Call) and isinstance(x.func, ast.Attribute)
             and is_self_attr(x.func.value, listattr)]
    if len(calls) != 1:
        raise U("%s: expected exactly one call on self.%s, found %d" % (what, listattr, len(calls)))
    c = calls[0]
    if c.func.attr == "append" and len(c.args) == 1:
        return "Tail", c
    if c.func.attr == "insert" and len(c.args) == 2 and isinstance(c.args[0], ast.Constant) and c.args[0].value == 0:
        return "Head", c
    raise U("%s: self.%s is modified by .%s" % (what, listattr, c.func.attr))


def iter_order(node, name_pred, what):
    """`for .. in X` -> Forward;  `in reversed(X)` / `X[::-1]` -> Backward"""
    it = node.iter
    if name_pred(it):
        return "Forward"
    if isinstance(it, ast.Call) and isinstance(it.func, ast.Name) and it.func.id == "reversed" and len(it.args) == 1 \
            and name_pred(it.args[0]):
        return "Backward"
    if isinstance(it, ast.Subscript) and name_pred(it.value) and ast.unparse(it.slice) == "::-1":
        return "Backward"
    raise U("%s: loop iterates over %s" % (what, ast.unparse(it)))


_cur_mod = [None]


def states_tuple(test, consts, what):
    """`self._state in (A, B)` (or `in NAME`, see (E2)) -> [values]"""
    if not (isinstance(test, ast.Compare) and len(test.ops) == 1 and isinstance(test.ops[0], ast.In)
            and is_self_attr(test.left, "_state")):
        raise U("%s: unexpected state test %s" % (what, ast.unparse(test)))
    rhs = test.comparators[0]
    if isinstance(rhs, (ast.Tuple, ast.List)):
        elts = rhs.elts
    elif isinstance(rhs, ast.Name) and _cur_mod[0] is not None:
        elts = module_state_tuple(_cur_mod[0], rhs.id, consts, None)
        if elts is None:
            raise U("%s: state test against %s, which is not a once-bound module-level tuple of state constants" % (what, rhs.id))
    else:
        raise U("%s: unexpected state test %s" % (what, ast.unparse(test)))
    out = []
    for e in elts:
        if not (isinstance(e, ast.Name) and e.id in consts):
            raise U("%s: unexpected state %s" % (what, ast.unparse(e)))
        out.append(consts[e.id])
    return out


# ------------------------------------------------------------------------------------------------ eventual.py
class QT:
    """statement-by-statement translation of one function of eventual.py into an action of lib/EventualBase.v.
    ctx: 'append' (parameters cb, args, kwargs = the entry x), 'turn', 'flush' (the Deferred d of the environment),
    'eventually', 'fireEventually', 'flushEventualQueue'.  Anything that is not listed raises Untranslatable."""

    def __init__(self, ctx, fname):
        self.ctx = ctx
        self.fname = fname
        self.in_loop = False

    def bail(self, node, why):
        raise U("%s line %s: %s: %s" % (self.fname, getattr(node, "lineno", "?"), why, ast.unparse(node)[:120]))

    # ---- expressions used as tests: Python truthiness of the queue's fields, not / and / or
    def test(self, t):
        if isinstance(t, ast.UnaryOp) and isinstance(t.op, ast.Not):
            return "(fun w => negb (%s w))" % self.test(t.operand)
        if isinstance(t, ast.BoolOp):
            op = "andb" if isinstance(t.op, ast.And) else "orb"
            parts = [self.test(v) for v in t.values]
            acc = "(%s w)" % parts[-1]
            for q in reversed(parts[:-1]):
                acc = "(%s (%s w) %s)" % (op, q, acc)      # no side effects in these tests: short-circuit = andb/orb
            return "(fun w => %s)" % acc
        txt = ast.unparse(t)
        fields = {"self._timer": "t_timer", "self._events": "t_events", "self._flushObservers": "t_observers",
                  "self._in_turn": "t_in_turn"}
        if txt in fields:
            return fields[txt]
        self.bail(t, "test outside the translatable subset")

    def prim(self, st):
        txt = ast.unparse(st)
        c = self.ctx
        # -- _SimpleCallQueue.append(self, cb, args, kwargs)
        if c == "append":
            if txt == "self._events.append((cb, args, kwargs))":
                return "(p_events_append x)"
            if txt == "self._events.insert(0, (cb, args, kwargs))":
                return "(p_events_insert0 x)"
            if txt == "self._timer = reactor.callLater(0, self._turn)":
                return "p_arm_timer"
            if txt == "cb(*args, **kwargs)":
                return "(e_call_now E x)"
        # -- _SimpleCallQueue._turn(self)
        if c == "turn":
            if txt == "self._timer = None":
                return "p_timer_none"
            if txt == S("events, self._events = self._events, []"):
                return "p_swap_events"
            if txt in ("self._in_turn = True", "self._in_turn = False"):
                return "(p_set_in_turn %s)" % ("true" if txt.endswith("True") else "false")
            if txt == "self._timer = reactor.callLater(0, self._turn)":
                return "p_arm_timer"
            if txt == "log.err()":
                return "p_log_err"
            if txt == "cb(*args, **kwargs)" and self.in_loop:
                return "(e_call E x rest)"
            if txt == "self._flushObservers.pop(0).callback(None)":
                return "(p_pop0_callback (e_fire E))"
            if txt == S("observers, self._flushObservers = self._flushObservers, []"):
                return "p_swap_observers"
            if txt == S("for o in observers:\n    o.callback(None)"):
                return "(p_for_obs (e_fire E))"
            if isinstance(st, ast.For):
                if self.in_loop or st.orelse or ast.unparse(st.target) != "(cb, args, kwargs)":
                    self.bail(st, "for loop")
                d = iter_order(st, lambda n: isinstance(n, ast.Name) and n.id == "events", "_turn")
                self.in_loop = True
                body = self.block(st.body)
                self.in_loop = False
                return "(p_for_loc %s (fun x rest =>\n     %s))" % ({"Forward": "Fwd", "Backward": "Bwd"}[d], body)
            if isinstance(st, ast.Try):
                if st.orelse or st.finalbody or len(st.handlers) != 1 or st.handlers[0].name:
                    self.bail(st, "try statement")
                h = st.handlers[0]
                if h.type is None or ast.unparse(h.type) == "BaseException":
                    mode = "CatchAll"
                elif ast.unparse(h.type) == "Exception":
                    mode = "CatchException"
                else:
                    self.bail(st, "handler type")
                return "(try_catch %s %s %s)" % (self.block(st.body), mode, self.block(h.body))
            if isinstance(st, ast.While):
                if st.orelse:
                    self.bail(st, "while-else")
                return "(p_while (e_fuel E) %s\n     %s)" % (self.test(st.test), self.block(st.body))
        # -- _SimpleCallQueue.flush(self)
        if c == "flush":
            if txt == "d = defer.Deferred()":
                return "p_new_deferred"
            if txt == "self._flushObservers.append(d)":
                return "(p_observers_append d)"
        # -- module functions
        if c == "eventually" and txt == "_theSimpleQueue.append(cb, args, kwargs)":
            return "(m_append E x)"
        if c == "fireEventually":
            if txt == "d = defer.Deferred()":
                return "p_new_deferred"
            if txt == "eventually(d.callback, value)":
                return "(m_eventually E x)"            # x: the entry (d.callback, (value,), {})
        self.bail(st, "statement outside the translatable subset")

    def ret(self, st):
        v = None if st.value is None else ast.unparse(st.value)
        c = self.ctx
        if v is None or v == "None":
            return "(ret_with RNone)"
        if c == "flush" and v == "defer.succeed(None)":
            return "(ret_with RFired)"
        if c in ("flush", "fireEventually") and v == "d":
            return "(ret_with RUnfired)"
        if c == "flushEventualQueue" and v == "_theSimpleQueue.flush()":
            return "(m_flush E d)"                     # returns whatever flush() returns
        self.bail(st, "return value")

    def block(self, stmts):
        if not stmts:
            return "ret"
        st, rest = stmts[0], stmts[1:]
        if isinstance(st, ast.Expr) and isinstance(st.value, ast.Constant) and isinstance(st.value.value, str):
            return self.block(rest)                    # docstring
        if isinstance(st, ast.Pass):
            return self.block(rest)
        if isinstance(st, ast.Return):
            return self.ret(st)                        # whatever follows is dead
        if isinstance(st, (ast.Break, ast.Continue)):
            self.bail(st, "break/continue")
        if isinstance(st, ast.If):
            return "(seqa (cond %s %s %s)\n   %s)" % (self.test(st.test), self.block(st.body), self.block(st.orelse), self.block(rest))
        return "(seqa %s\n   %s)" % (self.prim(st), self.block(rest))


def gen_eventual(out):
    mod = P.load("eventual.py")
    accept_equivalent_functions(mod, "eventual.py", NOTES)
    cls = P.find_class(mod, "_SimpleCallQueue")
    if any(not (isinstance(b, ast.Name) and b.id == "object") for b in cls.bases) or cls.decorator_list or cls.keywords:
        raise U("_SimpleCallQueue has base classes / decorators")
    meths = [n for n in cls.body if isinstance(n, ast.FunctionDef)]
    other = [n for n in cls.body if not isinstance(n, ast.FunctionDef)
             and not (isinstance(n, ast.Expr) and isinstance(n.value, ast.Constant))]
    if sorted(m.name for m in meths) != ["__init__", "_turn", "append", "flush"] or other:
        raise U("_SimpleCallQueue has members the model does not know: %r" % sorted([m.name for m in meths] + [ast.unparse(o)[:40] for o in other]))
    sig = {"__init__": ["self"], "append": ["self", "cb", "args", "kwargs"], "_turn": ["self"], "flush": ["self"]}
    for m in meths:
        a = m.args
        if m.decorator_list or a.vararg or a.kwarg or a.kwonlyargs or a.defaults or [x.arg for x in a.args] != sig[m.name]:
            raise U("_SimpleCallQueue.%s has an unexpected signature" % m.name)
    init = [ast.unparse(x) for x in stmts_no_doc(P.find_def(mod, "_SimpleCallQueue.__init__"))]
    if sorted(init) != sorted(["self._events = []", "self._flushObservers = []", "self._timer = None", "self._in_turn = False"]):
        raise U("_SimpleCallQueue.__init__ sets up a state the model does not have: %r" % (init,))
    # the one queue object, and nothing else at module level that could touch it
    tops = [ast.unparse(x) for x in mod.body if isinstance(x, ast.Assign)]
    if tops != ["_theSimpleQueue = _SimpleCallQueue()"]:
        raise U("module-level assignments of eventual.py: %r" % (tops,))
    fsig = {"eventually": (["cb"], "args", "kwargs"), "fireEventually": (["value"], None, None), "flushEventualQueue": (["_ignored"], None, None)}
    funs = {n.name: n for n in mod.body if isinstance(n, ast.FunctionDef)}
    if sorted(funs) != sorted(fsig):
        raise U("module-level functions of eventual.py: %r" % sorted(funs))
    for nm, (pos, va, kw) in fsig.items():
        a = funs[nm].args
        if [x.arg for x in a.args] != pos or (a.vararg.arg if a.vararg else None) != va or (a.kwarg.arg if a.kwarg else None) != kw \
                or a.kwonlyargs or funs[nm].decorator_list:
            raise U("%s has an unexpected signature" % nm)
    out.append("Require Import Verif.lib.EventualBase.")
    out.append("Inductive endpos := Tail | Head.")
    out.append("Inductive iterorder := Forward | Backward.")
    hdr = "{C F U : Type} (E : env C F U)"
    defs = [
        ("m_append", "append", "_SimpleCallQueue.append", "(x : C)", P.find_def(mod, "_SimpleCallQueue.append")),
        ("m__turn", "turn", "_SimpleCallQueue._turn", "", P.find_def(mod, "_SimpleCallQueue._turn")),
        ("m_flush", "flush", "_SimpleCallQueue.flush", "(d : Z * F)", P.find_def(mod, "_SimpleCallQueue.flush")),
        ("m_eventually", "eventually", "eventually", "(x : C)", funs["eventually"]),
        ("m_fireEventually", "fireEventually", "fireEventually", "(x : C)", funs["fireEventually"]),
        ("m_flushEventualQueue", "flushEventualQueue", "flushEventualQueue", "(d : Z * F)", funs["flushEventualQueue"]),
    ]
    for name, ctx, qual, params, fn in defs:
        body = QT(ctx, qual).block(fn.body)
        out.append("(* %s, line %d *)\nDefinition %s %s %s : act C F U :=\n  %s." % (qual, fn.lineno, name, hdr, params, body))


def gen_promise(out):
    mod = P.load("promise.py")
    names = ["EVENTUAL", "CHAINED", "NEAR", "BROKEN"]
    cls0 = P.find_class(mod, "Promise")
    for f_ in cls0.body:
        if isinstance(f_, ast.FunctionDef):
            unpack_loop_variables(f_, NOTES, "Promise." + f_.name)                  # (E8)
            inline_state_alias(mod, f_, names, NOTES, "Promise." + f_.name)         # (E9)
    forward_state_test(cls0, P.find_def(mod, "Promise._break"), NOTES, "Promise._break")   # (E7)
    accept_equivalent_functions(mod, "promise.py", NOTES)
    _cur_mod[0] = mod
    consts = P.module_consts(mod, names)
    for k in names:
        if not isinstance(consts[k], int):
            raise U("promise state %s is not an integer" % k)
        out.append("Definition %s : Z := %d." % (k, consts[k]))
    cls = P.find_class(mod, "Promise")
    cc = P.module_consts(mod, body=cls.body, names=None)
    # class-level default: _state = EVENTUAL
    dflt = [s for s in cls.body if isinstance(s, ast.Assign) and ast.unparse(s.targets[0]) == "_state"]
    if len(dflt) != 1 or ast.unparse(dflt[0].value) != "EVENTUAL":
        raise U("Promise._state default changed")

    # ---- _break
    br = P.find_def(mod, "Promise._break")
    sets = []
    for s in stmts_no_doc(br):
        if isinstance(s, ast.Assign) and len(s.targets) == 1 and is_self_attr(s.targets[0], "_state"):
            sets.append(("Assign", ast.unparse(s.value)))
        elif isinstance(s, ast.Expr) and isinstance(s.value, ast.Compare) and is_self_attr(s.value.left, "_state"):
            sets.append(("Compare", ast.unparse(s.value.comparators[0])))
    if len(sets) != 1 or sets[0][1] != "BROKEN":
        raise U("_break: expected one statement about self._state and BROKEN at top level, found %r" % (sets,))
    last = stmts_no_doc(br)[-1]
    if "_state" not in ast.unparse(last):
        raise U("_break: the state statement is no longer last")
    out.append("Inductive stmtkind := Assign | Compare.")
    out.append("Definition pr_break_state_stmt : stmtkind := %s.   (* `%s` at the end of _break *)" % (sets[0][0], ast.unparse(last)))
    want_deliver = "if self._state in (EVENTUAL, CHAINED):\n    self._deliver_queued_messages()"

    def break_stmt_text(st):
        # (E3) the delivering guard is recognised by meaning
        if isinstance(st, ast.If) and not st.orelse and [ast.unparse(x) for x in st.body] == ["self._deliver_queued_messages()"]:
            try:
                vals = states_tuple(st.test, consts, "_break")
            except U:
                return ast.unparse(st)
            if sorted(vals) == sorted([consts["EVENTUAL"], consts["CHAINED"]]) and len(vals) == 2:
                return want_deliver
        return ast.unparse(st)
    src = [break_stmt_text(s) for s in stmts_no_doc(br)]
    want_guard = "if self._state == BROKEN:\n    raise UsageError('Broken Promises may not be re-broken')"
    if "self._target = failure" not in src or want_deliver not in src:
        raise U("_break no longer stores the failure and delivers the queued messages")
    if not (src.index("self._target = failure") < src.index(want_deliver) < len(src) - 1):
        raise U("_break: statement order changed")
    out.append("Definition pr_break_guards_rebreak : bool := %s." % ("true" if want_guard in src else "false"))
    known_break = {want_guard, want_deliver, "self._target = failure", ast.unparse(last),
                   "if not isinstance(failure, Failure):\n    raise UsageError('Promises must be broken with a Failure')"}
    if not set(src) <= known_break:
        raise U("_break contains statements the model does not cover: %r" % sorted(set(src) - known_break))

    # ---- _resolve
    rs = P.find_def(mod, "Promise._resolve")
    rsrc = [ast.unparse(s) for s in stmts_no_doc(rs)]
    guard = "if self._state != EVENTUAL:\n    raise UsageError('Promises may not be resolved multiple times')"
    if rsrc == [guard, "self._resolve2(target_or_failure)"]:
        out.append("Definition pr_resolve_guarded : bool := true.   (* if self._state != EVENTUAL: raise UsageError *)")
    elif rsrc == ["self._resolve2(target_or_failure)"]:
        out.append("Definition pr_resolve_guarded : bool := false.")
    else:
        raise U("_resolve changed: %r" % (rsrc,))

    # ---- _resolve2
    r2 = P.find_def(mod, "Promise._resolve2")
    r2src = [ast.unparse(s) for s in stmts_no_doc(r2)]
    want = ["if isinstance(target_or_failure, Promise):\n    self._state = CHAINED\n"
            "    when(target_or_failure).addBoth(self._resolve2)\n    return",
            "if isinstance(target_or_failure, Failure):\n    self._break(target_or_failure)\n    return",
            "self._target = target_or_failure",
            "self._deliver_queued_messages()"]
    if r2src[:4] != want:
        raise U("_resolve2 changed: %r" % (r2src,))
    if r2src[4:] == ["self._state = NEAR"]:
        out.append("Definition pr_resolve_sets_near : bool := true.   (* self._state = NEAR *)")
    elif r2src[4:] == []:
        out.append("Definition pr_resolve_sets_near : bool := false.")
    else:
        raise U("_resolve2 ends with %r" % (r2src[4:],))

    # ---- _send / _sendOnly / _wait_for_resolution: which states queue
    def queue_states(qual, pend_last, ev_last):
        fn = P.find_def(mod, qual)
        ifs = [s for s in fn.body if isinstance(s, ast.If)]
        if len(ifs) != 1:
            raise U("%s: expected one if" % qual)
        st = states_tuple(ifs[0].test, consts, qual)
        pos, call = append_position(ast.Module(body=ifs[0].body, type_ignores=[]), "_pendingMethods", qual)
        if ast.unparse(call.args[-1]) != "(methname, args, kwargs, %s)" % pend_last:
            raise U("%s queues %s" % (qual, ast.unparse(call.args[-1])))
        if [ast.unparse(s) for s in ifs[0].orelse] != ["eventually(self._deliver, methname, args, kwargs, %s)" % ev_last]:
            raise U("%s: else branch changed" % qual)
        return st, pos
    st1, pos1 = queue_states("Promise._send", "resolver", "resolver")
    st2, pos2 = queue_states("Promise._sendOnly", "_ignore", "_ignore")
    if st1 != st2 or pos1 != pos2:
        raise U("_send and _sendOnly queue differently")
    out.append("Definition pr_queue_states : list Z := [%s].   (* `self._state in (...)` in _send/_sendOnly *)" % "; ".join(map(str, st1)))
    out.append("Definition pr_pending_pos : endpos := %s." % pos1)
    sn = P.find_def(mod, "Promise._send")
    ssrc = [ast.unparse(s) for s in stmts_no_doc(sn)]
    if ssrc[0] != S("p, resolver = makePromise()") or ssrc[-1] != "return p" or len(ssrc) != 3:
        raise U("_send no longer has the form: make the result promise; queue or eventually-deliver; return it")
    if len(stmts_no_doc(P.find_def(mod, "Promise._sendOnly"))) != 1:
        raise U("_sendOnly contains statements the model does not cover")

    wf = P.find_def(mod, "Promise._wait_for_resolution")
    wsrc = stmts_no_doc(wf)
    if len(wsrc) != 3 or not isinstance(wsrc[0], ast.If):
        raise U("_wait_for_resolution changed")
    wst = states_tuple(wsrc[0].test, consts, "_wait_for_resolution")
    if [ast.unparse(s) for s in wsrc[0].body] != ["d = defer.Deferred()", "self._watchers.append(d)", "return d"]:
        raise U("_wait_for_resolution: pending branch changed")
    if ast.unparse(wsrc[1]) != "if self._state == NEAR:\n    return defer.succeed(self._target)" or \
            ast.unparse(wsrc[2]) != "return defer.fail(self._target)":
        raise U("_wait_for_resolution: resolved branches changed")
    out.append("Definition pr_wait_states : list Z := [%s].   (* `self._state in (...)` in _wait_for_resolution *)" % "; ".join(map(str, wst)))

    # ---- _deliver_queued_messages
    dq = P.find_def(mod, "Promise._deliver_queued_messages")
    dsrc = stmts_no_doc(dq)
    kinds = [type(s).__name__ for s in dsrc]
    if kinds != ["For", "Delete", "For", "Delete"]:
        raise U("_deliver_queued_messages: statement kinds %r" % (kinds,))
    o1 = iter_order(dsrc[0], lambda n: is_self_attr(n, "_pendingMethods"), "_deliver_queued_messages")
    if [ast.unparse(s) for s in dsrc[0].body] != ["eventually(self._deliver, methname, args, kwargs, resolver)"] or \
            ast.unparse(dsrc[0].target) != "(methname, args, kwargs, resolver)":
        raise U("_deliver_queued_messages: first loop changed")
    o2 = iter_order(dsrc[2], lambda n: is_self_attr(n, "_watchers"), "_deliver_queued_messages")
    if [ast.unparse(s) for s in dsrc[2].body] != ["eventually(d.callback, self._target)"]:
        raise U("_deliver_queued_messages: second loop changed")
    if ast.unparse(dsrc[1]) != "del self._pendingMethods" or ast.unparse(dsrc[3]) != "del self._watchers":
        raise U("_deliver_queued_messages: del statements changed")
    out.append("Definition pr_drain_order : iterorder := %s.   (* for ... in %s *)" % (o1, ast.unparse(dsrc[0].iter)))
    out.append("Definition pr_watch_order : iterorder := %s." % o2)

    # ---- _deliver
    dl = P.find_def(mod, "Promise._deliver")
    want = ("t = self._target\nif isinstance(t, Promise):\n    resolver(t._send(methname, args, kwargs))\n"
            "elif isinstance(t, Failure):\n    resolver(t)\nelse:\n"
            "    d = defer.maybeDeferred(self._deliverOneMethod, methname, args, kwargs)\n    d.addBoth(resolver)")
    if "\n".join(ast.unparse(s) for s in stmts_no_doc(dl)) != want:
        raise U("_deliver changed")
    d1 = P.find_def(mod, "Promise._deliverOneMethod")
    if [ast.unparse(s) for s in stmts_no_doc(d1)] != ["method = getattr(self._target, methname)", "return method(*args, **kwargs)"]:
        raise U("_deliverOneMethod changed")
    mp = P.find_def(mod, "makePromise")
    if [ast.unparse(s) for s in stmts_no_doc(mp)] != [S("p = Promise()"), S("return p, p._resolve")]:
        raise U("makePromise changed")
    wh = P.find_def(mod, "when")
    if ast.unparse(stmts_no_doc(wh)[-1]) != "return p._wait_for_resolution()":
        raise U("when() changed")


def gen_observer(out):
    mod = P.load("observer.py")
    accept_equivalent_functions(mod, "observer.py", NOTES)
    fr = P.find_def(mod, "OneShotObserverList.fire")
    src = [ast.unparse(s) for s in stmts_no_doc(fr)]
    want = ["assert not self._fired", "self._fired = True", "self._result = result",
            "for w in self._watchers:\n    eventual.eventually(w.callback, result)", "del self._watchers",
            "self.__repr__ = self._fired_repr"]
    if src == want:
        out.append("Definition ob_fire_asserts_unfired : bool := true.   (* assert not self._fired *)")
    elif src == want[1:]:
        out.append("Definition ob_fire_asserts_unfired : bool := false.")
    else:
        raise U("OneShotObserverList.fire changed: %r" % (src,))
    wf = P.find_def(mod, "OneShotObserverList.whenFired")
    src = [ast.unparse(s) for s in stmts_no_doc(wf)]
    if src != ["if self._fired:\n    return eventual.fireEventually(self._result)", "d = defer.Deferred()",
               "self._watchers.append(d)", "return d"]:
        raise U("OneShotObserverList.whenFired changed: %r" % (src,))
    out.append("Definition ob_when_fired_is_eventual : bool := true.   (* fired -> eventual.fireEventually(self._result) *)")


NOTES = []


def generate():
    del NOTES[:]
    _e1_done.clear()
    out = [P.PRELUDE % dict(src="eventual.py, promise.py, observer.py")]
    gen_eventual(out)
    gen_promise(out)
    gen_observer(out)
    for n in NOTES:
        print("g_eventual:", n)
    return {"EventualGen.v": "\n\n".join(out) + "\n"}
