"""Translated parts of banana.py / tokens.py: the four integer codecs, the integer branch of
sendToken, type bytes and limits.  Used by C01, C07, C11, C12, C15."""
import ast
from translate import pylite as P

PROPERTIES = ["C01", "C07", "C11", "C12", "C15", "C02", "C10", "C03", "C04"]
OUTPUTS = ["BananaGen.v"]

TOKNAMES = ["LIST", "INT", "STRING", "NEG", "FLOAT", "VOCAB", "OPEN", "CLOSE", "ABORT",
            "LONGINT", "LONGNEG", "ERROR", "PING", "PONG"]


def generate():
    out = [P.PRELUDE % dict(src="banana.py, tokens.py")]
    tm = P.load("tokens.py")
    tc = P.module_consts(tm)
    for n in TOKNAMES:
        v = tc.get(n)
        if not (isinstance(v, bytes) and len(v) == 1):
            raise P.Untranslatable("tokens.%s is not a one-byte literal" % n)
        out.append("Definition tok_%s : Z := %d." % (n, v[0]))
    if not isinstance(tc.get("SIZE_LIMIT"), int):
        raise P.Untranslatable("tokens.SIZE_LIMIT")
    out.append("Definition SIZE_LIMIT : Z := %d." % tc["SIZE_LIMIT"])

    bm = P.load("banana.py")
    consts = {n: tc[n] for n in TOKNAMES}
    # int2b128(integer, stream): appends to the sink
    out.append(P.translate_function("banana.py", "int2b128", "int2b128",
                                    dict(params=dict(integer=P.Z), acc="stream", fuel={1: "S (S (Z.to_nat (Z.log2 integer)))"})))
    out.append(P.translate_function("banana.py", "b1282int", "b1282int", dict(params=dict(st=P.L), ret=P.Z)))
    out.append(P.translate_function("banana.py", "long_to_bytes", "long_to_bytes",
                                    dict(params=dict(n=P.Z), ret=P.L, fuel={1: "S (S (Z.to_nat (Z.log2 n)))"})))
    out.append(P.translate_function("banana.py", "bytes_to_long", "bytes_to_long", dict(params=dict(s=P.L), ret=P.Z)))

    # the integer branch of Banana.sendToken:  if isinstance(obj, int): <body>
    st = P.find_def(bm, "Banana.sendToken")
    ifs = [n for n in st.body if isinstance(n, ast.If)]
    if len(ifs) != 1 or ast.unparse(ifs[0].test) != "isinstance(obj, int)":
        raise P.Untranslatable("sendToken: first branch is not `isinstance(obj, int)`")
    first = st.body[0]
    if not (isinstance(first, ast.Assign) and ast.unparse(first) == "write = self.transport.write"):
        raise P.Untranslatable("sendToken no longer starts with write = self.transport.write")
    spec = dict(params=dict(obj=P.Z), acc="write", consts=consts,
                sink_calls={"int2b128": ("int2b128", [P.Z])},
                calls={"long_to_bytes": ("long_to_bytes", [P.Z], P.L, True)})
    out.append(P.translate_block("send_int", ifs[0].body, ["obj", "write"], spec))
    # float branch: FLOAT then 8 bytes; bytes branch: VOCAB index or len+STRING+body -- shape facts
    rest = ifs[0].orelse
    src = ast.unparse(st)
    for frag in ("write(FLOAT)", "write(struct.pack('!d', obj))", "int2b128(symbolID, write)", "write(VOCAB)",
                 "int2b128(len(obj), write)", "write(STRING)", "write(obj)"):
        if frag not in src:
            raise P.Untranslatable("sendToken no longer contains " + frag)
    # sendOpen / sendClose / sendAbort / sendPING / sendPONG shapes
    for meth, frags in {"sendOpen": ["openID = self.openCount", "self.openCount += 1", "int2b128(openID, self.transport.write)",
                                      "self.transport.write(OPEN)"],
                        "sendClose": ["int2b128(openID, self.transport.write)", "self.transport.write(CLOSE)"],
                        "sendAbort": ["int2b128(count, self.transport.write)", "self.transport.write(ABORT)"],
                        "sendPONG": ["if number:", "int2b128(number, self.transport.write)", "self.transport.write(PONG)"],
                        "sendPING": ["if number:", "int2b128(number, self.transport.write)", "self.transport.write(PING)"]}.items():
        msrc = ast.unparse(P.find_def(bm, "Banana." + meth))
        for f in frags:
            if f not in msrc:
                raise P.Untranslatable("%s no longer contains %s" % (meth, f))
    bc = P.module_consts(bm)
    if bc.get("EPSILON") != 0.1:
        raise P.Untranslatable("banana.EPSILON is not 0.1")
    out.append("Definition EPSILON_ms : Z := 100.")
    return {"BananaGen.v": "\n\n".join(out) + "\n"}
